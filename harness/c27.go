//go:build c27 || all

package main

import (
	"bytes"
	"context"
	"fmt"
	"io"
	"os"
	"path/filepath"
	"sort"
	"strconv"
	"strings"
	"time"

	"mvdan.cc/sh/v3/expand"
	"mvdan.cc/sh/v3/interp"
	"mvdan.cc/sh/v3/syntax"
)

// C27 — Subshells cannot change the parent shell.
//
// Streams (see lean/ShVerif/Driver/C27.lean):
//   growtab s|i N   the Go runtime's slice growth policy = the oracle the driver instantiates
//   run …           heap-shape dump (hook interp.VerifC27Dump) of parent and child Runner after
//                   every child operation, each run as a tiny parsed program on the child
//   spec …          the specification: the parent's observable state *before* the subshell; the
//                   implementation answers with the state *after* (a difference = violation)
// Search leg (independent of Lean): (1) the same before/after comparison done in Go on the hook
// dump; (2) whole programs through interp.Runner.Run: generated parent states × mutating
// command lists inside ( ), $( ), <( ), >( ), pipeline stages and & + wait, comparing a
// declare -p style dump of the parent before and after.
func init() { register("C27", c27) }

// ---------------------------------------------------------------------------------------------
// Operations: one struct, a model token (Lean `parseOp`) and shell source.

type c27Elem struct {
	HasIdx bool
	I      int
	K      string // amap key
	V      string
}

type c27Op struct {
	K       string // A IA PA N D U RA SV MF SH SP CD PU PS PO O AL UA F CF RF
	Name    string
	HasIdx  bool
	Idx     int
	App     bool
	RhsKind int // 0 none, 1 str, 2 arr, 3 amap
	S       string
	Elems   []c27Elem
	Variant string // d l x r
	Flags   string // subset of xrg
	Vt      string // _ a A n
	Naked   bool
	Mode    string // b v f
	SubKind int    // 0 none, 1 @, 2 int
	Vals    []string
	N       int
	Dir     string // canonical (/S…)
	OptV    bool
	Words   string
	Blank   bool
	Body    string // F: source of the body statements; the token carries the printed body
	Colon   bool   // PA: ${name[idx]:=val} rather than ${name[idx]=val}
	Arith   int    // SV: 0 `read`, 1 `((name=val))`, 2 `: $((name=val))`, 3 `let name=val`, 4 `: $((name+=0*name+val))`-free form; N: which failing command
}

func c27HexList(v []string) string {
	if len(v) == 0 {
		return "_"
	}
	p := make([]string, len(v))
	for i, s := range v {
		p[i] = hx(s)
	}
	return strings.Join(p, ",")
}

func (o *c27Op) rhsTok() string {
	switch o.RhsKind {
	case 0:
		return "_"
	case 1:
		return "s" + hx(o.S)
	case 2:
		p := []string{}
		for _, e := range o.Elems {
			i := "_"
			if e.HasIdx {
				i = strconv.Itoa(e.I)
			}
			p = append(p, i+"="+hx(e.V))
		}
		return "a" + strings.Join(p, ",")
	default:
		p := []string{}
		for _, e := range o.Elems {
			p = append(p, hx(e.K)+"="+hx(e.V))
		}
		return "m" + strings.Join(p, ",")
	}
}

func b01(b bool) string {
	if b {
		return "1"
	}
	return "0"
}

func c27Printed(body string) string {
	f, err := syntax.NewParser().Parse(strings.NewReader("f() { "+body+"; }"), "")
	if err != nil || len(f.Stmts) != 1 {
		return "?"
	}
	fd, ok := f.Stmts[0].Cmd.(*syntax.FuncDecl)
	if !ok {
		return "?"
	}
	var buf bytes.Buffer
	syntax.NewPrinter().Print(&buf, fd.Body)
	return buf.String()
}

func (o *c27Op) Tok() string {
	switch o.K {
	case "A":
		idx := "_"
		if o.HasIdx {
			idx = "i" + strconv.Itoa(o.Idx)
		}
		return "A:" + hx(o.Name) + ":" + idx + ":" + b01(o.App) + ":" + o.rhsTok()
	case "IA":
		return "IA:" + hx(o.Name) + ":" + b01(o.App) + ":" + o.rhsTok()
	case "PA":
		idx := "_"
		if o.HasIdx {
			idx = "i" + strconv.Itoa(o.Idx)
		}
		return "PA:" + hx(o.Name) + ":" + idx + ":" + b01(o.Colon) + ":" + hx(o.S)
	case "N":
		return "N"
	case "D":
		fl := o.Flags
		if fl == "" {
			fl = "_"
		}
		return "D:" + o.Variant + ":" + fl + ":" + o.Vt + ":" + hx(o.Name) + ":" + b01(o.Naked) + ":" + b01(o.App) + ":" + o.rhsTok()
	case "U":
		sub := "_"
		if o.SubKind == 1 {
			sub = "@"
		} else if o.SubKind == 2 {
			sub = "i" + strconv.Itoa(o.Idx)
		}
		return "U:" + o.Mode + ":" + hx(o.Name) + ":" + sub
	case "RA":
		return "RA:" + hx(o.Name) + ":" + c27HexList(o.Vals)
	case "SV":
		return "SV:" + hx(o.Name) + ":" + hx(o.S)
	case "MF":
		return "MF:" + hx(o.Name) + ":" + c27HexList(o.Vals)
	case "SH":
		return "SH:" + strconv.Itoa(o.N)
	case "SP":
		return "SP:" + c27HexList(o.Vals)
	case "CD":
		return "CD:" + hx(o.Dir)
	case "PU":
		return "PU:" + hx(o.Dir)
	case "PS", "PO", "RF":
		return o.K
	case "O":
		return "O:" + strconv.Itoa(o.N) + ":" + b01(o.OptV)
	case "AL":
		return "AL:" + hx(o.Name) + ":" + hx(o.Words) + ":" + b01(o.Blank)
	case "UA":
		return "UA:" + hx(o.Name)
	case "F":
		return "F:" + hx(o.Name) + ":" + hx(c27Printed(o.Body))
	case "CF":
		return "CF:" + c27HexList(o.Vals)
	}
	panic("c27: bad op kind " + o.K)
}

func c27Word(s string) string {
	if s == "" {
		return "''"
	}
	return s
}

func (o *c27Op) rhsSrc() string {
	switch o.RhsKind {
	case 0:
		return ""
	case 1:
		return c27Word(o.S)
	case 2:
		p := []string{}
		for _, e := range o.Elems {
			if e.HasIdx {
				p = append(p, "["+strconv.Itoa(e.I)+"]="+c27Word(e.V))
			} else {
				p = append(p, c27Word(e.V))
			}
		}
		return "(" + strings.Join(p, " ") + ")"
	default:
		p := []string{}
		for _, e := range o.Elems {
			p = append(p, "[\""+e.K+"\"]="+c27Word(e.V))
		}
		return "(" + strings.Join(p, " ") + ")"
	}
}

var c27OptNames = interp.VerifC27OptNames()

// Src is the shell source of the operation; root is the real path that "/S" stands for.
func (o *c27Op) Src(root string) string {
	real := func(d string) string { return root + strings.TrimPrefix(d, "/S") }
	eq := "="
	if o.App {
		eq = "+="
	}
	switch o.K {
	case "A":
		n := o.Name
		if o.HasIdx {
			n += "[" + strconv.Itoa(o.Idx) + "]"
		}
		return n + eq + o.rhsSrc()
	case "IA":
		return o.Name + eq + o.rhsSrc() + " true"
	case "PA":
		n := o.Name
		if o.HasIdx {
			n += "[" + strconv.Itoa(o.Idx) + "]"
		}
		op := "="
		if o.Colon {
			op = ":="
		}
		return ": \"${" + n + op + c27Word(o.S) + "}\""
	case "N":
		// assignment targets the arithmetic evaluator refuses: an error, no write
		return []string{"((a[1]=2))", "((a[1]++))", ": $((b[0]+=1))", "let 'c[2]=3'"}[o.Arith%4]
	case "D":
		cmd := map[string]string{"d": "declare", "l": "local", "x": "export", "r": "readonly"}[o.Variant]
		for _, f := range o.Flags {
			cmd += " -" + string(f)
		}
		if o.Vt != "_" {
			cmd += " -" + o.Vt
		}
		if o.Naked {
			return cmd + " " + o.Name
		}
		return cmd + " " + o.Name + eq + o.rhsSrc()
	case "U":
		cmd := "unset"
		if o.Mode != "b" {
			cmd += " -" + o.Mode
		}
		switch o.SubKind {
		case 1:
			return cmd + " '" + o.Name + "[@]'"
		case 2:
			return cmd + " '" + o.Name + "[" + strconv.Itoa(o.Idx) + "]'"
		}
		return cmd + " " + o.Name
	case "RA":
		return "read -a " + o.Name + " <<< \"" + strings.Join(o.Vals, " ") + "\""
	case "SV":
		switch o.Arith {
		case 1:
			return "((" + o.Name + "=" + o.S + "))"
		case 2:
			return ": $((" + o.Name + "=" + o.S + "))"
		case 3:
			return "let " + o.Name + "=" + o.S
		}
		return "read " + o.Name + " <<< \"" + o.S + "\""
	case "MF":
		if len(o.Vals) == 0 {
			return "mapfile -t " + o.Name + " < /dev/null"
		}
		return "mapfile -t " + o.Name + " <<< \"" + strings.Join(o.Vals, "\n") + "\""
	case "SH":
		return "shift " + strconv.Itoa(o.N)
	case "SP":
		return strings.TrimSpace("set -- " + strings.Join(o.Vals, " "))
	case "CD":
		return "cd " + real(o.Dir)
	case "PU":
		return "pushd " + real(o.Dir)
	case "PS":
		return "pushd"
	case "PO":
		return "popd"
	case "O":
		name := c27OptNames[o.N]
		if o.N < 7 {
			if o.OptV {
				return "set -o " + name
			}
			return "set +o " + name
		}
		if o.OptV {
			return "shopt -s " + name
		}
		return "shopt -u " + name
	case "AL":
		w := o.Words
		if o.Blank {
			w += " "
		}
		return "alias " + o.Name + "='" + w + "'"
	case "UA":
		return "unalias " + o.Name
	case "F":
		return o.Name + "() { " + o.Body + "; }"
	}
	panic("c27: no source for " + o.K)
}

func c27ParseRhs(s string, o *c27Op) bool {
	switch {
	case s == "_":
		o.RhsKind = 0
	case strings.HasPrefix(s, "s"):
		o.RhsKind, o.S = 1, unhx(s[1:])
	case strings.HasPrefix(s, "a"), strings.HasPrefix(s, "m"):
		o.RhsKind = 2
		if s[0] == 'm' {
			o.RhsKind = 3
		}
		if s[1:] == "" {
			return true
		}
		for _, e := range strings.Split(s[1:], ",") {
			l, r, ok := strings.Cut(e, "=")
			if !ok {
				return false
			}
			el := c27Elem{V: unhx(r)}
			if o.RhsKind == 3 {
				el.K = unhx(l)
			} else if l != "_" {
				i, err := strconv.Atoi(l)
				if err != nil {
					return false
				}
				el.HasIdx, el.I = true, i
			}
			o.Elems = append(o.Elems, el)
		}
	default:
		return false
	}
	return true
}

func c27UnhexList(s string) []string {
	if s == "_" {
		return nil
	}
	var out []string
	for _, h := range strings.Split(s, ",") {
		out = append(out, unhx(h))
	}
	return out
}

// c27ParseTok is the inverse of Tok (corpus replay).  F tokens carry the printed body, which is
// valid source for the body again.
func c27ParseTok(tok string) (o c27Op, ok bool) {
	defer func() {
		if recover() != nil {
			ok = false
		}
	}()
	f := strings.Split(tok, ":")
	o.K = f[0]
	switch {
	case o.K == "A" && len(f) == 5:
		o.Name = unhx(f[1])
		if f[2] != "_" {
			o.HasIdx = true
			o.Idx, _ = strconv.Atoi(f[2][1:])
		}
		o.App = f[3] == "1"
		return o, c27ParseRhs(f[4], &o)
	case o.K == "PA" && len(f) == 5:
		o.Name = unhx(f[1])
		if f[2] != "_" {
			o.HasIdx = true
			o.Idx, _ = strconv.Atoi(f[2][1:])
		}
		o.Colon, o.S = f[3] == "1", unhx(f[4])
		return o, true
	case o.K == "N" && len(f) == 1:
		return o, true
	case o.K == "IA" && len(f) == 4:
		o.Name, o.App = unhx(f[1]), f[2] == "1"
		return o, c27ParseRhs(f[3], &o) && o.RhsKind < 2
	case o.K == "D" && len(f) == 8:
		o.Variant, o.Flags, o.Vt, o.Name, o.Naked, o.App = f[1], strings.Trim(f[2], "_"), f[3], unhx(f[4]), f[5] == "1", f[6] == "1"
		return o, c27ParseRhs(f[7], &o)
	case o.K == "U" && len(f) == 4:
		o.Mode, o.Name = f[1], unhx(f[2])
		if f[3] == "@" {
			o.SubKind = 1
		} else if f[3] != "_" {
			o.SubKind = 2
			o.Idx, _ = strconv.Atoi(f[3][1:])
		}
		return o, true
	case (o.K == "RA" || o.K == "MF") && len(f) == 3:
		o.Name, o.Vals = unhx(f[1]), c27UnhexList(f[2])
		return o, true
	case o.K == "SV" && len(f) == 3:
		o.Name, o.S = unhx(f[1]), unhx(f[2])
		return o, true
	case o.K == "SH" && len(f) == 2:
		o.N, _ = strconv.Atoi(f[1])
		return o, true
	case (o.K == "SP" || o.K == "CF") && len(f) == 2:
		o.Vals = c27UnhexList(f[1])
		return o, true
	case (o.K == "CD" || o.K == "PU") && len(f) == 2:
		o.Dir = unhx(f[1])
		return o, true
	case (o.K == "PS" || o.K == "PO" || o.K == "RF") && len(f) == 1:
		return o, true
	case o.K == "O" && len(f) == 3:
		o.N, _ = strconv.Atoi(f[1])
		o.OptV = f[2] == "1"
		return o, o.N < len(c27OptNames)
	case o.K == "AL" && len(f) == 4:
		o.Name, o.Words, o.Blank = unhx(f[1]), unhx(f[2]), f[3] == "1"
		return o, true
	case o.K == "UA" && len(f) == 2:
		o.Name = unhx(f[1])
		return o, true
	case o.K == "F" && len(f) == 3:
		o.Name = unhx(f[1])
		b := strings.TrimSpace(unhx(f[2]))
		b = strings.TrimSuffix(strings.TrimPrefix(b, "{"), "}")
		o.Body = strings.TrimSuffix(strings.TrimSpace(b), ";")
		return o, true
	}
	return o, false
}

// A step is what runs as one tiny program: one operation, or a function call group
// (F __g body, CF params, inner ops, RF).
type c27Step struct {
	Ops    []c27Op
	Call   bool
	Params []string
}

func (s *c27Step) Toks() []string {
	if !s.Call {
		return []string{s.Ops[0].Tok()}
	}
	toks := []string{s.def().Tok(), (&c27Op{K: "CF", Vals: s.Params}).Tok()}
	for i := range s.Ops {
		toks = append(toks, s.Ops[i].Tok())
	}
	return append(toks, "RF")
}

func (s *c27Step) def() *c27Op {
	srcs := []string{}
	for i := range s.Ops {
		srcs = append(srcs, s.Ops[i].Src("/S"))
	}
	if len(srcs) == 0 {
		srcs = []string{":"}
	}
	return &c27Op{K: "F", Name: "__g", Body: strings.Join(srcs, "; ")}
}

func (s *c27Step) Src(root string) string {
	if !s.Call {
		return s.Ops[0].Src(root)
	}
	srcs := []string{}
	for i := range s.Ops {
		srcs = append(srcs, s.Ops[i].Src(root))
	}
	if len(srcs) == 0 {
		srcs = []string{":"}
	}
	return strings.TrimSpace("__g() { " + strings.Join(srcs, "; ") + "; }; __g " + strings.Join(s.Params, " "))
}

// A case: setup steps run on the parent at top level, then (optionally) inside a function call
// with its own steps; the subshell is created at that point; child steps run in the child.
type c27Case struct {
	Bg       bool
	Setup    []c27Step // top level
	InFunc   bool
	FParams  []string
	FSetup   []c27Step // inside f, before the snapshot
	Child    []c27Step
	FromToks bool
}

// ---------------------------------------------------------------------------------------------
// Dump formatting (mirrors showRunner/showBoth in the Lean driver).

var c27Hidden = map[string]bool{"UID": true, "EUID": true, "GID": true}

type c27Fmt struct {
	root  string
	shape bool
}

func (f c27Fmt) canon(s string) string { return strings.ReplaceAll(s, f.root, "/S") }

func (f c27Fmt) hexs(v []string) string {
	p := make([]string, len(v))
	for i, s := range v {
		p[i] = hx(f.canon(s))
	}
	return "[" + strings.Join(p, ",") + "]"
}

func (f c27Fmt) strSlice(nilp bool, ln, cp, class int, vals []string, hideEmpty bool) string {
	if nilp {
		return "n"
	}
	body := f.hexs(vals)
	if !f.shape {
		return body
	}
	if hideEmpty {
		if ln == 0 {
			return "e"
		}
		return fmt.Sprintf("%d.%d%s", class, ln, body)
	}
	if cp == 0 {
		return "z"
	}
	return fmt.Sprintf("%d.%d.%d%s", class, ln, cp, body)
}

func (f c27Fmt) kv(keys, vals []string) string {
	type kvp struct{ k, v string }
	ps := make([]kvp, len(keys))
	for i := range keys {
		ps[i] = kvp{keys[i], vals[i]}
	}
	sort.Slice(ps, func(i, j int) bool { return ps[i].k < ps[j].k })
	p := make([]string, len(ps))
	for i, e := range ps {
		p[i] = hx(e.k) + "=" + hx(f.canon(e.v))
	}
	return "{" + strings.Join(p, ",") + "}"
}

func (f c27Fmt) variable(v interp.VerifC27Var) string {
	l := f.strSlice(v.ListNil, v.ListLen, v.ListCap, v.ListClass, v.List, false)
	var i string
	switch {
	case v.IdxNil:
		i = "n"
	default:
		p := make([]string, len(v.Idx))
		for j, k := range v.Idx {
			p[j] = strconv.Itoa(k)
		}
		body := "[" + strings.Join(p, ",") + "]"
		switch {
		case !f.shape:
			i = body
		case v.IdxCap == 0:
			i = "z"
		default:
			i = fmt.Sprintf("%d.%d.%d%s", v.IdxClass, v.IdxLen, v.IdxCap, body)
		}
	}
	m := "n"
	if !v.MapNil {
		m = f.kv(v.MapKeys, v.MapVals)
		if f.shape {
			m = strconv.Itoa(v.MapClass) + m
		}
	}
	return fmt.Sprintf("%s:%d:%s%s%s%s:%s:L%s:I%s:M%s", hx(v.Name), v.Kind, b01(v.Set), b01(v.Local), b01(v.Exported),
		b01(v.ReadOnly), hx(f.canon(v.Str)), l, i, m)
}

func (f c27Fmt) runner(r interp.VerifC27Runner) string {
	var chain []string
	for _, sc := range r.Scopes {
		var head string
		if f.shape {
			p := "n"
			if sc.Parent == -2 {
				p = "b"
			} else if sc.Parent >= 0 {
				p = "S" + strconv.Itoa(sc.Parent)
			}
			head = fmt.Sprintf("S%d,f%s,p%s,v%s", sc.Class, b01(sc.FuncScope), p, b01(sc.ValuesNil))
		} else {
			p := ",pn"
			if sc.Parent == -2 {
				p = ",pb"
			} else if sc.Parent >= 0 {
				p = ",po"
			}
			head = fmt.Sprintf("f%s,v%s%s", b01(sc.FuncScope), b01(sc.ValuesNil), p)
		}
		var vars []string
		for _, v := range sc.Vars {
			if c27Hidden[v.Name] {
				continue
			}
			vars = append(vars, f.variable(v))
		}
		chain = append(chain, head+"("+strings.Join(vars, "|")+")")
	}
	base := make([]string, len(r.BaseNames))
	for i := range r.BaseNames {
		base[i] = hx(r.BaseNames[i]) + "=" + hx(f.canon(r.BaseVals[i]))
	}
	par := f.strSlice(r.Params.Nil, r.Params.Len, r.Params.Cap, r.Params.Class, r.Params.Vals, true)
	ds := f.strSlice(r.DirStack.Nil, r.DirStack.Len, r.DirStack.Cap, r.DirStack.Class, r.DirStack.Vals, false)
	opts := ""
	for _, b := range r.Opts {
		opts += b01(b)
	}
	fn := "n"
	if !r.FuncsNil {
		fn = f.kv(r.FuncNames, r.FuncBodies)
		if f.shape {
			fn = strconv.Itoa(r.FuncsClass) + fn
		}
	}
	al := "n"
	if !r.AliasNil {
		vals := make([]string, len(r.AliasNames))
		for i := range vals {
			vals[i] = r.AliasVals[i] + "-"
			if r.AliasBlanks[i] {
				vals[i] = r.AliasVals[i] + "+"
			}
		}
		al = f.kv(r.AliasNames, vals)
		if f.shape {
			al = strconv.Itoa(r.AliasClass) + al
		}
	}
	return fmt.Sprintf("env[%s] base[%s] par=%s ds=%s dir=%s opts=%s fn=%s al=%s if=%s", strings.Join(chain, ";"),
		strings.Join(base, ","), par, ds, hx(f.canon(r.Dir)), opts, fn, al, b01(r.InFunc))
}

func c27Both(root string, p, ch *interp.Runner) string {
	d := interp.VerifC27Dump(p, ch)
	f := c27Fmt{root: root, shape: true}
	return "P{" + f.runner(d[0]) + "} C{" + f.runner(d[1]) + "}"
}

func c27Obs(root string, p *interp.Runner) string {
	d := interp.VerifC27Dump(p)
	return c27Fmt{root: root, shape: false}.runner(d[0])
}

// ---------------------------------------------------------------------------------------------
// Running a case on the real Runner.

type c27Env struct {
	c    *Ctx
	root string // real directory standing for /S, with subdirectories d1, d2
	fx   bool   // the tree clones before `+=` (the code as it is since db7f3b5); false: tie against the `…pinned` model
	// the option array of a fresh Runner (bash options have default states)
	optBits string
}

func (e *c27Env) baseTok() string {
	return hx("E1") + "=" + hx("ev") + "," + hx("HOME") + "=" + hx("/S")
}

func (e *c27Env) newRunner(snap func()) (*interp.Runner, error) {
	mw := func(next interp.ExecHandlerFunc) interp.ExecHandlerFunc {
		return func(ctx context.Context, args []string) error {
			if args[0] == "__snap" {
				snap()
				return nil
			}
			return interp.ExitStatus(127)
		}
	}
	return interp.New(
		interp.StdIO(nil, io.Discard, io.Discard),
		interp.Dir(e.root),
		interp.Env(expand.ListEnviron("E1=ev", "HOME="+e.root)),
		interp.ExecHandlers(mw),
	)
}

func c27Parse(src string) (*syntax.File, error) {
	return syntax.NewParser(syntax.Variant(syntax.LangBash)).Parse(strings.NewReader(src), "")
}

func c27StepsToks(steps []c27Step) []string {
	var t []string
	for i := range steps {
		t = append(t, steps[i].Toks()...)
	}
	return t
}

func c27StepsSrc(steps []c27Step, root string) []string {
	var t []string
	for i := range steps {
		t = append(t, steps[i].Src(root))
	}
	return t
}

// setupToks: the model operations that build the parent state.
func (cs *c27Case) setupToks() []string {
	t := c27StepsToks(cs.Setup)
	if cs.InFunc {
		body := append(c27StepsSrc(cs.FSetup, "/S"), "__snap")
		t = append(t, (&c27Op{K: "F", Name: "f", Body: strings.Join(body, "; ")}).Tok())
		t = append(t, (&c27Op{K: "CF", Vals: cs.FParams}).Tok())
		t = append(t, c27StepsToks(cs.FSetup)...)
	}
	return t
}

func (cs *c27Case) setupSrc(root string) string {
	parts := c27StepsSrc(cs.Setup, root)
	if cs.InFunc {
		body := append(c27StepsSrc(cs.FSetup, root), "__snap")
		parts = append(parts, "f() { "+strings.Join(body, "; ")+"; }")
		parts = append(parts, strings.TrimSpace("f "+strings.Join(cs.FParams, " ")))
	} else {
		parts = append(parts, "__snap")
	}
	return strings.Join(parts, "\n")
}

func (e *c27Env) line(op string, cs *c27Case, childToks []string) string {
	if !e.fx {
		op += "pinned" // the tree shows the old in-place append again: tie against the pinned model
	}
	return op + " " + b01(cs.Bg) + " " + e.baseTok() + " " + hx("/S") + " " + e.optBits + " " + strings.Join(cs.setupToks(), " ") + " | " + strings.Join(childToks, " ")
}

// runCase executes the case on the real code, emits the tie and spec lines and performs the Go
// before/after comparison.  When next is non-nil the child steps are drawn one at a time from it
// (given the current hook dump of parent and child) and recorded in cs.Child.
// It returns the spec line (the witness) and whether the parent changed.
func (e *c27Env) runCase(cs *c27Case, emit bool, next func(d []interp.VerifC27Runner) *c27Step) (witness string, changed bool, note string) {
	c := e.c
	var parent *interp.Runner
	done := false
	snap := func() {
		if done {
			return
		}
		done = true
		before := c27Obs(e.root, parent)
		child := interp.VerifC27Subshell(parent, cs.Bg)
		if emit {
			c.Op(e.line("run", cs, nil), c27Both(e.root, parent, child))
		}
		var toks []string
		for i := 0; ; i++ {
			if next != nil {
				st := next(interp.VerifC27Dump(parent, child))
				if st == nil {
					break
				}
				cs.Child = append(cs.Child, *st)
			} else if i >= len(cs.Child) {
				break
			}
			st := &cs.Child[i]
			toks = append(toks, st.Toks()...)
			f, err := c27Parse(st.Src(e.root))
			if err != nil {
				note = "parse: " + err.Error()
				return
			}
			// generous: the operations cannot block, and a cancelled one would look like a tie break
			ctx, cancel := context.WithTimeout(context.Background(), 120*time.Second)
			pn := safely(func() {
				for _, stmt := range f.Stmts {
					child.Run(ctx, stmt)
				}
			})
			cancel()
			if pn != "" {
				if emit {
					c.Op(e.line("run", cs, toks), "panic")
				}
				note = "panic: " + pn
				break
			}
			if emit {
				c.Op(e.line("run", cs, toks), c27Both(e.root, parent, child))
			}
		}
		after := c27Obs(e.root, parent)
		if emit && note == "" {
			c.Op(e.line("spec", cs, c27StepsToks(cs.Child)), after)
		}
		if before != after {
			changed = true
			note = c27Diff(before, after)
		}
	}
	var err error
	parent, err = e.newRunner(snap)
	if err != nil {
		return "", false, "new: " + err.Error()
	}
	f, err := c27Parse(cs.setupSrc(e.root))
	if err != nil {
		return "", false, "parse setup: " + err.Error()
	}
	ctx, cancel := context.WithTimeout(context.Background(), 300*time.Second)
	defer cancel()
	pn := safely(func() { parent.Run(ctx, f) })
	witness = e.line("spec", cs, c27StepsToks(cs.Child))
	if pn != "" {
		return witness, changed, "panic in setup: " + pn
	}
	if !done {
		return witness, false, "snapshot not reached"
	}
	return witness, changed, note
}

func c27Diff(a, b string) string {
	i := 0
	for i < len(a) && i < len(b) && a[i] == b[i] {
		i++
	}
	lo := i - 60
	if lo < 0 {
		lo = 0
	}
	cut := func(s string) string {
		hi := i + 60
		if hi > len(s) {
			hi = len(s)
		}
		return s[lo:hi]
	}
	return fmt.Sprintf("parent state before …%s… after …%s…", cut(a), cut(b))
}

// ---------------------------------------------------------------------------------------------
// Generators.

var (
	c27ArrNames = []string{"a", "b", "c"}
	c27Names    = []string{"a", "b", "c", "m", "s", "t"}
	c27ValPool  = []string{"x", "y", "z", "Q", "1", "22", "w0", "", "k"}
	c27Keys     = []string{"k", "j", "1", "0", "-1"}
	c27FnNames  = []string{"fa", "fb"}
	c27AlNames  = []string{"la", "lb"}
	c27Dirs     = []string{"/S", "/S/d1", "/S/d2"}
	// options whose setting does not change how our operations parse or run (no noexec/errexit/nounset/xtrace)
	c27SafeOptNames = []string{"allexport", "noglob", "pipefail", "dotglob", "expand_aliases", "extglob", "globstar", "nocaseglob", "nullglob"}
	c27SafeOpts     = func() []int {
		var out []int
		for _, n := range c27SafeOptNames {
			for i, m := range c27OptNames {
				if n == m {
					out = append(out, i)
				}
			}
		}
		return out
	}()
)

type c27Gen struct {
	r *Rand
}

func (g *c27Gen) val() string    { return g.r.Pick(c27ValPool) }
func (g *c27Gen) neval() string  { return g.r.Pick(c27ValPool[:7]) }
func (g *c27Gen) idx() int       { return []int{0, 1, 2, 3, 5, 9, -1, -2, -7}[g.r.Intn(9)] }
func (g *c27Gen) vals(n int) []string {
	k := g.r.Intn(n + 1)
	out := make([]string, k)
	for i := range out {
		out[i] = g.neval()
	}
	return out
}

func (g *c27Gen) arrRhs(o *c27Op) {
	o.RhsKind = 2
	n := g.r.Intn(5)
	if g.r.Chance(8) {
		n = 5 + g.r.Intn(6)
	}
	next := 0
	for i := 0; i < n; i++ {
		e := c27Elem{V: g.val()}
		if g.r.Chance(15) {
			e.V = "" // set-but-null elements: the targets of ${a[i]:=w}
		}
		if g.r.Chance(25) {
			e.HasIdx = true
			e.I = next + g.r.Intn(4)
			if g.r.Chance(10) {
				e.I = g.idx()
			}
		}
		if e.HasIdx && e.I >= 0 {
			next = e.I + 1
		} else {
			next++
		}
		o.Elems = append(o.Elems, e)
	}
}

func (g *c27Gen) mapRhs(o *c27Op) {
	o.RhsKind = 3
	n := 1 + g.r.Intn(3)
	for i := 0; i < n; i++ {
		o.Elems = append(o.Elems, c27Elem{K: g.r.Pick(c27Keys), V: g.val()})
	}
}

// kinds tracks what the generator believes each name holds: ""/s scalar, a indexed, m assoc.
type c27Kinds map[string]byte

// op draws one operation; kinds only biases the choice towards operations that make sense.
func (g *c27Gen) op(kinds c27Kinds, inFunc bool) c27Op {
	r := g.r
	name := r.Pick(c27Names)
	{
		var o c27Op
		switch k := r.Intn(100); {
		case k < 14: // array assignment
			o = c27Op{K: "A", Name: r.Pick(c27ArrNames), App: r.Chance(40)}
			g.arrRhs(&o)
		case k < 22: // scalar assignment / append
			o = c27Op{K: "A", Name: name, App: r.Chance(50), RhsKind: 1, S: g.val()}
			if r.Chance(10) {
				o.RhsKind = 0
				o.App = false
			}
			if r.Chance(25) { // inline before a command: exported for it, restored afterwards
				o.K = "IA"
			}
		case k < 30: // element assignment / append
			o = c27Op{K: "A", Name: name, HasIdx: true, Idx: g.idx(), App: r.Chance(15), RhsKind: 1, S: g.val()}
		case k < 34: // assigning expansions ${x=w} ${x:=w} ${a[i]=w} ${a[i]:=w}: unset / null / set elements
			o = c27Op{K: "PA", Name: name, Colon: r.Chance(65), S: g.neval()}
			if r.Chance(75) {
				o.HasIdx = true
				o.Idx = []int{0, 1, 2, 3, 1, 2, 5, -1, -2, -7}[r.Intn(10)]
			}
			if r.Chance(50) {
				o.Name = r.Pick(c27ArrNames)
			}
		case k < 39: // associative
			o = c27Op{K: "A", Name: "m", App: false}
			g.mapRhs(&o)
		case k < 51: // declare family
			o = c27Op{K: "D", Variant: string("dlxr"[r.Intn(4)]), Name: name, Vt: "_"}
			if o.Variant == "l" && !inFunc && r.Chance(85) {
				o.Variant = "d"
			}
			for _, f := range "xrg" {
				if r.Chance(12) {
					o.Flags += string(f)
				}
			}
			switch v := r.Intn(10); {
			case v < 3:
				o.Naked = true
				if r.Chance(30) {
					o.Vt = string("aA"[r.Intn(2)])
				}
			case v < 6:
				o.RhsKind, o.S, o.App = 1, g.val(), r.Chance(40)
			case v < 9:
				o.App = r.Chance(30)
				g.arrRhs(&o)
				if r.Chance(30) {
					o.Vt = "a"
				}
			default:
				o.Vt = "A"
				if r.Bool() {
					g.mapRhs(&o)
				} else {
					g.arrRhs(&o)
					for i := range o.Elems { // -A with unsubscripted words panics (C28's domain)
						if !o.Elems[i].HasIdx || o.Elems[i].I < 0 {
							o.Elems[i].HasIdx, o.Elems[i].I = true, i
						}
					}
				}
			}
		case k < 61: // unset
			o = c27Op{K: "U", Mode: string("bbvf"[r.Intn(4)]), Name: name}
			if r.Chance(60) && o.Mode != "f" {
				o.SubKind = 2
				o.Idx = g.idx()
				if r.Chance(15) {
					o.SubKind = 1
				}
			}
			if o.Mode == "f" || (o.SubKind == 0 && r.Chance(20)) {
				o.Name = r.Pick(append(c27FnNames, name))
			}
		case k < 66:
			o = c27Op{K: "RA", Name: r.Pick(c27ArrNames), Vals: g.vals(4)}
		case k < 69:
			o = c27Op{K: "SV", Name: name, S: g.neval()}
			if r.Chance(60) { // arithmetic assignments store a decimal string through the same setVar
				o.Arith = 1 + r.Intn(3)
				o.S = r.Pick([]string{"0", "1", "7", "22", "305"})
			} else if r.Chance(15) {
				o = c27Op{K: "N", Arith: r.Intn(4)}
			}
		case k < 74:
			o = c27Op{K: "MF", Name: r.Pick(c27ArrNames), Vals: g.vals(4)}
		case k < 77:
			o = c27Op{K: "SH", N: r.Intn(4)} // negative counts panic today (C28), not generated
		case k < 81:
			o = c27Op{K: "SP", Vals: g.vals(3)}
		case k < 84:
			o = c27Op{K: "CD", Dir: r.Pick(c27Dirs)}
		case k < 86:
			o = c27Op{K: "PU", Dir: r.Pick(c27Dirs)}
		case k < 87:
			o = c27Op{K: "PS"}
		case k < 88:
			o = c27Op{K: "PO"}
		case k < 92:
			o = c27Op{K: "O", N: c27SafeOpts[r.Intn(len(c27SafeOpts))], OptV: r.Bool()}
		case k < 95:
			o = c27Op{K: "AL", Name: r.Pick(c27AlNames), Words: r.Pick([]string{"echo hi", "ls -l", "true", ""}), Blank: r.Bool()}
		case k < 96:
			o = c27Op{K: "UA", Name: r.Pick(c27AlNames)}
		default:
			o = c27Op{K: "F", Name: r.Pick(c27FnNames), Body: r.Pick([]string{"echo hi", "a+=Q", "local v=1; b=(1 2)", ":"})}
		}
		g.track(&o, kinds)
		return o
	}
}

func (g *c27Gen) track(o *c27Op, kinds c27Kinds) {
	set := func(k byte) { kinds[o.Name] = k }
	switch o.K {
	case "PA":
		if o.HasIdx && kinds[o.Name] != 'm' {
			kinds[o.Name] = 'a'
		} else if kinds[o.Name] == 0 {
			kinds[o.Name] = 's'
		}
	case "IA": // restored afterwards: nothing changes
	case "A", "D":
		if o.K == "D" && o.Naked {
			if o.Vt == "A" {
				kinds[o.Name] = 'm'
			}
			return
		}
		switch o.RhsKind {
		case 2:
			if o.Vt == "A" {
				if !o.App {
					set('m')
				}
			} else if !(o.App && kinds[o.Name] == 'm') {
				set('a')
			}
		case 3:
			if !o.App {
				set('m')
			}
		default:
			if o.K == "A" && (o.HasIdx || kinds[o.Name] == 'a') && kinds[o.Name] != 'm' {
				if !o.App { // element writes clone first: the storage is this level's afterwards
					set('a')
				} else if kinds[o.Name] != 'a' {
					set('a')
				}
			} else if kinds[o.Name] != 'a' && kinds[o.Name] != 'm' {
				kinds[o.Name] = 's'
			} else if o.K == "D" && !o.App {
				kinds[o.Name] = 's'
			}
		}
	case "U":
		if o.SubKind != 2 && o.Mode != "f" {
			delete(kinds, o.Name)
		}
	case "RA", "MF":
		set('a')
	case "SV":
		kinds[o.Name] = 's'
	}
}

// step draws one step: a single operation or (child only) a function call group.
func (g *c27Gen) step(kinds c27Kinds, inFunc, child bool) c27Step {
	if child && g.r.Chance(12) {
		st := c27Step{Call: true, Params: g.vals(2)}
		k := 1 + g.r.Intn(3)
		for j := 0; j < k; j++ {
			o := g.op(kinds, true)
			if o.K == "F" { // keep the group flat
				o = c27Op{K: "SV", Name: "t", S: "v"}
			}
			st.Ops = append(st.Ops, o)
		}
		return st
	}
	return c27Step{Ops: []c27Op{g.op(kinds, inFunc)}}
}

func (g *c27Gen) steps(n int, kinds c27Kinds, inFunc bool) []c27Step {
	var out []c27Step
	for i := 0; i < n; i++ {
		out = append(out, g.step(kinds, inFunc, false))
	}
	return out
}

// genSetup draws the parent state; the child steps are drawn while the case runs.
func (g *c27Gen) genSetup() (c27Case, c27Kinds) {
	r := g.r
	kinds := c27Kinds{}
	cs := c27Case{Bg: r.Chance(35)}
	cs.Setup = g.steps(1+r.Intn(5), kinds, false)
	if r.Chance(35) {
		cs.InFunc = true
		cs.FParams = g.vals(2)
		cs.FSetup = g.steps(r.Intn(4), kinds, true)
	}
	return cs, kinds
}

// ---------------------------------------------------------------------------------------------
// Whole-program search leg.

// "pipe-last" is a valid context name (corpus) but is not generated: the interpreter runs the
// last stage of a pipeline in the parent shell itself (known finding C27-last-pipeline-stage).
var c27Contexts = []string{"paren", "cmdsubst", "procin", "procout", "pipe-first", "pipe-mid", "bg-wait"}

const c27DumpFn = `__d() { for __n in a b c m s t PWD OLDPWD; do declare -p $__n 2>/dev/null || echo "unset $__n"; done; set +o; shopt dotglob expand_aliases extglob globstar nocaseglob nullglob; alias; pwd; dirs; echo "$# $*"; declare -f fa; declare -f fb; }`

func c27Program(cs *c27Case, ctxName, root string) string {
	child := strings.Join(c27StepsSrc(cs.Child, root), "\n")
	var wrapped string
	switch ctxName {
	case "paren":
		wrapped = "(\n" + child + "\n)"
	case "cmdsubst":
		wrapped = ": $(\n" + child + "\n)"
	case "procin":
		wrapped = "cat <(\n" + child + "\n) >/dev/null"
	case "procout":
		wrapped = "echo hi > >(\ncat >/dev/null\n" + child + "\n)\nwait"
	case "pipe-first":
		wrapped = "{\n" + child + "\n} | cat >/dev/null"
	case "pipe-mid":
		wrapped = "echo hi | {\n" + child + "\n} | cat >/dev/null"
	case "pipe-last":
		wrapped = "echo hi | {\n" + child + "\n}"
	case "bg-wait":
		wrapped = "{\n" + child + "\n} &\nwait"
	case "func-paren":
		wrapped = "__h() {\n" + child + "\n}\n(__h)\nunset -f __h"
	}
	body := "echo '%%%%%'; __d; echo =====\n" + wrapped + "\necho '#####'; __d"
	parts := c27StepsSrc(cs.Setup, root)
	if cs.InFunc {
		fbody := append(c27StepsSrc(cs.FSetup, root), body)
		parts = append(parts, "f() {\n"+strings.Join(fbody, "\n")+"\n}")
		parts = append(parts, strings.TrimSpace("f "+strings.Join(cs.FParams, " ")))
	} else {
		parts = append(parts, body)
	}
	return c27DumpFn + "\n" + strings.Join(parts, "\n")
}

// c27SortedLines canonicalises a dump: Go map iteration order shows in `declare -p` of
// associative arrays and in `alias`, so elements and lines are sorted.
func c27SortedLines(s string) string {
	l := strings.Split(strings.TrimSpace(s), "\n")
	for i, line := range l {
		if strings.HasPrefix(line, "declare -A") {
			if a := strings.Index(line, "=("); a >= 0 && strings.HasSuffix(line, ")") {
				el := strings.Fields(line[a+2 : len(line)-1])
				sort.Strings(el)
				l[i] = line[:a+2] + strings.Join(el, " ") + ")"
			}
		}
	}
	sort.Strings(l)
	return strings.Join(l, "\n")
}

// c27RunProgram returns (before, after, ok).
func c27RunProgram(c *Ctx, prog string) (string, string, string) {
	dir := scratchDir(c)
	defer os.RemoveAll(dir)
	os.MkdirAll(filepath.Join(dir, "d1"), 0o755)
	os.MkdirAll(filepath.Join(dir, "d2"), 0o755)
	prog = strings.ReplaceAll(prog, "/S", dir)
	res := runInterpIn(c, syntax.LangBash, dir, prog)
	if res.TimedOut {
		return "", "", "timeout"
	}
	if res.Panic != "" {
		return "", "", "panic"
	}
	_, rest, ok := strings.Cut(res.Stdout, "%%%%%\n")
	if !ok {
		return "", "", "no-dump"
	}
	before, rest, ok := strings.Cut(rest, "=====\n")
	if !ok {
		return "", "", "no-dump"
	}
	_, after, ok := strings.Cut(rest, "#####\n")
	if !ok {
		return "", "", "no-dump"
	}
	before = strings.ReplaceAll(before, dir, "/S")
	after = strings.ReplaceAll(after, dir, "/S")
	// the dump function's own loop variable
	return c27SortedLines(before), c27SortedLines(after), ""
}

// ---------------------------------------------------------------------------------------------

func c27GrowTab(kind string, n int) string {
	clone := make([]string, n+1)
	app := make([]string, n+1)
	for i := 0; i <= n; i++ {
		if kind == "s" {
			src := make([]string, i)
			cl := append([]string{}, src...)
			clone[i] = strconv.Itoa(cap(cl))
			full := make([]string, i, i)
			full = append(full, "v")
			app[i] = strconv.Itoa(cap(full))
			c27Sink = full
		} else {
			src := make([]int, i)
			cl := append([]int{}, src...)
			clone[i] = strconv.Itoa(cap(cl))
			full := make([]int, i, i)
			full = append(full, 1)
			app[i] = strconv.Itoa(cap(full))
			c27Sink = full
		}
	}
	return strings.Join(clone, ",") + ";" + strings.Join(app, ",")
}

var c27Sink any

func c27CaseFromLine(l string) (c27Case, string, bool) {
	// corpus format: the spec line itself: spec[pinned] <bg> <base> <dir> <optbits> <setup toks> | <child toks>
	// optionally prefixed by "ctx=<context> " for the whole-program leg.
	ctxName := ""
	if strings.HasPrefix(l, "ctx=") {
		var rest string
		ctxName, rest, _ = strings.Cut(l[4:], " ")
		l = rest
	}
	f := strings.Fields(l)
	if len(f) < 6 || !strings.HasPrefix(f[0], "spec") {
		return c27Case{}, "", false
	}
	cs := c27Case{Bg: f[1] == "1", FromToks: true}
	toks := f[5:]
	inChild := false
	var cur *[]c27Step = &cs.Setup
	for i := 0; i < len(toks); i++ {
		t := toks[i]
		if t == "|" {
			inChild = true
			cur = &cs.Child
			continue
		}
		o, ok := c27ParseTok(t)
		if !ok {
			return cs, "", false
		}
		switch {
		case o.K == "F" && o.Name == "f" && !inChild && i+1 < len(toks) && strings.HasPrefix(toks[i+1], "CF:"):
			cf, _ := c27ParseTok(toks[i+1])
			cs.InFunc, cs.FParams = true, cf.Vals
			cur = &cs.FSetup
			i++
		case o.K == "F" && o.Name == "__g" && i+1 < len(toks) && strings.HasPrefix(toks[i+1], "CF:"):
			cf, _ := c27ParseTok(toks[i+1])
			st := c27Step{Call: true, Params: cf.Vals}
			i += 2
			for ; i < len(toks) && toks[i] != "RF"; i++ {
				io, ok := c27ParseTok(toks[i])
				if !ok {
					return cs, "", false
				}
				st.Ops = append(st.Ops, io)
			}
			*cur = append(*cur, st)
		default:
			*cur = append(*cur, c27Step{Ops: []c27Op{o}})
		}
	}
	return cs, ctxName, true
}

func c27(c *Ctx) {
	c.Rule = "parent states built by 1-9 generated operations (scalars, dense/sparse indexed arrays, associative arrays, exported/readonly/local " +
		"variables, functions, aliases, options, cwd, positional parameters; 35% inside a function call) × 1-8 child operations " +
		"(assignments, += , element writes, unset, declare family, read -a, mapfile, shift, set --, cd/pushd/popd, set -o/shopt, alias, functions, " +
		"function calls with locals) × background∈{false,true}; non-trivial = the child writes an array or map that exists in the parent, or changes " +
		"params/dir/options/functions/aliases; distinct by exact operation line"
	root := scratchDir(c)
	root, _ = filepath.EvalSymlinks(root)
	os.MkdirAll(filepath.Join(root, "d1"), 0o755)
	os.MkdirAll(filepath.Join(root, "d2"), 0o755)
	defer os.RemoveAll(root)
	e := &c27Env{c: c, root: root}
	if r0, err := e.newRunner(func() {}); err == nil {
		r0.Reset()
		for _, b := range interp.VerifC27Dump(r0)[0].Opts {
			e.optBits += b01(b)
		}
	}

	// Which variant of assignVal does the tree have?  The canonical witness decides (reported in
	// evidence as extra.assignval_variant).  If the old behaviour is back the tie follows it and the
	// violation is reported through the failing inputs of the spec/search legs.
	witness := c27Case{
		Setup: []c27Step{{Ops: []c27Op{{K: "A", Name: "a", RhsKind: 2, Elems: []c27Elem{{V: "x"}, {V: "y"}, {V: "z"}}}}}},
		Child: []c27Step{{Ops: []c27Op{{K: "A", Name: "a", App: true, RhsKind: 1, S: "Q"}}}},
	}
	_, leaks, _ := e.runCase(&witness, false, nil)
	e.fx = !leaks
	c.Extra["assignval_variant"] = map[bool]string{true: "clone-before-append (current model, fx=true)", false: "in-place append (PINNED old model, fx=false): defect C27-append-inherited-array is back"}[e.fx]

	if c.Shard == 0 {
		c.Op("growtab s 24", c27GrowTab("s", 24))
		c.Op("growtab i 24", c27GrowTab("i", 24))
	}

	check := func(cs *c27Case, next func(d []interp.VerifC27Runner) *c27Step, tags ...string) {
		w, changed, note := e.runCase(cs, true, next)
		nontrivial := false
		tags = append(tags, fmt.Sprintf("bg=%v", cs.Bg), fmt.Sprintf("infunc=%v", cs.InFunc), fmt.Sprintf("childsteps=%d", len(cs.Child)))
		for _, st := range cs.Child {
			if st.Call {
				tags = append(tags, "child-calls-function")
			}
			for _, o := range st.Ops {
				nontrivial = nontrivial || o.K != "SV"
				tags = append(tags, "op="+o.K)
			}
		}
		if strings.HasPrefix(note, "panic") {
			tags = append(tags, "panic")
		}
		c.Case(w, nontrivial, tags...)
		if changed {
			c.Fail(w, "the subshell changed the parent: "+note)
		}
	}

	// Corpus first (known findings and past failures).
	type progCase struct {
		cs  c27Case
		ctx string
		w   string
	}
	var progs []progCase
	for _, l := range c.CorpusLines() {
		cs, ctxName, ok := c27CaseFromLine(l)
		if !ok {
			c.Fail(l, "corpus line does not parse")
			continue
		}
		if ctxName == "" {
			check(&cs, nil, "corpus")
		} else {
			progs = append(progs, progCase{cs, ctxName, l})
		}
	}

	g := &c27Gen{r: c.R}
	maxOps := 6
	if c.Thorough() {
		maxOps = 8
	}
	for i := 0; i < c.N; i++ {
		cs, kinds := g.genSetup()
		want := 1 + c.R.Intn(maxOps)
		next := func(_ []interp.VerifC27Runner) *c27Step {
			if len(cs.Child) >= want {
				return nil
			}
			st := g.step(kinds, false, true) // nothing is excluded (C27-append-inherited-array is fixed)
			return &st
		}
		check(&cs, next)
		// Every other case is also run as a whole program in one of the isolating contexts.
		if i%2 == 0 && len(cs.Child) > 0 {
			progs = append(progs, progCase{cs, c27Contexts[(i/2)%len(c27Contexts)], ""})
		}
	}

	type progRes struct{ before, after, skip string }
	results := parallelMap(len(progs), 4, func(i int) progRes {
		b, a, skip := c27RunProgram(c, c27Program(&progs[i].cs, progs[i].ctx, "/S"))
		return progRes{b, a, skip}
	})
	for i, pr := range progs {
		res := results[i]
		w := pr.w
		if w == "" {
			w = "ctx=" + pr.ctx + " " + e.line("spec", &pr.cs, c27StepsToks(pr.cs.Child))
		}
		tags := []string{"program", "ctx=" + pr.ctx}
		if res.skip != "" {
			tags = append(tags, "program-"+res.skip)
		}
		c.Case(w, res.skip == "", tags...)
		if res.skip == "" && res.before != res.after {
			c.Fail(w, "program dump of the parent differs after the "+pr.ctx+" context: "+c27Diff(res.before, res.after))
		}
	}
}
