//go:build c09 || all

package main

import (
	"fmt"
	"math"
	"os"
	"reflect"
	"sort"
	"strings"

	"mvdan.cc/sh/v3/syntax"
)

// C09 — Source positions point at the source they describe.
//
// Streams (model = Lean driver, impl = the real code):
//
//	newpos/addcol/addcolraw/after  bit-exact Pos arithmetic on boundary and random values (hook VerifC09PosAddCol)
//	posend <vtree>                 regenerated Pos()/End() expression trees evaluated on every node of a real
//	                               parsed tree = what the real methods returned
//	local <ptree>                  assume/guarantee: the local ordering facts of `local_to_global` hold at every node
//	specglobal <ptree>             the global statement executed by the Lean spec on the real tree
//	speclinecol <src> offsets…     line:col of every position recomputed by the Lean spec from the source bytes
//
// Search leg (independent of Lean, the property's own words): c09Judge.
func init() { register("C09", c09) }

const (
	c09OffsetMax       = math.MaxUint32 - 11
	c09OffsetRecovered = math.MaxUint32 - 10
	c09LineMax         = 1<<18 - 1
	c09ColMax          = 1<<14 - 1
)

func c09ShowPos(p syntax.Pos) string {
	b := func(x bool) int {
		if x {
			return 1
		}
		return 0
	}
	return fmt.Sprintf("%d %d %d %d %d", p.Offset(), p.Line(), p.Col(), b(p.IsValid()), b(p.IsRecovered()))
}

// c09PosAtom renders the two words of a Pos, reconstructed through the public API.
func c09PosAtom(p syntax.Pos) string {
	if p.IsRecovered() {
		return fmt.Sprintf("%d:0", uint64(c09OffsetRecovered))
	}
	return fmt.Sprintf("%d:%d", p.Offset(), p.Line()<<14|p.Col())
}

var c09RecoveredPos = func() syntax.Pos {
	// the only public way to a recovered position: parse an incomplete input with RecoverErrors
	var rp syntax.Pos
	f, _ := syntax.NewParser(syntax.RecoverErrors(3)).Parse(strings.NewReader("(foo"), "")
	if f != nil {
		syntax.Walk(f, func(n syntax.Node) bool {
			if s, ok := n.(*syntax.Subshell); ok && s.Rparen.IsRecovered() {
				rp = s.Rparen
			}
			return true
		})
	}
	return rp
}()

func c09PosTie(c *Ctx) {
	offs := []uint{0, 1, 2, 1000, 1 << 14, 1 << 18, 1 << 31, c09OffsetMax - 1, c09OffsetMax, c09OffsetMax + 1, c09OffsetRecovered, math.MaxUint32, math.MaxUint32 + 1, 1 << 40, 1 << 63, math.MaxUint64}
	lines := []uint{0, 1, 2, 77, c09LineMax - 1, c09LineMax, c09LineMax + 1, 1 << 20, 1 << 32, 1<<32 + 1, 1<<32 + 5, math.MaxUint64}
	cols := []uint{0, 1, 2, 80, c09ColMax - 1, c09ColMax, c09ColMax + 1, 1 << 18, 1 << 32, 1<<32 + 1, math.MaxUint64}
	ns := []int{0, 1, -1, 2, -2, 4, 100, -100, c09ColMax - 1, c09ColMax, c09ColMax + 1, -c09ColMax, 1 << 14, 1 << 31, 1 << 32, -(1 << 32), c09OffsetMax, -c09OffsetMax, math.MaxInt64, math.MaxInt64 - 1, math.MinInt64, math.MinInt64 + 1, math.MaxInt64 - c09OffsetMax}
	pick := func(xs []uint) uint {
		if c.R.Chance(25) {
			return uint(c.R.Uint64() >> uint(c.R.Intn(64)))
		}
		return xs[c.R.Intn(len(xs))]
	}
	pickN := func() int {
		if c.R.Chance(25) {
			return int(int64(c.R.Uint64()) >> uint(c.R.Intn(64)))
		}
		return ns[c.R.Intn(len(ns))]
	}
	emit := func(o, l, cl uint, n int) {
		p := syntax.NewPos(o, l, cl)
		c.Op(fmt.Sprintf("newpos %d %d %d", o, l, cl), c09ShowPos(p))
		c.Op(fmt.Sprintf("addcol %d %d %d %d", o, l, cl, n), c09ShowPos(syntax.VerifC09PosAddCol(p, n)))
	}
	if c.Shard == 0 {
		// the full boundary grid once
		for _, o := range offs {
			for _, l := range lines {
				for _, cl := range cols {
					emit(o, l, cl, ns[(int(o%7)+int(l%5)+int(cl%3))%len(ns)])
				}
			}
		}
		for _, n := range ns {
			for _, o := range []uint{0, 1, 5, c09OffsetMax - 1, c09OffsetMax} {
				for _, cl := range []uint{0, 1, 5, c09ColMax - 1, c09ColMax} {
					for _, l := range []uint{0, 1, c09LineMax} {
						emit(o, l, cl, n)
					}
				}
			}
			c.Op(fmt.Sprintf("addcolraw 0 0 %d", n), c09ShowPos(syntax.VerifC09PosAddCol(syntax.Pos{}, n)))
			if c09RecoveredPos.IsRecovered() {
				c.Op(fmt.Sprintf("addcolraw %d 0 %d", uint64(c09OffsetRecovered), n), c09ShowPos(syntax.VerifC09PosAddCol(c09RecoveredPos, n)))
			}
		}
	}
	k := 300
	if c.Thorough() {
		k = 20000
	}
	for i := 0; i < k; i++ {
		o, l, cl, n := pick(offs), pick(lines), pick(cols), pickN()
		emit(o, l, cl, n)
		o2, l2, c2 := pick(offs), pick(lines), pick(cols)
		if c.R.Chance(30) {
			o2 = o
		}
		c.Op(fmt.Sprintf("after %d %d %d %d %d %d", o, l, cl, o2, l2, c2), fmt.Sprint(syntax.NewPos(o, l, cl).After(syntax.NewPos(o2, l2, c2))))
		c.Case(fmt.Sprintf("pos %d %d %d %d", o, l, cl, n), true, "kind=pos-arith")
	}
}

// ---- loose matching of source text against the text the lexer produced --------------------------

type c09M struct {
	src  string
	bq   int // number of enclosing backquote command substitutions
	memo map[[2]int]bool
}

// skips returns the lengths of byte sequences at src[i:] that the lexer drops without producing a rune.
func (m *c09M) skips(i int) []int {
	s := m.src
	var out []int
	if i >= len(s) {
		return nil
	}
	switch s[i] {
	case 0:
		out = append(out, 1)
	case '\r':
		if i+1 < len(s) && s[i+1] == '\n' {
			out = append(out, 1)
		}
	case '\\':
		if i+1 < len(s) && s[i+1] == '\n' {
			out = append(out, 2)
		}
		if i+2 < len(s) && s[i+1] == '\r' && s[i+2] == '\n' {
			out = append(out, 3)
		}
		if m.bq > 0 && i+1 < len(s) && strings.IndexByte("$`\\\"", s[i+1]) >= 0 {
			out = append(out, 1)
		}
	}
	return out
}

// ends reports every offset e such that src[off:e], with droppable bytes removed, equals want
// (no droppable bytes are consumed after the last byte of want).
func (m *c09M) ends(off int, want string) []int {
	seen := map[[2]int]bool{}
	var out []int
	var rec func(i, j int)
	rec = func(i, j int) {
		k := [2]int{i, j}
		if seen[k] {
			return
		}
		seen[k] = true
		if j == len(want) {
			out = append(out, i)
			return
		}
		if i < len(m.src) && m.src[i] == want[j] {
			rec(i+1, j+1)
		}
		for _, n := range m.skips(i) {
			rec(i+n, j)
		}
	}
	rec(off, 0)
	sort.Ints(out)
	return out
}

// spans reports whether src[off:end] with droppable bytes removed equals want.
func (m *c09M) spans(off, end int, want string) bool {
	if off > end || end > len(m.src) {
		return false
	}
	for _, e := range m.ends(off, want) {
		// trailing droppable bytes
		seen := map[int]bool{}
		var rec func(i int) bool
		rec = func(i int) bool {
			if i == end {
				return true
			}
			if i > end || seen[i] {
				return false
			}
			seen[i] = true
			for _, n := range m.skips(i) {
				if rec(i + n) {
					return true
				}
			}
			return false
		}
		if rec(e) {
			return true
		}
	}
	return false
}

// ---- anchors: which text each position field must point at ---------------------------------------

type c09Anchor struct {
	field   string
	pos     syntax.Pos
	want    []string // alternatives
	closing bool     // the node's End() is one past this token
}

func c09Anchors(n syntax.Node) []c09Anchor {
	var as []c09Anchor
	add := func(field string, p syntax.Pos, want ...string) {
		as = append(as, c09Anchor{field: field, pos: p, want: want})
	}
	cl := func(field string, p syntax.Pos, want ...string) {
		as = append(as, c09Anchor{field: field, pos: p, want: want, closing: true})
	}
	switch n := n.(type) {
	case *syntax.Comment:
		cl("Hash", n.Hash, "#"+n.Text)
	case *syntax.Stmt:
		if n.Negated {
			add("Position", n.Position, "!")
		}
		if n.Semicolon.IsValid() {
			switch {
			case n.Coprocess:
				cl("Semicolon", n.Semicolon, "|&")
			case n.Disown:
				cl("Semicolon", n.Semicolon, "&|", "&!")
			case n.Background:
				cl("Semicolon", n.Semicolon, "&")
			default:
				cl("Semicolon", n.Semicolon, ";")
			}
		}
	case *syntax.Redirect:
		strs := []string{n.Op.String()}
		switch n.Op {
		case syntax.RdrClob:
			strs = append(strs, ">!")
		case syntax.AppClob:
			strs = append(strs, ">>!")
		case syntax.RdrAllClob:
			strs = append(strs, "&>!", ">&|", ">&!")
		case syntax.AppAll:
			strs = append(strs, ">>&")
		case syntax.AppAllClob:
			strs = append(strs, "&>>!", ">>&|", ">>&!")
		}
		add("OpPos", n.OpPos, strs...)
	case *syntax.Subshell:
		add("Lparen", n.Lparen, "(")
		cl("Rparen", n.Rparen, ")")
	case *syntax.Block:
		add("Lbrace", n.Lbrace, "{")
		cl("Rbrace", n.Rbrace, "}")
	case *syntax.IfClause:
		if n.ThenPos.IsValid() {
			add("Position", n.Position, "if", "elif")
			add("ThenPos", n.ThenPos, "then")
		} else {
			add("Position", n.Position, "else")
		}
		cl("FiPos", n.FiPos, "fi")
	case *syntax.WhileClause:
		if n.Until {
			add("WhilePos", n.WhilePos, "until")
		} else {
			add("WhilePos", n.WhilePos, "while")
		}
		add("DoPos", n.DoPos, "do")
		cl("DonePos", n.DonePos, "done")
	case *syntax.ForClause:
		if n.Select {
			add("ForPos", n.ForPos, "select")
		} else {
			add("ForPos", n.ForPos, "for")
		}
		if n.Braces {
			add("DoPos", n.DoPos, "{")
			cl("DonePos", n.DonePos, "}")
		} else {
			add("DoPos", n.DoPos, "do")
			cl("DonePos", n.DonePos, "done")
		}
	case *syntax.WordIter:
		if n.InPos.IsValid() {
			if len(n.Items) == 0 {
				cl("InPos", n.InPos, "in") // `for x in; do`: the node ends with `in`
			} else {
				add("InPos", n.InPos, "in")
			}
		}
	case *syntax.CStyleLoop:
		add("Lparen", n.Lparen, "((")
		cl("Rparen", n.Rparen, "))")
	case *syntax.BinaryCmd:
		add("OpPos", n.OpPos, n.Op.String())
	case *syntax.FuncDecl:
		if n.RsrvWord {
			add("Position", n.Position, "function")
		}
	case *syntax.SglQuoted:
		if n.Dollar {
			add("Left", n.Left, "$'")
		} else {
			add("Left", n.Left, "'")
		}
		cl("Right", n.Right, "'")
	case *syntax.DblQuoted:
		if n.Dollar {
			add("Left", n.Left, `$"`)
		} else {
			add("Left", n.Left, `"`)
		}
		cl("Right", n.Right, `"`)
	case *syntax.CmdSubst:
		switch {
		case n.TempFile:
			add("Left", n.Left, "${ ", "${\t", "${\n")
			cl("Right", n.Right, "}")
		case n.ReplyVar:
			add("Left", n.Left, "${|")
			cl("Right", n.Right, "}")
		case n.Backquotes:
			add("Left", n.Left, "`")
			cl("Right", n.Right, "`")
		default:
			add("Left", n.Left, "$(")
			cl("Right", n.Right, ")")
		}
	case *syntax.ParamExp:
		if n.Dollar.IsValid() {
			if n.Short {
				add("Dollar", n.Dollar, "$")
			} else {
				add("Dollar", n.Dollar, "${")
			}
		}
		if !n.Short {
			cl("Rbrace", n.Rbrace, "}")
		}
	case *syntax.ArithmExp:
		if n.Bracket {
			add("Left", n.Left, "$[")
			cl("Right", n.Right, "]")
		} else {
			add("Left", n.Left, "$((")
			cl("Right", n.Right, "))")
		}
	case *syntax.ArithmCmd:
		add("Left", n.Left, "((")
		cl("Right", n.Right, "))")
	case *syntax.BinaryArithm:
		add("OpPos", n.OpPos, n.Op.String())
	case *syntax.UnaryArithm:
		if n.Post {
			cl("OpPos", n.OpPos, n.Op.String())
		} else {
			add("OpPos", n.OpPos, n.Op.String())
		}
	case *syntax.ParenArithm:
		add("Lparen", n.Lparen, "(")
		cl("Rparen", n.Rparen, ")")
	case *syntax.CaseClause:
		add("Case", n.Case, "case")
		if n.Braces {
			add("In", n.In, "{")
			cl("Esac", n.Esac, "}")
		} else {
			add("In", n.In, "in")
			cl("Esac", n.Esac, "esac")
		}
	case *syntax.CaseItem:
		if n.OpPos.IsValid() {
			cl("OpPos", n.OpPos, n.Op.String())
		}
	case *syntax.TestClause:
		add("Left", n.Left, "[[")
		cl("Right", n.Right, "]]")
	case *syntax.BinaryTest:
		strs := []string{n.Op.String()}
		if n.Op == syntax.TsMatch {
			strs = append(strs, "=")
		}
		add("OpPos", n.OpPos, strs...)
	case *syntax.UnaryTest:
		strs := []string{n.Op.String()}
		switch n.Op {
		case syntax.TsExists:
			strs = append(strs, "-a")
		case syntax.TsSmbLink:
			strs = append(strs, "-h")
		}
		add("OpPos", n.OpPos, strs...)
	case *syntax.ParenTest:
		add("Lparen", n.Lparen, "(")
		cl("Rparen", n.Rparen, ")")
	case *syntax.ArrayExpr:
		add("Lparen", n.Lparen, "(")
		cl("Rparen", n.Rparen, ")")
	case *syntax.ExtGlob:
		add("OpPos", n.OpPos, n.Op.String())
	case *syntax.ProcSubst:
		add("OpPos", n.OpPos, n.Op.String())
		cl("Rparen", n.Rparen, ")")
	case *syntax.TimeClause:
		if n.Stmt == nil && !n.PosixFormat {
			cl("Time", n.Time, "time")
		} else {
			add("Time", n.Time, "time")
		}
	case *syntax.CoprocClause:
		add("Coproc", n.Coproc, "coproc")
	case *syntax.LetClause:
		add("Let", n.Let, "let")
	case *syntax.TestDecl:
		add("Position", n.Position, "@test")
	}
	return as
}

// ---- the dumped tree with everything the checks need ---------------------------------------------

type c09Node struct {
	*DNode
	slotName string
	pos, end syntax.Pos
	bq       int
	toks     [][2]int // own tokens (offset, byte length in the source), for the ptree
	hdocStop string   // for the last Lit of a here-document body: the delimiter word
}

type c09Tree struct {
	src    string
	lang   syntax.LangVariant
	d      *Dumper
	nodes  []*c09Node // by id
	hdoc   bool       // some redirect has a here-document body
	hdocOp bool       // some redirect is << or <<-
}

func c09Build(src string, lang syntax.LangVariant, f *syntax.File) (t *c09Tree, panicked string) {
	t = &c09Tree{src: src, lang: lang, d: &Dumper{}}
	panicked = safely(func() {
		t.d.Dump(f, 0, nil)
		for _, dn := range t.d.Nodes {
			cn := &c09Node{DNode: dn, slotName: "-"}
			if dn.Parent != nil {
				pv := reflect.ValueOf(dn.Parent.Node)
				if pv.Kind() == reflect.Pointer {
					pv = pv.Elem()
				}
				cn.slotName = slotsOfType(pv.Type())[dn.Slot].Path
				par := t.nodes[dn.Parent.ID]
				cn.bq = par.bq
				if cs, ok := dn.Parent.Node.(*syntax.CmdSubst); ok && cs.Backquotes {
					cn.bq++
				}
			}
			cn.pos, cn.end = dn.Node.Pos(), dn.Node.End()
			if r, ok := dn.Node.(*syntax.Redirect); ok && r.Hdoc != nil {
				t.hdoc = true
			}
			if r, ok := dn.Node.(*syntax.Redirect); ok && (r.Op == syntax.Hdoc || r.Op == syntax.DashHdoc) {
				t.hdocOp = true
			}
			if l, ok := dn.Node.(*syntax.Lit); ok && cn.slotName == "Parts" && dn.Parent.Parent != nil {
				if r, ok := dn.Parent.Parent.Node.(*syntax.Redirect); ok && r.Hdoc == dn.Parent.Node && r.Hdoc.Parts[len(r.Hdoc.Parts)-1] == syntax.WordPart(l) {
					cn.hdocStop = c09Unquoted(r.Word)
				}
			}
			t.nodes = append(t.nodes, cn)
		}
	})
	return
}

func c09Scalars(n syntax.Node) []string {
	v := reflect.ValueOf(n)
	if v.Kind() == reflect.Pointer {
		v = v.Elem()
	}
	var out []string
	ty := v.Type()
	for i := 0; i < ty.NumField(); i++ {
		f := ty.Field(i)
		if !f.IsExported() {
			continue
		}
		fv := v.Field(i)
		switch {
		case f.Type == posType:
			out = append(out, f.Name+"=P:"+c09PosAtom(fv.Interface().(syntax.Pos)))
		case f.Type.Kind() == reflect.Bool:
			b := 0
			if fv.Bool() {
				b = 1
			}
			out = append(out, fmt.Sprintf("%s=B:%d", f.Name, b))
		case f.Type.Kind() == reflect.String:
			out = append(out, fmt.Sprintf("%s=L:%d", f.Name, fv.Len()))
		default:
			if s, ok := fv.Interface().(fmt.Stringer); ok && fv.Kind() != reflect.Pointer && fv.Kind() != reflect.Interface {
				str := ""
				if safely(func() { str = s.String() }) == "" {
					out = append(out, fmt.Sprintf("%s=L:%d", f.Name, len(str)))
				}
			}
		}
	}
	return out
}

func (t *c09Tree) vtree(tyIndex map[string]int, cn *c09Node, sb *strings.Builder) {
	fmt.Fprintf(sb, "( %d %d %s %s %s ( %s )", tyIndex[cn.Type], cn.ID, cn.slotName, c09PosAtom(cn.pos), c09PosAtom(cn.end), strings.Join(c09Scalars(cn.Node), " "))
	for _, k := range cn.Kids {
		sb.WriteByte(' ')
		t.vtree(tyIndex, t.nodes[k.ID], sb)
	}
	sb.WriteString(" )")
}

// inPTree: comments attached to a statement, case item or array element are outside that node
// (documented on syntax.Node); they are checked against the enclosing construct separately.
func c09InPTree(cn *c09Node) bool { return cn.slotName != "Comments" }

func (t *c09Tree) ptree(cn *c09Node, sb *strings.Builder) {
	fmt.Fprintf(sb, "( %d %d %d %d (", cn.ID, cn.Slot, cn.pos.Offset(), cn.end.Offset())
	for _, tk := range cn.toks {
		fmt.Fprintf(sb, " %d %d", tk[0], tk[1])
	}
	sb.WriteString(" )")
	for _, k := range cn.Kids {
		kn := t.nodes[k.ID]
		if !c09InPTree(kn) {
			continue
		}
		sb.WriteByte(' ')
		t.ptree(kn, sb)
	}
	sb.WriteString(" )")
}

func c09LineCol(src string, off int) (line, col int) {
	line, col = 1, 1
	for i := 0; i < off && i < len(src); i++ {
		if src[i] == '\n' {
			line++
			col = 1
		} else {
			col++
		}
	}
	return
}

// Known regions: inputs on which the unchanged implementation violates the property (each is an
// open entry of known-findings.jsonl with its canonical witness in corpus/C09-known.txt, replayed
// strictly on every run).  Generated inputs that fall into a region are not judged on the affected
// check of the affected node only; everything else about them is still checked.
//
//	K1 escnl-crlf      columns on the line that follows a backslash-CR-LF continuation are one too large
//	K2 escnl-lit-end   a Lit that ends at an escaped newline (inside "…" or a here-document body) has its
//	                   End at the newline byte, with the column of the backslash
//	(K3 comment-escnl: fixed by 9fa8900, witness in corpus/C09-fixed.txt)
//	K4 dropped-bytes   NUL bytes / escaped newlines inside a token whose end is computed from its length
//	                   (comment text, fi, done, esac, )), ]], …): End() falls short by the dropped bytes
//	K5 hdoc-extent     a node whose End() is the end of a here-document body is not within its parent
//	                   unless that here-document is the statement's last redirection and the statement
//	                   is the last thing in every enclosing node
//	K6 coproc-assign   `coproc set a=b`: the name word is prepended to the arguments of a call that consists of
//	                   an assignment, giving Assigns=[a=b] Args=[set]: CallExpr.Pos() is after its End()
//	                   (the Stmt position half of the old K6 was fixed by 6e8c254)
//	K8 backslash-eof   a backslash as the last byte of the input: the column of the final position is one too large
//	K9 comment-after-file  the trailing comment after `a | b <<E` with an empty here-document is attached to the
//	                   inner statement, File.End() does not include it
//	K7 zsh-dollar-hash zsh: `$#` (also `$%`, `$+`) at the end of the input becomes the literal "$" spanning two bytes
type c09Violation struct {
	kind string // "" = not in a known region
	msg  string
}

// judge executes the property's own statement on one parsed tree; it returns the first violation
// outside the known regions (strict: the first violation at all) and the known regions it met.
// As a side effect it fills in every node's token list.
func (t *c09Tree) judge(strict bool) (string, []string) {
	src := t.src
	n := len(src)
	var first string
	regions := map[string]bool{}
	report := func(region string, format string, args ...any) {
		if region != "" {
			regions[region] = true
			if !strict {
				return
			}
		}
		if first == "" {
			first = fmt.Sprintf(format, args...)
		}
	}
	// K4, narrowed to the token: a NUL byte or an escaped newline that the lexer drops, glued between
	// two non-blank bytes — i.e. inside a word, name, keyword or operator.  A position that the parser
	// derives from a token's length (name=, `$'`, time, fi, …) is short by the dropped bytes.  Only a
	// violation at an offset inside the same blank-delimited run, after the dropped bytes, is in
	// the region.  A backslash-newline inside single quotes or a comment is literal text, nothing is
	// dropped there.
	literal := make([]bool, n+1)
	for _, cn := range t.nodes {
		var a, b int
		switch x := cn.Node.(type) {
		case *syntax.SglQuoted:
			a, b = int(x.Left.Offset()), int(x.Right.Offset())
		case *syntax.Comment:
			a, b = int(cn.pos.Offset()), int(cn.end.Offset())
		default:
			continue
		}
		for k := a; k < b && k < n; k++ {
			literal[k] = true
		}
	}
	isBlank := func(b byte) bool { return b == ' ' || b == '\t' || b == '\n' || b == '\r' }
	glue := make([]bool, n+1) // bytes of glued dropped sequences
	for i := 1; i < n; i++ {
		j := i
		switch {
		case src[i] == 0:
			j = i + 1
		case strings.HasPrefix(src[i:], "\\\n") && !literal[i]:
			j = i + 2
		case strings.HasPrefix(src[i:], "\\\r\n") && !literal[i]:
			j = i + 3
		default:
			continue
		}
		for j < n && src[j] == 0 {
			j++
		}
		if (!isBlank(src[i-1]) || glue[i-1]) && j < n && !isBlank(src[j]) {
			for k := i; k < j; k++ {
				glue[k] = true
			}
		}
		i = j - 1
	}
	k4at := func(off int) bool {
		for k := min(off, n) - 1; k >= 0; k-- {
			if glue[k] {
				return true
			}
			if isBlank(src[k]) {
				return false
			}
		}
		return false
	}
	reportG := func(region string, offs []int, format string, args ...any) {
		if region == "" {
			for _, o := range offs {
				if k4at(o) {
					region = "K4"
				}
			}
		}
		report(region, format, args...)
	}
	// the call of `coproc name assignment…` whose name word was prepended to Args (K6), and its children
	k6 := map[int]bool{}
	for _, cn := range t.nodes {
		call, ok := cn.Node.(*syntax.CallExpr)
		if !ok || cn.Parent == nil || cn.Parent.Parent == nil || cn.Parent.Parent.Type != "CoprocClause" {
			continue
		}
		if len(call.Assigns) > 0 && len(call.Args) > 0 && call.Args[0].Pos().Offset() < call.Assigns[0].Pos().Offset() {
			k6[cn.ID] = true
			for _, k := range cn.Kids {
				k6[k.ID] = true
			}
		}
	}
	// (1) Pos ≤ End, (2) all positions within the input, (3) line/col agree with the byte offset
	checkLC := func(cn *c09Node, what string, p syntax.Pos, isEnd bool) {
		if !p.IsValid() {
			return
		}
		off := int(p.Offset())
		if off > n {
			report("", "%s of %s is offset %d, beyond the input (%d bytes)", what, cn.Type, off, n)
			return
		}
		l, c := c09LineCol(src, off)
		if l > c09LineMax {
			l = 0
		}
		if c > c09ColMax {
			c = 0
		}
		if int(p.Line()) != l || int(p.Col()) != c {
			region := ""
			ls := off - (c - 1) // start of the line holding off
			sameLine := int(p.Line()) == l
			switch {
			case sameLine && int(p.Col()) == c+1 && ls >= 3 && src[ls-3:ls] == "\\\r\n":
				region = "K1" // exactly one column too many on a line that follows backslash-CR-LF
			case sameLine && int(p.Col()) == c+1 && off == n && strings.HasSuffix(src, "\\"):
				region = "K8"
			case sameLine && int(p.Col()) == c-1 && off > 0 && off < n && !literal[off-1] && src[off-1] == '\\' && (src[off] == '\n' || strings.HasPrefix(src[off:], "\r\n")):
				region = "K2" // the position was taken on the escaped newline itself: offset of the byte after the backslash, column of the backslash
			}
			reportG(region, []int{off}, "%s of %s is %d:%d at offset %d, but that byte is at line %d col %d", what, cn.Type, p.Line(), p.Col(), off, l, c)
		}
	}
	for _, cn := range t.nodes {
		if cn.Type == "File" && len(t.nodes) == 1 {
			continue // empty file: Pos() and End() are the zero Pos
		}
		if !cn.pos.IsValid() {
			report("", "%s.Pos() is not a valid position", cn.Type)
			continue
		}
		if !cn.end.IsValid() {
			report("", "%s.End() is not a valid position", cn.Type)
			continue
		}
		if cn.pos.After(cn.end) || cn.pos.Offset() > cn.end.Offset() {
			region := ""
			if k6[cn.ID] {
				region = "K6"
			}
			reportG(region, []int{int(cn.pos.Offset()), int(cn.end.Offset())}, "%s: Pos() %d is after End() %d", cn.Type, cn.pos.Offset(), cn.end.Offset())
		}
		checkLC(cn, "Pos()", cn.pos, false)
		checkLC(cn, "End()", cn.end, true)
		v := reflect.ValueOf(cn.Node).Elem()
		for i := 0; i < v.NumField(); i++ {
			if f := v.Type().Field(i); f.IsExported() && f.Type == posType {
				checkLC(cn, "field "+f.Name, v.Field(i).Interface().(syntax.Pos), strings.HasSuffix(f.Name, "End"))
			}
		}
	}
	// (4) keywords, operators and quotes point at that exact text; End() is one past the closing token
	for _, cn := range t.nodes {
		m := &c09M{src: src, bq: cn.bq}
		for _, a := range c09Anchors(cn.Node) {
			if !a.pos.IsValid() {
				report("", "%s.%s is not a valid position (expected %q there)", cn.Type, a.field, a.want[0])
				continue
			}
			off := int(a.pos.Offset())
			if off > n {
				continue // reported above
			}
			end, wantLen := -1, 0
			for _, w := range a.want {
				if es := m.ends(off, w); len(es) > 0 {
					end, wantLen = es[0], len(w)
					break
				}
			}
			if end < 0 {
				got := src[off:min(n, off+12)]
				reportG("", []int{off}, "%s.%s at offset %d should point at %q, but the source there is %q", cn.Type, a.field, off, a.want[0], got)
				continue
			}
			cn.toks = append(cn.toks, [2]int{off, end - off})
			if off < int(cn.pos.Offset()) || end > int(cn.end.Offset()) {
				// a node's own token lies within the node (a local fact of local_to_global)
				region := ""
				if end-off != wantLen {
					region = "K4" // the token's source text holds dropped bytes, End() = start + len(token)
				}
				reportG(region, []int{off, end}, "%s.%s: the token %q at [%d,%d) lies outside the node [%d,%d)", cn.Type, a.field, a.want[0], off, end, cn.pos.Offset(), cn.end.Offset())
			}
			if a.closing && int(cn.end.Offset()) != end {
				region := ""
				if end-off != wantLen && int(cn.end.Offset()) == off+wantLen {
					// the token's source text holds bytes the lexer drops (NUL, escaped newline, the
					// backslash of an escape inside backquotes) and End() is start + len(token)
					region = "K4"
				}
				reportG(region, []int{int(cn.end.Offset()), end}, "%s.End() is offset %d, but its closing %q at offset %d ends at %d (End must be one past the last byte of the node)", cn.Type, cn.end.Offset(), a.want[0], off, end)
			}
		}
		// (5) literals
		if l, ok := cn.Node.(*syntax.Lit); ok {
			p, e := int(l.ValuePos.Offset()), int(l.ValueEnd.Offset())
			want := l.Value
			if cn.hdocStop != "" {
				// convention of the parser: the last literal of a here-document body extends over the
				// line holding the delimiter, so that Redirect.End() covers the whole here-document
				want += cn.hdocStop
			}
			if p <= e && e <= n && !m.spans(p, e, want) {
				region := ""
				midEsc := func(o int) bool {
					return o > 0 && o < n && !literal[o-1] && src[o-1] == '\\' && (src[o] == '\n' || strings.HasPrefix(src[o:], "\r\n"))
				}
				switch {
				case midEsc(e) && m.spans(p, e-1, want):
					region = "K2"
				case midEsc(p) && (m.spans(p-1, e, want) || midEsc(e) && m.spans(p-1, e-1, want)):
					region = "K2"
				}
				if t.lang == syntax.LangZsh && l.Value == "$" && e == p+2 && strings.IndexByte("#%+~=^", src[p+1]) >= 0 {
					region = "K7"
				}
				reportG(region, []int{p, e}, "Lit %q spans offsets [%d,%d) = %q, which is not that text", want, p, e, src[p:e])
			}
		}
		if q, ok := cn.Node.(*syntax.SglQuoted); ok {
			p, e := int(q.Left.Offset())+1, int(q.Right.Offset())
			if q.Dollar {
				p++
			}
			if p <= e && e <= n && !m.spans(p, e, q.Value) {
				reportG("", []int{p, e}, "SglQuoted value %q lies at offsets [%d,%d) = %q, which is not that text", q.Value, p, e, src[p:e])
			}
		}
	}
	// (6) each node within its parent, lists in source order
	hdocEnds := map[int]bool{} // End offsets of here-document bodies
	for _, cn := range t.nodes {
		if r, ok := cn.Node.(*syntax.Redirect); ok && r.Hdoc != nil {
			hdocEnds[int(r.Hdoc.End().Offset())] = true
		}
	}
	for _, cn := range t.nodes {
		if cn.Parent == nil {
			continue
		}
		par := t.nodes[cn.Parent.ID]
		if !c09InPTree(cn) {
			// a comment attached to a statement, case item or array element is outside that node by
			// definition; which node it is attached to is C05's subject.  It must lie within the File.
			anc := t.nodes[0]
			if cn.pos.Offset() < anc.pos.Offset() || cn.end.Offset() > anc.end.Offset() {
				region := ""
				if t.hdocOp && cn.end.Offset() > anc.end.Offset() {
					region = "K9"
				}
				report(region, "Comment [%d,%d) attached to a %s lies outside the File [%d,%d)", cn.pos.Offset(), cn.end.Offset(), par.Type, anc.pos.Offset(), anc.end.Offset())
			}
			continue
		}
		if cn.pos.Offset() < par.pos.Offset() || cn.end.Offset() > par.end.Offset() {
			region := ""
			switch {
			case cn.pos.Offset() >= par.pos.Offset() && hdocEnds[int(cn.end.Offset())]:
				region = "K5"
			case k6[cn.ID] || k6[par.ID]:
				region = "K6"
			}
			reportG(region, []int{int(cn.pos.Offset()), int(cn.end.Offset()), int(par.pos.Offset()), int(par.end.Offset())}, "%s [%d,%d) in field %s lies outside its parent %s [%d,%d)", cn.Type, cn.pos.Offset(), cn.end.Offset(), cn.slotName, par.Type, par.pos.Offset(), par.end.Offset())
		}
	}
	for _, cn := range t.nodes {
		var prev *c09Node
		for _, k := range cn.Kids {
			kn := t.nodes[k.ID]
			if !c09InPTree(kn) {
				continue
			}
			if prev != nil && prev.Slot == kn.Slot {
				if prev.pos.Offset() > kn.pos.Offset() {
					reportG("", []int{int(prev.pos.Offset()), int(kn.pos.Offset())}, "%s.%s is not in source order: %s at %d is listed before %s at %d", cn.Type, kn.slotName, prev.Type, prev.pos.Offset(), kn.Type, kn.pos.Offset())
				}
				if prev.end.Offset() > kn.pos.Offset() && !hdocEnds[int(prev.end.Offset())] {
					reportG("", []int{int(prev.end.Offset()), int(kn.pos.Offset())}, "%s.%s overlap: %s [%d,%d) and the next %s starts at %d", cn.Type, kn.slotName, prev.Type, prev.pos.Offset(), prev.end.Offset(), kn.Type, kn.pos.Offset())
				}
			}
			prev = kn
		}
	}
	var rs []string
	for r := range regions {
		rs = append(rs, r)
	}
	sort.Strings(rs)
	return first, rs
}

func (t *c09Tree) offsets() []int {
	set := map[int]bool{}
	addp := func(p syntax.Pos) {
		if p.IsValid() && int(p.Offset()) <= len(t.src) {
			set[int(p.Offset())] = true
		}
	}
	for _, cn := range t.nodes {
		addp(cn.pos)
		addp(cn.end)
	}
	var out []int
	for o := range set {
		out = append(out, o)
	}
	sort.Ints(out)
	return out
}

// lineColOf returns the line:col the implementation reports for offset off (the first position found there).
func (t *c09Tree) implLineCols(offs []int) string {
	at := map[int]string{}
	addp := func(p syntax.Pos) {
		if p.IsValid() {
			if _, ok := at[int(p.Offset())]; !ok {
				at[int(p.Offset())] = fmt.Sprintf("%d:%d", p.Line(), p.Col())
			}
		}
	}
	for _, cn := range t.nodes {
		addp(cn.pos)
		addp(cn.end)
	}
	parts := make([]string, len(offs))
	for i, o := range offs {
		parts[i] = at[o]
	}
	if len(parts) == 0 {
		return "-"
	}
	return strings.Join(parts, " ")
}

// ---- position-hostile sources ------------------------------------------------------------------

var c09Runes = []string{"é", "ß", "日", "本", "€", "𝛼", "😀", " ", "​", "ñ"}

// c09Hostile derives a position-hostile variant of a program: CRLF line ends, NUL bytes, escaped
// newlines, tabs, multi-byte runes.  Insertions go to blanks between tokens (always safe for the
// parser) and, for runes, into plain words.  `inside` additionally drops NULs / escaped newlines
// at arbitrary byte positions (inside words, keywords, operators).
func c09Hostile(r *Rand, src string, inside bool) (string, []string) {
	var tags []string
	b := []byte(src)
	var out []byte
	crlf := r.Chance(35)
	nul := r.Chance(40)
	esc := r.Chance(40)
	tab := r.Chance(30)
	runes := r.Chance(40)
	if crlf {
		tags = append(tags, "hostile=crlf")
	}
	if nul {
		tags = append(tags, "hostile=nul")
	}
	if esc {
		tags = append(tags, "hostile=escnl")
	}
	if runes {
		tags = append(tags, "hostile=runes")
	}
	if inside {
		tags = append(tags, "hostile=inside-token")
	}
	isWord := func(c byte) bool {
		return c >= 'a' && c <= 'z' || c >= 'A' && c <= 'Z'
	}
	for i := 0; i < len(b); i++ {
		c := b[i]
		blank := c == ' ' || c == '\t'
		switch {
		case c == '\n' && crlf && r.Chance(80):
			out = append(out, '\r', '\n')
			continue
		case blank && nul && r.Chance(25):
			out = append(out, c, 0)
			if r.Chance(30) {
				out = append(out, 0)
			}
			continue
		case blank && esc && r.Chance(20):
			out = append(out, c, '\\', '\n')
			if crlf && r.Chance(50) {
				out = append(out[:len(out)-1], '\r', '\n')
			}
			continue
		case c == ' ' && tab && r.Chance(40):
			out = append(out, '\t')
			continue
		case runes && isWord(c) && r.Chance(8) && i > 0 && isWord(b[i-1]) && i+1 < len(b) && isWord(b[i+1]) && !inside:
			// only in the middle of a run of ≥ 3 letters that is not a reserved word; checked by the caller re-parsing
			out = append(out, c)
			out = append(out, c09Runes[r.Intn(len(c09Runes))]...)
			continue
		}
		if inside && r.Chance(6) {
			if r.Bool() {
				out = append(out, 0)
			} else {
				out = append(out, '\\', '\n')
			}
		}
		out = append(out, c)
	}
	return string(out), tags
}

var c09Handmade = []string{
	"if a; then b; fi",
	"if a; then b; elif c; then d; else e; fi",
	"while a; do b; done",
	"until a\ndo b\ndone",
	"for i in 1 2 3; do echo $i; done",
	"for i; do :; done",
	"case x in a) b ;; c|d) e ;& *) ;; esac",
	"{ a; b; }",
	"(a; b)",
	"a && b || c",
	"a | b |& c",
	"! a",
	"a &",
	"a; b",
	"foo() { bar; }",
	"function foo { bar; }",
	"function foo() { bar; }",
	"echo 'a b' \"c $d ${e} $(f) `g` $((1+2))\"",
	"echo ${a:-b} ${#a} ${a%b} ${a/b/c} ${a:1:2} ${!a} ${a[1]} ${a[@]}",
	"a=b c+=d e=(1 2 3) f[1]=x",
	"cat <<EOF\nbody $a\nEOF",
	"cat <<-EOF\n\tbody\n\tEOF",
	"cat <<'EOF'\nraw $a\nEOF\necho after",
	"cat <<EOF >out\nbody\nEOF",
	"cat <<EOF; echo b\nbody\nEOF",
	"cat <<A <<B\na\nA\nb\nB",
	"cat <<EOF && echo y\nbody\nEOF",
	"echo `echo \\`echo a\\``",
	"echo `echo \\`echo \\\\\\`echo deep\\\\\\`\\``",
	"echo \"`echo \\\"q\\\"`\"",
	"echo `a \\$b \\\\c`",
	"echo $(a $(b $(c)))",
	"[[ a == b && -n c || ! ( d -lt e ) ]]",
	"[[ a =~ ^b+$ ]]",
	"((a = 1 + 2, b++, --c, d ? e : f))",
	"for ((i = 0; i < 3; i++)); do :; done",
	"let a=1 b+=2",
	"declare -a x=(1 [2]=3)",
	"local a b=c",
	"time a",
	"time -p a | b",
	"time",
	"coproc a { b; }",
	"select x in a b; do :; done",
	"echo $'a\\nb' $\"c\"",
	"echo @(a|b) +(c) <(d) >(e)",
	"a >b 2>&1 <c >>d <<<e",
	">a b",
	"\xef\xbb\xbfecho hi",
	"\xef\xbb\xbf\necho hi",
	"\xef\xbb\xbf#!/bin/sh\necho hi # c",
	"\xef\xbb\xbf echo \xef\xbb\xbf hi",
	"\x00echo hi",
	"\x00\x00\n\x00echo hi",
	"\r\necho hi",
	"\recho hi",
	"\n\n  \t echo hi",
	"#!/bin/sh\r\necho hi",
	"é echo hi",
	"日本=1 echo hi",
	"# \xff invalid\necho hi",
	"! >f foo | bar",
	"! 2>&1 foo bar | baz | qux",
	"if ! <in grep -q x | tail; then a; fi",
	"a=b >f c d | e",
	">f a=b c <g d",
	"! a=1 2>e b | >o c",
	"while ! <in read x | cat; do ! >f a | b && >g c; done",
	"( ! >f a | b ) && { ! <i c | d; }",
	"x=$(! >f a | b) y=`! <i c | d`",
	"f() { ! 2>e a | b; }; case x in y) ! >f a | b ;; esac",
	">f",
	"! >f",
	"a=b >f",
	"a # comment\n# another\nb",
	"# only",
	"a \\\n b",
	"a\\\nb c",
	"echo 'a\\\nb'",
	"echo 'one\\\ntwo' three",
	"echo $'one\\\ntwo' three four",
	"echo \"one\\\ntwo\" three 'x' \"y\"",
	"x='a\\\nbcd' y=1 z",
	"echo a # one\\\ntwo three",
	"cat <<EOF\none\\\ntwo $x three\nEOF\necho after text",
	"cat <<'EOF'\none\\\ntwo three\nEOF\necho after text",
	"echo 'a\\\nbc''d\\\nef' \"g\\\nhi\" j; k l",
	"echo 'one\\\r\ntwo' three",
	"echo \"a\\\nb\"",
	"éa=日本 echo ß€ '𝛼' \"😀\"",
	"echo a\tb\t\tc",
	"a\r\nb\r\n",
	"if a\r\nthen b\r\nfi\r\n",
	"cat <<EOF\r\nbody\r\nEOF\r\n",
	"a\x00b c\x00",
	"$(a)\x00",
	"f\\\ni",
	"case a in b) c;; esac",
	"case a in (b) c;; (d) e; esac",
	"a=(b\n# c\nd)",
	"{ a; } 2>b",
	"a() b",
	"@test \"x\" { a; }",
	"echo ${(f)a} ${a:t} ${a:t5:h2} ${=a} ${a[(r)x]}",
	"for i in a; { b; }",
	"case a { b) c ;; }",
	"a |& b",
	"a &| b",
	"a &! b",
	"echo ${ a;} ${|b;}",
	"echo $[1+2]",
	"x=$(cat <<EOF\nh\nEOF\n)",
	"echo \"$(cat <<EOF\nh\nEOF\n)\"",
	"a <<EOF | b\nx\nEOF",
	"(a) >b",
	"! a | b",
	"if a; then b; fi >c",
	"while a; do b; done <c &",
	"echo *.[ch] ?x [!a]",
	"foo=bar baz=qux env",
	"arr[i+1]=v",
	"echo $# $? $$ $! $- $0 $@ $*",
}

// c09EscnlText is a statement holding a backslash-newline inside quoted text, a comment or a
// here-document body, FOLLOWED by further tokens on the same source line: whatever the lexer does
// with the columns while it reads the text shows in the positions of those tokens.
func c09EscnlText(r *Rand) string {
	w := func() string {
		n := 1 + r.Intn(6)
		b := make([]byte, n)
		for i := range b {
			b[i] = byte('a' + r.Intn(26))
		}
		return string(b)
	}
	nl := "\\\n"
	if r.Chance(10) {
		nl = "\\\r\n"
	}
	tail := ""
	for i, k := 0, 1+r.Intn(3); i < k; i++ {
		tail += " " + r.Pick([]string{w(), "'" + w() + "'", "\"" + w() + "\"", "$" + w(), ">" + w(), "| " + w(), "&& " + w(), "; " + w()})
	}
	switch r.Intn(9) {
	case 0:
		return "echo '" + w() + nl + w() + "'" + tail
	case 1:
		return "echo $'" + w() + nl + w() + "'" + tail
	case 2:
		return "echo \"" + w() + nl + w() + "\"" + tail
	case 3:
		return w() + "='" + w() + nl + w() + "' " + w() + tail
	case 4:
		return "echo " + w() + " # " + w() + nl + w() + tail
	case 5:
		return "cat <<EOF\n" + w() + nl + w() + " $" + w() + " " + w() + "\nEOF\necho" + tail
	case 6:
		return "cat <<'EOF'\n" + w() + nl + w() + " " + w() + "\nEOF\necho" + tail
	case 7:
		return "echo '" + w() + nl + w() + "'\"" + w() + nl + w() + "\"'" + w() + "'" + tail
	default:
		return "echo '" + w() + nl + nl + w() + nl + w() + "' \"" + w() + "\"" + tail
	}
}

// c09RedirStmt is a statement built from simple commands whose redirections stand BEFORE the command
// word and between assignments and words, with negation, pipelines and and-or lists, placed in every
// compound position: the statement / command / redirection extents (Stmt → Cmd, Redirs) must nest.
func c09RedirStmt(r *Rand, bash bool) string {
	w := func() string { return r.Pick([]string{"a", "foo", "bar", "grep", "x1", "-q", "cat", "tail"}) }
	redir := func() string {
		ops := []string{">f", ">>o", "<in", "2>&1", "2>e", ">|c", "<>rw", "<&-", "> sp", "< sp"}
		if bash {
			ops = append(ops, "&>all", "<<<w", "{fd}>n")
		}
		return r.Pick(ops)
	}
	simple := func() string {
		var parts []string
		for i, k := 0, r.Intn(3); i < k; i++ {
			if r.Bool() {
				parts = append(parts, redir())
			} else {
				parts = append(parts, r.Pick([]string{"a=b", "v=", "x=1"}))
			}
		}
		if r.Chance(60) {
			parts = append(parts, redir())
		}
		nw := 1 + r.Intn(3)
		if len(parts) > 0 && r.Chance(10) {
			nw = 0 // only redirections / assignments
		}
		for i := 0; i < nw; i++ {
			parts = append(parts, w())
			if r.Chance(25) {
				parts = append(parts, redir())
			}
		}
		return strings.Join(parts, " ")
	}
	pipeline := func() string {
		s := ""
		if r.Chance(50) {
			s = "! "
		}
		s += simple()
		for i, k := 0, r.Intn(3); i < k; i++ {
			op := " | "
			if bash && r.Chance(15) {
				op = " |& "
			}
			s += op + simple()
		}
		return s
	}
	andor := func() string {
		s := pipeline()
		for r.Chance(30) {
			s += r.Pick([]string{" && ", " || "}) + pipeline()
		}
		return s
	}
	p := andor
	switch r.Intn(14) {
	case 0, 1, 2:
		return p()
	case 3:
		return "if " + p() + "; then " + p() + "; fi"
	case 4:
		return "if " + p() + "; then :; elif " + p() + "; then :; else " + p() + "; fi"
	case 5:
		return r.Pick([]string{"while ", "until "}) + p() + "; do " + p() + "; done"
	case 6:
		return "( " + p() + " )"
	case 7:
		return "{ " + p() + "; }"
	case 8:
		return "x=$(" + p() + ") echo \"$(" + p() + ")\""
	case 9:
		return "echo `" + p() + "`"
	case 10:
		return "f() { " + p() + "; }"
	case 11:
		return "case x in a) " + p() + " ;; b) " + p() + " ;; esac"
	case 12:
		return p() + " &"
	default:
		return "for i in 1; do " + p() + "; done; " + p()
	}
}

// c09Prefix puts unusual bytes in front of the first token (and, for the BOM, also between tokens):
// byte order mark, NUL bytes, CR / CRLF, multi-byte characters, invalid UTF-8, blank lines, spaces,
// tabs, #! lines.  Every one of these bytes counts as one column (a newline starts line+1, column 1).
func c09Prefix(r *Rand, src string) string {
	pre := ""
	for i, k := 0, 1+r.Intn(3); i < k; i++ {
		pre += r.Pick([]string{"\xef\xbb\xbf", "\xef\xbb\xbf", "\x00", "\x00\x00", "\r\n", "\n", "\n\n", " ", "\t", "  \t",
			"#!/bin/sh\n", "#!/usr/bin/env bash\r\n", "# c\n", "é", "日本", "\xff", "\xc3", "\r", "\xef\xbb\xbf "})
	}
	if r.Chance(30) {
		// a BOM after some blank inside the program as well
		if i := strings.IndexAny(src, " \n"); i >= 0 {
			src = src[:i+1] + "\xef\xbb\xbf" + src[i+1:]
		}
	}
	return pre + src
}

func c09Sources(c *Ctx) (srcs []string, tags [][]string) {
	add := func(s string, t ...string) {
		srcs = append(srcs, s)
		tags = append(tags, t)
	}
	if c.Shard == 0 {
		for _, s := range c09Handmade {
			add(s, "src=handmade")
		}
	}
	seeds := repoSeeds()
	for i := 0; i < c.N; i++ {
		var base string
		kind := ""
		switch k := c.R.Intn(10); {
		case k < 3 && len(seeds) > 0:
			base, kind = seeds[c.R.Intn(len(seeds))], "src=repo-seed"
		case k < 5:
			base, kind = c09Handmade[c.R.Intn(len(c09Handmade))], "src=handmade"
		default:
			g := newProgGen(c.R, c.R.Chance(70))
			base, kind = g.Program(1+c.R.Intn(4)), "src=generated"
		}
		switch k := c.R.Intn(10); {
		case k < 3:
			add(base, kind, "hostile=none")
		default:
			s, t := c09Hostile(c.R, base, os.Getenv("C09_INSIDE") != "" || c.R.Chance(15))
			add(s, append([]string{kind}, t...)...)
		}
		if c.R.Chance(20) {
			add(c09Prefix(c.R, srcs[len(srcs)-1]), "src=odd-prefix")
		}
		if c.R.Chance(30) {
			// redirections before the command word, negation, pipelines, in every compound position
			st := c09RedirStmt(c.R, c.R.Chance(60))
			if c.R.Chance(30) {
				st, _ = c09Hostile(c.R, st, false)
			}
			add(st, "src=redir-stmt")
		}
		if c.R.Chance(25) {
			// quoted text, comments, here-documents with an escaped newline and tokens after them
			last := srcs[len(srcs)-1]
			text := c09EscnlText(c.R)
			switch c.R.Intn(3) {
			case 0:
				add(text, "src=escnl-text")
			case 1:
				add(text+"\n"+last, "src=escnl-text")
			default:
				if !strings.HasSuffix(last, "\n") {
					last += "\n"
				}
				add(last+text+"\n", "src=escnl-text")
			}
		}
	}
	return
}

func c09(c *Ctx) {
	c.Rule = "sources: hand-made programs covering every node type, the repository's own test inputs, grammar-generated programs; 70% made position-hostile " +
		"(CRLF, NUL bytes, backslash-newline between tokens, tabs, multi-byte runes inside words); 20% repeated behind an unusual prefix (BOM, NUL, CR/CRLF, multi-byte, invalid UTF-8, blank lines, #!); 30% followed by a statement with redirections before the command word / negation / pipelines in a compound position; a quarter followed by quoted text / comments / here-documents holding a backslash-newline with further tokens on the same line; each parsed in all five variants with comments kept; " +
		"non-trivial = parsed tree has ≥ 6 nodes; distinct by (variant, source); plus boundary/random Pos arithmetic cases"
	c09PosTie(c)
	types := allNodeStructs()
	tyIndex := map[string]int{}
	for i, t := range types {
		tyIndex[t.Name()] = i
	}
	debug := os.Getenv("C09_DEBUG") != ""
	one := func(src string, lang syntax.LangVariant, tags []string, strict bool) {
		f, err, pn := parseIn(src, lang, syntax.KeepComments(true))
		witness := "pos " + langName(lang) + " " + hx(src)
		if pn != "" {
			// a parser panic is C06's subject; not judged here
			c.Hist["parser-panic"]++
			return
		}
		if err != nil || f == nil {
			c.Hist["parse-error"]++
			return
		}
		t, pn := c09Build(src, lang, f)
		if pn != "" {
			c.Fail(witness, "Pos()/End() panicked on a parsed tree: "+pn)
			return
		}
		c.Case(langName(lang)+"\x00"+src, len(t.nodes) >= 6, append(tags, "lang="+langName(lang), fmt.Sprintf("nodes<%d", c09Bucket(len(t.nodes))))...)
		for _, cn := range t.nodes {
			c.Hist["type="+cn.Type]++
		}
		msg, regions := t.judge(strict)
		for _, r := range regions {
			c.Hist["known-region="+r]++
		}
		if msg != "" {
			c.Fail(witness, msg)
			if debug {
				fmt.Printf("FAIL %s %q: %s\n", langName(lang), src, msg)
			}
		}
		root := t.nodes[0]
		var sb strings.Builder
		t.vtree(tyIndex, root, &sb)
		c.Op("posend "+sb.String(), "ok")
		if msg == "" && len(regions) == 0 {
			// assume/guarantee for local_to_global, and the Lean spec's own verdict on this tree
			sb.Reset()
			t.ptree(root, &sb)
			if t.hdoc {
				c.Op("local "+sb.String(), "true")
				c.Op("specglobal "+sb.String(), "true")
			} else {
				c.Op("localtight "+sb.String(), "true")
				c.Op("specglobaltight "+sb.String(), "true")
			}
			if len(src) <= 4096 {
				offs := t.offsets()
				os_ := make([]string, len(offs))
				for i, o := range offs {
					os_[i] = fmt.Sprint(o)
				}
				c.Op(strings.TrimSpace("speclinecol "+hx(src)+" "+strings.Join(os_, " ")), t.implLineCols(offs))
			}
		}
	}
	for _, l := range c.CorpusLines() {
		fs := strings.Fields(l)
		if len(fs) != 3 || fs[0] != "pos" {
			continue
		}
		for _, lang := range allLangs {
			if langName(lang) == fs[1] {
				one(unhx(fs[2]), lang, []string{"src=corpus"}, true)
			}
		}
	}
	srcs, tags := c09Sources(c)
	for i, src := range srcs {
		for _, lang := range allLangs {
			one(src, lang, tags[i], os.Getenv("C09_STRICT") != "")
		}
	}
}

func c09Bucket(n int) int {
	for _, b := range []int{4, 8, 16, 32, 64, 128, 1 << 30} {
		if n < b {
			return b
		}
	}
	return 0
}

// c09Unquoted is the delimiter of a here-document: the word after << with its quoting removed.
func c09Unquoted(w *syntax.Word) string {
	var sb strings.Builder
	var part func(wp syntax.WordPart, quotes bool)
	part = func(wp syntax.WordPart, quotes bool) {
		switch wp := wp.(type) {
		case *syntax.Lit:
			for i := 0; i < len(wp.Value); i++ {
				if b := wp.Value[i]; b == '\\' && !quotes {
					if i++; i < len(wp.Value) {
						sb.WriteByte(wp.Value[i])
					}
				} else {
					sb.WriteByte(b)
				}
			}
		case *syntax.SglQuoted:
			sb.WriteString(wp.Value)
		case *syntax.DblQuoted:
			for _, p2 := range wp.Parts {
				part(p2, true)
			}
		}
	}
	for _, wp := range w.Parts {
		part(wp, false)
	}
	return sb.String()
}
