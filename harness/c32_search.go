//go:build c32 || all

package main

import (
	"bufio"
	"context"
	"encoding/json"
	"fmt"
	"io"
	"os"
	"os/exec"
	"regexp"
	"runtime"
	"sort"
	"strings"
	"sync"
	"sync/atomic"
	"time"

	"mvdan.cc/sh/v3/expand"
	"mvdan.cc/sh/v3/interp"
	"mvdan.cc/sh/v3/syntax"
)

// ---- search leg: the property itself under the race detector -------------------------------------
//
// Every generated program runs in a worker process (this binary re-executed with
// VERIF_C32_WORKER=1 and GORACE="halt_on_error=1 exitcode=66"): a report of the race detector ends
// the worker with status 66 and the report on stderr.  A program that raced is run again, alone in
// a new worker, with other perturbation seeds, before it is judged; what is reported is the pair
// of the two conflicting accesses' innermost interp/expand/syntax frames (a class witness), with
// the minimised program in the explanation.  `wait` statuses are checked from "ST <want> <got>"
// lines the programs print.
//
// Scheduling perturbation is injected from outside the interpreter, at the points where the
// goroutines of a program touch shared state: a CallHandler (runs before every simple command, on
// whatever goroutine runs it), the exec/open handlers and the output writer yield or sleep,
// driven by a seeded counter.  GOMAXPROCS of the worker varies with the seed.

type c32Job struct {
	ID    int      `json:"id"`
	Mode  string   `json:"mode"` // run | subshell-go
	Seed  uint64   `json:"seed"`
	Progs []string `json:"progs"` // run: one program; subshell-go: setup, then one per Runner (parent first)
}

type c32Result struct {
	ID       int      `json:"id"`
	TimedOut bool     `json:"timed_out"`
	Panic    string   `json:"panic"`
	BadWaits []string `json:"bad_waits"` // "ST want got" lines with want != got
	Spawned  bool     `json:"spawned"`
}

// ---- worker -------------------------------------------------------------------------------------

type c32Perturb struct {
	seed uint64
	n    atomic.Uint64
}

func (p *c32Perturb) hit() {
	k := p.n.Add(1)
	z := (p.seed + k*0x9e3779b97f4a7c15)
	z = (z ^ (z >> 30)) * 0xbf58476d1ce4e5b9
	z = (z ^ (z >> 27)) * 0x94d049bb133111eb
	z ^= z >> 31
	switch z % 8 {
	case 0, 1:
		runtime.Gosched()
	case 2:
		for i := 0; i < 4; i++ {
			runtime.Gosched()
		}
	case 3:
		time.Sleep(time.Duration(20+z%200) * time.Microsecond)
	}
}

type c32PWriter struct {
	p   *c32Perturb
	buf *c32SyncBuf
}

func (w c32PWriter) Write(b []byte) (int, error) {
	w.p.hit()
	return w.buf.Write(b)
}

// c32StRecorder collects the `__st <want> <got>` reports of one job (called from any goroutine).
type c32StRecorder struct {
	mu  sync.Mutex
	bad []string
	n   int
}

func (s *c32StRecorder) handler(next interp.ExecHandlerFunc) interp.ExecHandlerFunc {
	return func(ctx context.Context, args []string) error {
		if args[0] == "__eq" && len(args) == 3 {
			// `__eq want "$x"`: what an expansion gave, checked without going through stdout
			s.mu.Lock()
			s.n++
			if args[1] != args[2] {
				s.bad = append(s.bad, fmt.Sprintf("an expansion gave %q, want %q (output of another command substitution's job leaked in?)", args[2], args[1]))
			}
			s.mu.Unlock()
			return nil
		}
		if args[0] == "__st" && len(args) == 3 {
			s.mu.Lock()
			s.n++
			if args[1] != args[2] {
				s.bad = append(s.bad, "wait returned "+args[2]+", the job exited with "+args[1])
			}
			s.mu.Unlock()
			return nil
		}
		return next(ctx, args)
	}
}

func c32NewRunner(p *c32Perturb, out *c32SyncBuf, dir string, st *c32StRecorder) *interp.Runner {
	call := func(ctx context.Context, args []string) ([]string, error) {
		p.hit()
		return args, nil
	}
	open := func(ctx context.Context, path string, flag int, perm os.FileMode) (io.ReadWriteCloser, error) {
		p.hit()
		return interp.DefaultOpenHandler()(ctx, path, flag, perm)
	}
	r, err := interp.New(
		interp.StdIO(nil, c32PWriter{p, out}, c32PWriter{p, out}),
		interp.Dir(dir),
		interp.Env(expand.ListEnviron("PATH=/nonexistent", "HOME="+dir, "TMPDIR="+dir, "EV=env")),
		interp.Params("--", "p1", "p2", "p3"),
		interp.CallHandler(call),
		interp.OpenHandler(open),
		interp.ExecHandlers(st.handler, c32DelayHandler),
	)
	if err != nil {
		panic(err)
	}
	return r
}

func c32Worker() {
	in := bufio.NewReaderSize(os.Stdin, 1<<20)
	out := bufio.NewWriter(os.Stdout)
	dir := os.Getenv("VERIF_C32_DIR")
	for {
		line, err := in.ReadString('\n')
		if line == "" && err != nil {
			return
		}
		var job c32Job
		if json.Unmarshal([]byte(line), &job) != nil {
			continue
		}
		fmt.Fprintf(out, "BEGIN %d\n", job.ID)
		out.Flush()
		res := c32RunJob(job, dir)
		b, _ := json.Marshal(res)
		fmt.Fprintf(out, "END %s\n", b)
		out.Flush()
	}
}

func c32RunJob(job c32Job, dir string) c32Result {
	res := c32Result{ID: job.ID}
	runtime.GOMAXPROCS(1 + int(job.Seed%4))
	p := &c32Perturb{seed: job.Seed}
	var buf c32SyncBuf
	st := &c32StRecorder{}
	var files []*syntax.File
	for _, src := range job.Progs {
		f, err := syntax.NewParser().Parse(strings.NewReader(src), "")
		if err != nil {
			res.Panic = "parse: " + err.Error()
			return res
		}
		files = append(files, f)
		if strings.Contains(src, "&") || strings.Contains(src, "|") || strings.Contains(src, "<(") || strings.Contains(src, ">(") {
			res.Spawned = true
		}
	}
	ctx, cancel := context.WithTimeout(context.Background(), 6*time.Second)
	defer cancel()
	wait, _ := syntax.NewParser().Parse(strings.NewReader("wait"), "")
	done := make(chan string, 1)
	go func() {
		done <- safely(func() {
			switch job.Mode {
			case "run":
				r := c32NewRunner(p, &buf, dir, st)
				r.Run(ctx, files[0])
				if !r.Exited() {
					r.Run(ctx, wait)
				}
			case "subshell-go":
				// Runner.Subshell copies used concurrently with their parent, from Go
				r := c32NewRunner(p, &buf, dir, st)
				r.Run(ctx, files[0])
				runners := []*interp.Runner{r}
				for range files[2:] {
					runners = append(runners, r.Subshell()) // made one after the other, before any Run
				}
				var wg sync.WaitGroup
				for i, rn := range runners {
					wg.Go(func() {
						rn.Run(ctx, files[1+i])
						if !rn.Exited() {
							rn.Run(ctx, wait)
						}
					})
				}
				wg.Wait()
				res.Spawned = true
			}
		})
	}()
	select {
	case pn := <-done:
		res.Panic = pn
	case <-time.After(8 * time.Second):
		res.TimedOut = true
		return res
	}
	if ctx.Err() != nil {
		res.TimedOut = true
	}
	st.mu.Lock()
	res.BadWaits = append(res.BadWaits, st.bad...)
	st.mu.Unlock()
	return res
}

// ---- pool ---------------------------------------------------------------------------------------

type c32Outcome struct {
	job      c32Job
	res      c32Result
	raced    bool
	report   string
	died     string // worker ended in another way
	answered bool
}

type c32Proc struct {
	cmd    *exec.Cmd
	stdin  io.WriteCloser
	stdout *bufio.Reader
	stderr *os.File
	errp   string
}

var c32ProcN atomic.Int64

func c32StartWorker(c *Ctx, dir string) (*c32Proc, error) {
	exe, err := os.Executable()
	if err != nil {
		return nil, err
	}
	cmd := exec.Command(exe, "C32")
	errp := fmt.Sprintf("%s/worker-%d.stderr", dir, c32ProcN.Add(1))
	ef, err := os.Create(errp)
	if err != nil {
		return nil, err
	}
	cmd.Env = append(os.Environ(), "VERIF_C32_WORKER=1", "VERIF_C32_DIR="+dir, "GORACE=halt_on_error=1 exitcode=66", "GOMAXPROCS=4")
	cmd.Stderr = ef
	cmd.Dir = dir
	si, _ := cmd.StdinPipe()
	so, _ := cmd.StdoutPipe()
	if err := cmd.Start(); err != nil {
		return nil, err
	}
	return &c32Proc{cmd: cmd, stdin: si, stdout: bufio.NewReaderSize(so, 1<<20), stderr: ef, errp: errp}, nil
}

func (p *c32Proc) stop() {
	p.stdin.Close()
	donec := make(chan struct{})
	go func() { p.cmd.Wait(); close(donec) }()
	select {
	case <-donec:
	case <-time.After(3 * time.Second):
		p.cmd.Process.Kill()
		<-donec
	}
	p.stderr.Close()
	os.Remove(p.errp)
}

// run sends one job and waits for its answer; alive=false when the worker has ended.
func (p *c32Proc) run(job c32Job) (oc c32Outcome, alive bool) {
	oc.job = job
	b, _ := json.Marshal(job)
	if _, err := p.stdin.Write(append(b, '\n')); err != nil {
		oc.died = "write: " + err.Error()
		return oc, false
	}
	type lineOrErr struct {
		l   string
		err error
	}
	lines := make(chan lineOrErr, 4)
	go func() {
		for {
			l, err := p.stdout.ReadString('\n')
			lines <- lineOrErr{l, err}
			if err != nil || strings.HasPrefix(l, "END ") {
				return
			}
		}
	}()
	timeout := time.After(60 * time.Second)
	for {
		select {
		case le := <-lines:
			if strings.HasPrefix(le.l, "END ") {
				if json.Unmarshal([]byte(strings.TrimSpace(le.l[4:])), &oc.res) == nil {
					oc.answered = true
				}
				return oc, true
			}
			if le.err != nil {
				// the worker ended: a race report (66) or something else
				p.stdin.Close()
				werr := p.cmd.Wait()
				p.stderr.Close()
				rep, _ := os.ReadFile(p.errp)
				os.Remove(p.errp)
				code := -1
				if ee, ok := werr.(*exec.ExitError); ok {
					code = ee.ExitCode()
				}
				if code == 66 || strings.Contains(string(rep), "WARNING: DATA RACE") {
					oc.raced = true
					oc.report = string(rep)
				} else {
					tail := string(rep)
					if len(tail) > 600 {
						tail = tail[len(tail)-600:]
					}
					oc.died = fmt.Sprintf("exit %d: %s", code, tail)
				}
				return oc, false
			}
		case <-timeout:
			p.cmd.Process.Kill()
			p.cmd.Wait()
			p.stderr.Close()
			os.Remove(p.errp)
			oc.res.TimedOut = true
			return oc, false
		}
	}
}

// c32RunJobs runs the jobs on `workers` worker processes.
func c32RunJobs(c *Ctx, dir string, jobs []c32Job, workers int) []c32Outcome {
	out := make([]c32Outcome, len(jobs))
	ch := make(chan int)
	var wg sync.WaitGroup
	for w := 0; w < workers; w++ {
		wg.Go(func() {
			var p *c32Proc
			for i := range ch {
				if p == nil {
					var err error
					if p, err = c32StartWorker(c, dir); err != nil {
						out[i] = c32Outcome{job: jobs[i], died: "start: " + err.Error()}
						p = nil
						continue
					}
				}
				oc, alive := p.run(jobs[i])
				out[i] = oc
				if !alive {
					p = nil
				}
			}
			if p != nil {
				p.stop()
			}
		})
	}
	for i := range jobs {
		ch <- i
	}
	close(ch)
	wg.Wait()
	return out
}

// ---- race reports -------------------------------------------------------------------------------

var c32FrameRE = regexp.MustCompile(`^\s+(mvdan\.cc/sh/v3/[A-Za-z0-9_./]+(?:\(\*?[A-Za-z0-9_]+\))?[A-Za-z0-9_.]*)\(`)

// c32RaceClass extracts, for the first report, the innermost frame inside mvdan.cc/sh of each of
// the two conflicting accesses and returns them as a sorted pair.
func c32RaceClass(report string) (string, string) {
	lines := strings.Split(report, "\n")
	var tops []string
	section := false
	got := false
	kind := ""
	for _, l := range lines {
		switch {
		case strings.HasPrefix(l, "Write at ") || strings.HasPrefix(l, "Read at ") ||
			strings.HasPrefix(l, "Previous write at ") || strings.HasPrefix(l, "Previous read at "):
			section, got = true, false
			kind = strings.ToLower(strings.Fields(strings.TrimPrefix(l, "Previous "))[0])
		case strings.HasPrefix(l, "Goroutine ") || strings.HasPrefix(l, "=================="):
			section = false
		case section && !got:
			if m := c32FrameRE.FindStringSubmatch(l); m != nil {
				f := strings.TrimPrefix(m[1], "mvdan.cc/sh/v3/")
				// closures: keep the enclosing function
				f = regexp.MustCompile(`\.func\d+(\.\d+)*$`).ReplaceAllString(f, "")
				tops = append(tops, kind+" "+f)
				got = true
			}
		}
		if len(tops) == 2 {
			break
		}
	}
	sort.Strings(tops)
	summary := strings.Join(tops, " / ")
	first := report
	if i := strings.Index(first[min(len(first), 20):], "=================="); i > 0 {
		first = first[:i+20]
	}
	switch {
	case strings.Contains(first, "strings.(*Builder)") &&
		(strings.Contains(first, "expand.(*Config).cmdSubst") || strings.Contains(first, "interp.(*lockedWriter)")):
		// two goroutines of one command substitution write its output buffer
		summary = "cmdsubst-output strings.Builder"
	case strings.Contains(first, "interp.(*Runner).errf") && strings.Contains(first, "fillExpandConfig.func2"):
		// the process-substitution goroutine reports an error through the spawning Runner
		summary = "procsubst-errf parent stderr"
	}
	if summary == "" {
		summary = "no frame inside mvdan.cc/sh"
	}
	head := report
	if i := strings.Index(head, "Goroutine "); i > 0 {
		head = head[:i]
	}
	if len(head) > 1500 {
		head = head[:1500]
	}
	return summary, head
}

// ---- generator ----------------------------------------------------------------------------------

var c32Preamble = "arr=(a b c d); declare -A m=([k]=v [j]=w); s=str; n=0; sp=([3]=x [7]=y); f() { arr+=(f); echo \"${arr[@]}\" $1; }; g() { local l=$1; s+=$l; echo $s; }"

func c32Body(r *Rand, depth int) string { return c32BodyC(r, depth, true) }

// c32BodyC: with conc=false no goroutine is started.
func c32BodyC(r *Rand, depth int, conc bool) string {
	pick := func(l ...string) string { return l[r.Intn(len(l))] }
	var parts []string
	for i := 1 + r.Intn(4); i > 0; i-- {
		switch k := r.Intn(34); {
		case k < 4:
			parts = append(parts, pick("arr+=(x)", "arr+=(y z)", "arr[1]=q", "arr[6]=far", "arr+=tail", "unset 'arr[0]'", "unset 'arr[2]'", "arr=(n e w)", "arr=()"))
		case k < 7:
			parts = append(parts, pick("echo \"${arr[@]}\"", "echo ${#arr[@]}", "echo ${arr[1]}", "echo \"${!arr[@]}\"", "declare -p arr", "echo ${arr[@]:1:2}", "for e in \"${arr[@]}\"; do :; done"))
		case k < 9:
			parts = append(parts, pick("sp+=(z)", "sp[5]=mid", "unset 'sp[3]'", "sp+=q", "echo \"${sp[@]}\" \"${!sp[@]}\""))
		case k < 12:
			parts = append(parts, pick("m[k]=q", "m[new]=1", "unset 'm[j]'", "echo ${m[k]}", "echo \"${!m[@]}\"", "declare -p m", "m+=([z]=1)"))
		case k < 14:
			parts = append(parts, pick("s+=t", "s=new", "echo $s", "export s", "unset s", ": ${s:=dflt}", "printf -v s '%s' v", "read -r s <<< 'r e'"))
		case k < 16:
			parts = append(parts, pick("f x", "g y", "f() { echo redefined; }", "unset -f g", "declare -f f >/dev/null", "type f >/dev/null"))
		case k == 16:
			parts = append(parts, pick("alias a1='echo hi'", "unalias a1 2>/dev/null", "alias", "shopt -s expand_aliases"))
		case k == 17:
			parts = append(parts, pick("cd /", "pushd -n /tmp >/dev/null", "popd -n >/dev/null 2>&1", "dirs >/dev/null", "echo \"${DIRSTACK[@]}\" >/dev/null", "pwd >/dev/null"))
		case k == 18:
			parts = append(parts, pick("set -- q r", "shift", "echo \"$@\" $#", "set -- \"$@\" more", "echo $1"))
		case k == 19:
			parts = append(parts, pick("set -o noglob", "set +o noglob", "shopt -s nullglob", "shopt -u nullglob", "set -o pipefail", "set +e"))
		case k == 20:
			parts = append(parts, pick("read -ra arr <<< 'p q'", "mapfile -t arr <<< $'l1\\nl2'", "read -r x y <<< 'a b'"))
		case k == 21:
			parts = append(parts, pick("(( n++ )) || true", "let n+=2", ": $(( n = n * 2 ))", "echo $n"))
		case k == 22:
			parts = append(parts, pick("exec 2>/dev/null", "echo err >&2", "echo x >/dev/null", "{ echo a; echo b; } 2>&1"))
		case k == 23:
			parts = append(parts, pick("trap 'echo t' EXIT", "trap - EXIT", "trap 'echo e' ERR; false; true"))
		case k == 24:
			parts = append(parts, pick("eval 'arr+=(e)'", "eval 's+=e'", "echo $RANDOM >/dev/null", "echo $$ $PPID >/dev/null", "echo $! $? $- >/dev/null"))
		case k == 25:
			parts = append(parts, pick("cat <<EOF\n$s ${arr[@]}\nEOF", "cat <<< \"$s\"", "while read -r l; do arr+=(\"$l\"); done <<EOF\none\ntwo\nEOF"))
		case k < 29 && depth < 2 && conc:
			// nested concurrency
			switch r.Intn(6) {
			case 0:
				parts = append(parts, "{ "+c32Body(r, depth+1)+"\n} &\n"+c32Body(r, depth+1)+"\nwait")
			case 1:
				parts = append(parts, c32Simple(r)+" | { "+c32Body(r, depth+1)+"\n}")
			case 2:
				parts = append(parts, "x=$( "+c32Body(r, depth+1)+"\n)")
			case 3:
				parts = append(parts, "while read -r l; do "+c32Body(r, depth+1)+"\ndone < <( "+c32Body(r, depth+1)+"\n)")
			case 4:
				parts = append(parts, c32Simple(r)+" > >( cat >/dev/null\n"+c32Body(r, depth+1)+"\n)\nwait")
			default:
				parts = append(parts, "( "+c32Body(r, depth+1)+"\n)")
			}
		case k < 31 && conc:
			st := r.Pick([]string{"0", "3", "7", "42"})
			parts = append(parts, fmt.Sprintf("( __delay %d; exit %s ) & jp=$!; %s; wait $jp; __st %s $?", r.Intn(3)*200, st, c32Simple(r), st))
		case k == 31 && conc:
			if r.Bool() {
				parts = append(parts, c32Grandchild(r))
			} else {
				parts = append(parts, "f bg & g bg & wait")
			}
		default:
			parts = append(parts, c32Simple(r))
		}
	}
	return strings.Join(parts, "\n")
}

// c32Grandchild: command (and process) substitutions whose stdout is written by background jobs that
// are NOT direct children of the substitution's shell — started inside a nested ( ), by another
// background job, or by a function that backgrounds inside a subshell — so that they can outlive the
// substitution; followed by further $(…) expansions in the parent, which reuse the expansion
// buffer, with their results checked (`__eq`).
func c32Grandchild(r *Rand) string {
	d := func() string { return fmt.Sprint(r.Intn(4) * 150) }
	w := func() string { return r.Pick([]string{"echo gc", "echo \"${arr[@]}\"", "f gc", "g gc", "printf '%s\\n' late"}) }
	sub := r.Pick([]string{
		"x=$( ( " + w() + " & ) )",
		"x=$( { { " + w() + " & } & } )",
		"x=$( ( { __delay " + d() + "; " + w() + "; } & ) )",
		"x=$( ( ( " + w() + " & ) & ) ; echo own )",
		"gh() { ( " + w() + " & ); }; x=$(gh)",
		"gh() { { { __delay " + d() + "; " + w() + "; } & } & }; x=$(gh; echo own)",
		"x=$( { " + w() + " & } & " + w() + " )",
		"x=\"$( ( " + w() + " & ) )$( ( " + w() + " & ) )\"",
		"x=$( echo lit | ( cat; " + w() + " & ) )",
		"while read -r l; do s+=$l; done < <( ( " + w() + " & ); echo own )",
		"read -r l < <( { { __delay " + d() + "; " + w() + "; } & } & echo own ); echo \"$l\" >/dev/null",
	})
	tok := r.Pick([]string{"foo", "bar7", "q"})
	after := r.Pick([]string{
		"y=$( __delay " + d() + "; echo " + tok + " ); __eq " + tok + " \"$y\"",
		"y=$(echo " + tok + "); __eq " + tok + " \"$y\"",
		"y=\"$(echo " + tok + ")$(echo " + tok + ")\"; __eq " + tok + tok + " \"$y\"",
		"for i in 1 2 3; do y=$( __delay 100; echo " + tok + "$i ); __eq " + tok + "$i \"$y\"; done",
		"y=${s:+$(echo " + tok + ")}; z=$(( $(echo 2) + 1 )); __eq 3 $z",
	})
	return sub + "\n" + after
}

func c32Simple(r *Rand) string {
	return r.Pick([]string{"echo \"${arr[@]}\"", "echo $s", "arr+=(s)", "s+=u", "echo ${m[k]}", "m[k]=u", "f z", "g w", "echo hi", ": ${arr[0]}", "sp+=(w)", "echo lit"})
}

func c32GenJob(r *Rand, id int) c32Job {
	job := c32Job{ID: id, Seed: r.Uint64()}
	if r.Chance(20) {
		job.Mode = "subshell-go"
		n := 2 + r.Intn(2)
		job.Progs = []string{c32Preamble}
		for i := 0; i < n; i++ {
			job.Progs = append(job.Progs, c32Body(r, 1))
		}
		return job
	}
	job.Mode = "run"
	if r.Chance(15) {
		stmts := []string{c32Preamble}
		for i := 2 + r.Intn(4); i > 0; i-- {
			stmts = append(stmts, c32Grandchild(r))
			if r.Chance(40) {
				stmts = append(stmts, c32Simple(r))
			}
		}
		stmts = append(stmts, "wait")
		job.Progs = []string{strings.Join(stmts, "\n")}
		return job
	}
	if r.Chance(5) {
		// The FIFO of a process substitution removed before its goroutine opens it (the error path
		// fixed by f9b9e42).  When the goroutine is already blocked in open(2) it stays there and a
		// `wait` would hang (C31), so these programs wait for nothing and end with `exit`.
		stmts := []string{c32Preamble}
		for i := 2 + r.Intn(4); i > 0; i-- {
			stmts = append(stmts, r.Pick([]string{"rm <(echo gone) 2>/dev/null", "rm <(f x) 2>/dev/null", "rm >(cat) 2>/dev/null"})+"; "+c32Simple(r)+" 2>/dev/null")
			stmts = append(stmts, r.Pick([]string{"exec 2>/dev/null", "arr+=(r)", "echo err >&2", "{ echo a; } 2>&1"}))
		}
		stmts = append(stmts, "exit 0")
		job.Progs = []string{strings.Join(stmts, "\n")}
		return job
	}
	var stmts []string
	stmts = append(stmts, c32Preamble)
	for i := 1 + r.Intn(4); i > 0; i-- {
		switch r.Intn(8) {
		case 0, 1, 2:
			stmts = append(stmts, "{ "+c32Body(r, 0)+"\n} &")
			stmts = append(stmts, c32Body(r, 0))
			if r.Chance(70) {
				stmts = append(stmts, "wait")
			}
		case 3:
			stmts = append(stmts, c32Simple(r)+" | { "+c32Body(r, 0)+"\n} | { "+c32Body(r, 1)+"\n}")
		case 4:
			stmts = append(stmts, "while read -r l; do "+c32Body(r, 1)+"\ndone < <( "+c32Body(r, 0)+"\n)")
		case 5:
			stmts = append(stmts, "y=$( "+c32Body(r, 0)+"\n)\n"+c32Body(r, 1))
		case 6:
			stmts = append(stmts, "cat <(echo kept) >/dev/null; echo x 2>/dev/null")
		default:
			stmts = append(stmts, c32Body(r, 0))
		}
	}
	stmts = append(stmts, "wait")
	job.Progs = []string{strings.Join(stmts, "\n")}
	return job
}

func c32JobWitness(j c32Job) string {
	hs := make([]string, len(j.Progs))
	for i, p := range j.Progs {
		hs[i] = hx(p)
	}
	return fmt.Sprintf("prog %s %d %s", j.Mode, j.Seed, strings.Join(hs, ","))
}

func c32ParseCorpus(l string, id int) (c32Job, bool) {
	f := strings.Fields(l)
	if len(f) != 4 || f[0] != "prog" {
		return c32Job{}, false
	}
	var seed uint64
	fmt.Sscan(f[2], &seed)
	j := c32Job{ID: id, Mode: f[1], Seed: seed}
	for _, h := range strings.Split(f[3], ",") {
		j.Progs = append(j.Progs, unhx(h))
	}
	return j, true
}

// c32Confirm runs the job alone in fresh workers with several perturbation seeds.
func c32Confirm(c *Ctx, dir string, job c32Job, tries int) (c32Outcome, bool) {
	for t := 0; t < tries; t++ {
		j := job
		j.Seed = job.Seed + uint64(t)*0x9e3779b9
		ocs := c32RunJobs(c, dir, []c32Job{j}, 1)
		if ocs[0].raced {
			return ocs[0], true
		}
	}
	return c32Outcome{}, false
}

func c32Search(c *Ctx, n int) {
	dir := scratchDir(c)
	var jobs []c32Job
	corpus := map[int]bool{}
	for _, l := range c.CorpusLines() {
		if j, ok := c32ParseCorpus(l, len(jobs)); ok {
			corpus[j.ID] = true
			jobs = append(jobs, j)
		}
	}
	r := c.R.Fork("search")
	for i := 0; i < n; i++ {
		jobs = append(jobs, c32GenJob(r, len(jobs)))
	}
	if len(jobs) == 0 {
		return
	}
	workers := 3
	if c.Shards > 1 {
		workers = 2 // sixteen shards run side by side in the thorough tier
	}
	outs := c32RunJobs(c, dir, jobs, workers)
	for _, oc := range outs {
		tags := []string{"search:" + oc.job.Mode}
		if corpus[oc.job.ID] {
			tags = append(tags, "search:corpus")
		}
		switch {
		case oc.raced:
			conf, ok := c32Confirm(c, dir, oc.job, 4)
			if !ok {
				c.Case("", false, "search:race-not-reproduced-alone")
				continue
			}
			class, head := c32RaceClass(conf.report)
			c.Case(c32JobWitness(oc.job), true, append(tags, "search:race")...)
			c.Fail("race "+class, "the race detector reports a data race: "+strings.ReplaceAll(strings.TrimSpace(head), "\n", " ⏎ ")+" — program ("+oc.job.Mode+"): "+strings.ReplaceAll(strings.Join(oc.job.Progs, " ‖ "), "\n", " ⏎ "))
		case oc.died != "":
			c.Case("", false, "search:worker-died")
			c.Hist["search:worker-died:"+strings.SplitN(oc.died, ":", 2)[0]]++
		case oc.res.TimedOut:
			c.Case("", false, "search:skipped-timeout")
			if os.Getenv("VERIF_C32_DEBUG") != "" {
				fmt.Fprintf(os.Stderr, "TIMEOUT %q\n", oc.job.Progs)
			}
		case oc.res.Panic != "":
			c.Case("", false, "search:skipped-panic")
			if os.Getenv("VERIF_C32_DEBUG") != "" {
				fmt.Fprintf(os.Stderr, "PANIC %s %q\n", oc.res.Panic, oc.job.Progs)
			}
		default:
			c.Case(c32JobWitness(oc.job), oc.res.Spawned, tags...)
			if len(oc.res.BadWaits) > 0 {
				// re-run alone before judging
				again := c32RunJobs(c, dir, []c32Job{oc.job}, 1)
				if len(again[0].res.BadWaits) > 0 {
					c.Fail("wrong-result "+c32JobWitness(oc.job), "a wait status or an expansion result is wrong: "+strings.Join(again[0].res.BadWaits, "; ")+" — program: "+strings.ReplaceAll(strings.Join(oc.job.Progs, " ‖ "), "\n", " ⏎ "))
				} else {
					c.Case("", false, "search:wait-not-reproduced")
					if os.Getenv("VERIF_C32_DEBUG") != "" {
						fmt.Fprintf(os.Stderr, "WAITFLAKE %q %q\n", oc.res.BadWaits, oc.job.Progs)
					}
				}
			}
		}
	}
	c.Extra["race_detector"] = c32RaceBuild()
}
