//go:build c25 || all

package main

import (
	"context"
	"fmt"
	"os"
	"os/exec"
	"path/filepath"
	"sort"
	"strconv"
	"strings"
	"time"
	"unicode/utf8"

	"mvdan.cc/sh/v3/shell"
)

// C25 — shell.Expand and shell.Fields behave like bash.
//
// A case is (string, environment).  Token form: `<hex string> <hex name>=<hex value>*`.
// Streams: `expand`, `fields`          model (parse + expand, shaped like the Go code) vs shell.Expand/Fields,
//                                      on strings of the fragment (c25FragDoc / c25FragWords)
//          `specexpand`, `specfields`  the Lean specifications hdocSem / argsSem vs the same answers,
//                                      outside the exclusion regions
// Search leg: `cat <<DELIM` with the string as body and the non-empty variables exported, resp.
// `f <string>` with `set -f`, in bash; witness `ex <tokens>` / `fl <tokens>`.
func init() { register("C25", c25) }

type c25Case struct {
	s   string
	env [][2]string
}

func (cs c25Case) tokens() string {
	out := []string{hx(cs.s)}
	for _, kv := range cs.env {
		out = append(out, hx(kv[0])+"="+hx(kv[1]))
	}
	return strings.Join(out, " ")
}

func c25Parse(f []string) (cs c25Case, ok bool) {
	defer func() {
		if recover() != nil {
			ok = false
		}
	}()
	if len(f) < 1 {
		return cs, false
	}
	cs.s = unhx(f[0])
	for _, t := range f[1:] {
		a, b, found := strings.Cut(t, "=")
		if !found {
			return cs, false
		}
		cs.env = append(cs.env, [2]string{unhx(a), unhx(b)})
	}
	return cs, true
}

func (cs c25Case) envFunc() func(string) string {
	return func(name string) string {
		for _, kv := range cs.env {
			if kv[0] == name {
				return kv[1]
			}
		}
		return ""
	}
}

func c25ErrClass(err error) string {
	msg := err.Error()
	switch {
	case strings.Contains(msg, "unexpected command substitution"):
		return "err cmdsubst"
	case strings.Contains(msg, "read-only"):
		return "err readonly"
	}
	// syntax errors carry a position "line:col: "
	if i := strings.Index(msg, ": "); i > 0 && strings.Count(msg[:i], ":") == 1 {
		if _, e := strconv.Atoi(msg[:strings.Index(msg, ":")]); e == nil {
			return "err"
		}
	}
	return "err other " + hx(msg)
}

func c25Expand(cs c25Case) string {
	var out string
	var err error
	if p := safely(func() { out, err = shell.Expand(cs.s, cs.envFunc()) }); p != "" {
		return "panic"
	}
	if err != nil {
		return c25ErrClass(err)
	}
	return "ok " + hx(out)
}

func c25Fields(cs c25Case) (string, []string) {
	var out []string
	var err error
	if p := safely(func() { out, err = shell.Fields(cs.s, cs.envFunc()) }); p != "" {
		return "panic", nil
	}
	if err != nil {
		return c25ErrClass(err), nil
	}
	return strings.TrimSpace("ok " + hxs(out)), out
}

// ---------- the fragment (twin of the Lean parsers: accepts ⇒ the model does not answer `outside`) ----------

func c25NameStart(b byte) bool { return 'A' <= b && b <= 'Z' || 'a' <= b && b <= 'z' || b == '_' }
func c25NameChar(b byte) bool  { return c25NameStart(b) || '0' <= b && b <= '9' }
func c25Digit(b byte) bool     { return '0' <= b && b <= '9' }

type c25Frag struct {
	env   func(string) string
	arith bool // saw $(( )) — variables used there must hold small decimal literals
	bad   bool
}

func (f *c25Frag) takeName(s string, i int) int {
	for i < len(s) && c25NameChar(s[i]) {
		i++
	}
	return i
}

// word of ${n<op>word}: returns the index after the closing brace, or -1 (outside), -2 (syntax error)
func (f *c25Frag) word(s string, i int) int {
	for i < len(s) {
		b := s[i]
		switch {
		case b == '}':
			return i + 1
		case b == '$':
			if i+1 >= len(s) {
				return -1
			}
			c := s[i+1]
			switch {
			case c25NameStart(c):
				i = f.takeName(s, i+1)
			case c == '{':
				if i+2 >= len(s) || !c25NameStart(s[i+2]) {
					return -1
				}
				j := f.takeName(s, i+2)
				if j >= len(s) {
					return -2
				}
				if s[j] != '}' {
					return -1
				}
				i = j + 1
			default:
				return -1
			}
		case strings.IndexByte("\\`'\"{\x00\r", b) >= 0:
			return -1
		default:
			i++
		}
	}
	return -2
}

// arithmetic after `$((`: index after `))`, or -1/-2
func (f *c25Frag) arithm(s string, i int) int {
	depth := 0
	ntok := 0
	for i < len(s) {
		b := s[i]
		switch {
		case b == ' ' || b == '\t':
			i++
		case c25Digit(b):
			j := i
			for j < len(s) && c25Digit(s[j]) {
				j++
			}
			if j-i > 1 && s[i] == '0' || j-i > 6 {
				return -1
			}
			if j < len(s) && c25NameStart(s[j]) {
				return -1
			}
			i = j
			ntok++
		case c25NameStart(b):
			j := f.takeName(s, i)
			v := f.env(s[i:j])
			if v != "" {
				ok := len(v) <= 6 && !(len(v) > 1 && v[0] == '0')
				for k := 0; k < len(v); k++ {
					if !c25Digit(v[k]) {
						ok = false
					}
				}
				if !ok {
					return -1
				}
			}
			i = j
			ntok++
		case b == '+' || b == '-' || b == '*':
			if i+1 < len(s) && s[i+1] == b {
				return -1
			}
			i++
			ntok++
		case b == '(':
			depth++
			i++
			ntok++
		case b == ')':
			if depth > 0 {
				depth--
				i++
				ntok++
				continue
			}
			if i+1 >= len(s) {
				return -2
			}
			if s[i+1] != ')' {
				return -1
			}
			if ntok == 0 {
				return -1
			}
			return i + 2
		default:
			return -1
		}
	}
	return -2
}

// after a `$` at s[i-1]: (next index, kind) kind 0 literal dollar, 1 expansion, -1 outside, -2 error
func (f *c25Frag) dollar(s string, i int) (int, int) {
	if i >= len(s) {
		return i, 0
	}
	c := s[i]
	switch {
	case c25NameStart(c):
		return f.takeName(s, i), 1
	case c == '{':
		if i+1 >= len(s) {
			return 0, -2
		}
		d := s[i+1]
		if d == '}' {
			return 0, -2
		}
		if !c25NameStart(d) {
			return 0, -1
		}
		j := f.takeName(s, i+1)
		if j >= len(s) {
			return 0, -2
		}
		switch {
		case s[j] == '}':
			return j + 1, 1
		case s[j] == ':' && j+1 < len(s) && (s[j+1] == '-' || s[j+1] == '+'):
			j += 2
		case s[j] == '-' || s[j] == '+':
			j++
		default:
			return 0, -1
		}
		if j < len(s) && s[j] == '~' {
			return 0, -1
		}
		k := f.word(s, j)
		if k < 0 {
			return 0, k
		}
		return k, 1
	case c == '(':
		if i+1 < len(s) && s[i+1] == '(' {
			k := f.arithm(s, i+2)
			if k < 0 {
				return 0, k
			}
			return k, 1
		}
		return 0, -1
	case c25Digit(c) || strings.IndexByte("@*#?$!-[", c) >= 0:
		return 0, -1
	}
	return i, 0
}

// c25FragDoc: 1 inside the fragment and well formed, 2 inside and a syntax error, 0 outside.
func c25FragDoc(s string, env func(string) string) int {
	if !utf8.ValidString(s) {
		return 0 // the parser rejects invalid UTF-8; not modelled
	}
	if c25ContRisk(s) {
		return 0
	}
	s = c25JoinLines(s)
	f := &c25Frag{env: env}
	i := 0
	for i < len(s) {
		b := s[i]
		switch {
		case b == 0 || b == '\r' || b == '`':
			return 0
		case b == '\\':
			if i+1 >= len(s) {
				i++
				continue
			}
			if s[i+1] == 0 || s[i+1] == '\r' {
				return 0
			}
			i += 2
		case b == '$':
			j, k := f.dollar(s, i+1)
			switch k {
			case -1:
				return 0
			case -2:
				return 2
			}
			i = j
		default:
			i++
		}
	}
	return 1
}

func c25PlainUnq(b byte) bool {
	return c25NameChar(b) || strings.IndexByte("./:,@%+-~]^=", b) >= 0
}

// c25FragWords: same for Parser.WordsSeq.
func c25FragWords(s string, env func(string) string) int {
	if env("IFS") != "" || !utf8.ValidString(s) {
		return 0
	}
	f := &c25Frag{env: env}
	i := 0
	wordStart := true
	for i < len(s) {
		b := s[i]
		switch {
		case b == ' ' || b == '\t' || b == '\n':
			wordStart = true
			i++
			continue
		case b == '\\':
			if i+1 >= len(s) {
				i++
				break
			}
			if s[i+1] == '\n' || s[i+1] == 0 || s[i+1] == '\r' {
				return 0
			}
			i += 2
		case b == '\'':
			j := strings.IndexByte(s[i+1:], '\'')
			if j < 0 {
				return 2
			}
			if strings.ContainsAny(s[i+1:i+1+j], "\x00\r") {
				return 0
			}
			i += j + 2
		case b == '"':
			i++
			closed := false
			for i < len(s) && !closed {
				c := s[i]
				switch {
				case c == '"':
					closed = true
					i++
				case c == 0 || c == '\r' || c == '`':
					return 0
				case c == '\\':
					if i+1 >= len(s) {
						return 2
					}
					if s[i+1] == '\n' || s[i+1] == 0 || s[i+1] == '\r' {
						return 0
					}
					i += 2
				case c == '$':
					j, k := f.dollar(s, i+1)
					switch k {
					case -1:
						return 0
					case -2:
						return 2
					}
					i = j
				default:
					i++
				}
			}
			if !closed {
				return 2
			}
		case b == '$':
			if i+1 < len(s) && (s[i+1] == '\'' || s[i+1] == '"') {
				return 0
			}
			j, k := f.dollar(s, i+1)
			switch k {
			case -1:
				return 0
			case -2:
				return 2
			}
			i = j
		case c25PlainUnq(b):
			if b == '~' {
				if !wordStart {
					return 0
				}
				if i+1 < len(s) && strings.IndexByte("/ \t\n'\"$", s[i+1]) < 0 {
					return 0
				}
			}
			i++
		default:
			return 0
		}
		wordStart = false
	}
	return 1
}

// ---------- generators ----------

var c25Names = []string{"x", "y", "e", "u", "n", "m", "sp", "q", "HOME", "x1", "_v", "pw", "st", "dt", "w3", "qm", "br"}

func c25GenEnv(r *Rand) [][2]string {
	var env [][2]string
	add := func(k, v string) { env = append(env, [2]string{k, v}) }
	add("x", r.Pick([]string{"val", "a", "X y", "val"}))
	if r.Chance(70) {
		add("y", r.Pick([]string{"a b", "b", "  two  words ", "y\ty", "line1\nline2"}))
	}
	if r.Chance(50) {
		add("e", "") // explicitly empty: must behave as unset
	}
	add("n", r.Pick([]string{"5", "12", "0", "007", "5", "3x"}))
	if r.Chance(60) {
		add("m", r.Pick([]string{"7", "100", "999999"}))
	}
	if r.Chance(60) {
		add("sp", r.Pick([]string{" a  b ", "a b c", " ", "a\nb"}))
	}
	if r.Chance(60) {
		add("q", r.Pick([]string{"it's", `say "hi"`, `back\slash`, "$x", "*", "~", "a{b,c}", "$1", "US$5", "a$$b", "${x}", "$0", "$1", "$name"}))
	}
	if r.Chance(70) {
		add("HOME", r.Pick([]string{"/home/u", "/h m", "/"}))
	}
	if r.Chance(30) {
		add("x1", "one")
	}
	// values holding the characters that pattern-removal patterns quote
	if r.Chance(45) {
		add("pw", r.Pick([]string{`C:\dir\file.txt`, `a\b`, `\x\`}))
		add("st", r.Pick([]string{"a*b*c", "*", "x*"}))
		add("dt", r.Pick([]string{"a.b.c", "file.tar.gz", ".x."}))
		add("w3", r.Pick([]string{"one two three", "a b"}))
		add("qm", r.Pick([]string{"what?no", "a?b?c"}))
		add("br", r.Pick([]string{"a[b]c", "x[1][2]"}))
	}
	if r.Chance(30) {
		add("_v", "under")
	}
	return env
}

func c25GenWordOfOp(r *Rand, rich bool) string {
	var sb strings.Builder
	n := r.Intn(4)
	for i := 0; i < n; i++ {
		switch k := r.Intn(12); {
		case k < 5:
			sb.WriteString(r.Pick([]string{"d", "def", "a b", " ", "-", "x y", ":", "1", "/p", "*", "~"}))
		case k < 7:
			sb.WriteString("$" + r.Pick(c25Names))
		case k < 8:
			sb.WriteString("${" + r.Pick(c25Names) + "}")
		case k < 9 && rich:
			sb.WriteString(r.Pick([]string{"'s q'", `"d q"`, `\}`, `\\`, `\$x`, "{", "a\\ b"}))
		default:
			sb.WriteString(r.Pick([]string{"w", "z"}))
		}
	}
	return sb.String()
}

func c25GenArith(r *Rand, depth int) string {
	atom := func() string {
		switch k := r.Intn(10); {
		case k < 5:
			return strconv.Itoa(r.Intn(100))
		case k < 7:
			return r.Pick([]string{"n", "m", "u", "e"})
		case k < 8 && depth < 2:
			return "(" + c25GenArith(r, depth+1) + ")"
		case k < 9:
			return "-" + strconv.Itoa(r.Intn(20))
		default:
			return strconv.Itoa(r.Intn(100000))
		}
	}
	s := atom()
	for i := r.Intn(3); i > 0; i-- {
		op := r.Pick([]string{"+", "-", "*", " + ", " - ", " * "})
		s += op + atom()
	}
	if r.Chance(15) {
		s = " " + s + " "
	}
	return s
}

// c25GenRemoval: ${v#p} ${v##p} ${v%p} ${v%%p} with a pattern "star + literal" / "literal + star" whose
// literal has escaped or quoted special characters, over a value that contains them (search leg
// only; the operators are property C21's).
func c25GenRemoval(r *Rand, inWords bool) string {
	type vl struct {
		name string
		lits []string
	}
	choices := []vl{
		{"pw", []string{`\\`, `'\'`, `"\\"`, `\\d`, `r\\`}},
		{"st", []string{`\*`, `'*'`, `"*"`, `\*b`, `b'*'`}},
		{"dt", []string{`\.`, `'.'`, `.`, `\.b`, `"."t`}},
		{"w3", []string{`\ `, `' '`, `" "`, `\ t`, `e' '`}},
		{"qm", []string{`\?`, `'?'`, `"?"`, `t\?`, `'?'n`}},
		{"br", []string{`\[`, `'['`, `"["`, `\]`, `']'`}},
		{"x", []string{"a", "l", `\a`, `'a'`}},
	}
	c := choices[r.Intn(len(choices))]
	lit := r.Pick(c.lits)
	op := r.Pick([]string{"#", "##", "%", "%%"})
	var pat string
	switch k := r.Intn(10); {
	case k < 7:
		if op[0] == '#' {
			pat = "*" + lit
		} else {
			pat = lit + "*"
		}
	case k < 8:
		pat = "*" + lit + "*"
	case k < 9:
		pat = lit
	default:
		if op[0] == '#' {
			pat = lit + "*"
		} else {
			pat = "*" + lit
		}
	}
	_ = inWords
	return "${" + c.name + op + pat + "}"
}

func c25GenExpansion(r *Rand, rich bool) string {
	switch k := r.Intn(20); {
	case k < 6:
		return "$" + r.Pick(c25Names)
	case k < 10:
		return "${" + r.Pick(c25Names) + "}"
	case k < 16:
		return "${" + r.Pick(c25Names) + r.Pick([]string{":-", "-", ":+", "+"}) + c25GenWordOfOp(r, rich) + "}"
	case k < 16:
		return "$((" + c25GenArith(r, 0) + "))"
	case k < 18:
		return c25GenRemoval(r, false)
	case k < 19:
		// pattern replacement (search leg only; the operator itself is property C21's): the
		// replacement text arrives through variables, `$`-sequences in it must stay literal
		return "${" + r.Pick([]string{"x", "y", "sp", "x1"}) + r.Pick([]string{"/", "//"}) +
			r.Pick([]string{"a", "l", "b", "e", "?", "?", "?", " ", "n", "*"}) + "/" +
			r.Pick([]string{"$q", "[$q]", "$q$q", "-", "", "$y", "r$q"}) + "}"
	default:
		if rich {
			return r.Pick([]string{"${#x}", "${x%l}", "${x:1}", "${u:=d}", "${u:?msg}", "$[1+2]", "$((2**3))", "$((n++))", "$(echo hi)", "`echo`", "$1", "$@", "$#", "$?", "${x/a/b}", "${!x}", "$((08))", "$((0x10))", "$((1/0))", "$(( ))"})
		}
		return "$" + r.Pick(c25Names)
	}
}

var c25DocText = []string{"a", "b", " ", " ", "\n", "word", "'", "\"", "#", "{", "}", "(", ")", "*", "~", ";", "|", "&", "<", ">", "=", ":", "-", "é", "\t", "q'x'", "\"dq\""}
var c25DocEsc = []string{`\$`, `\\`, "\\`", `\a`, `\"`, "\\\n", `\'`, `\ `, `\{`, `\}`, `\$x`, `\\$x`, `\\\$`}

func c25GenDoc(r *Rand, rich bool) string {
	var sb strings.Builder
	n := 1 + r.Intn(6)
	for i := 0; i < n; i++ {
		switch k := r.Intn(20); {
		case k < 8:
			sb.WriteString(r.Pick(c25DocText))
		case k < 15:
			sb.WriteString(c25GenExpansion(r, rich))
		case k < 18:
			sb.WriteString(r.Pick(c25DocEsc))
		default:
			sb.WriteString(r.Pick([]string{"$", "$ ", "$.", "$\"", "$'", "$}", "x$"}))
		}
	}
	s := sb.String()
	if rich && r.Chance(12) { // malformed: cut somewhere
		s = s[:r.Intn(len(s)+1)]
	}
	return s
}

// c25GenQuotedDefault: one word with content BEFORE and AFTER a default/alternative expansion whose
// word is quoted — `a${e:-"b"}c`, `$x${e:-'b'}`, `{a,b}${u-"c"}`, `~/${n:+"$n"}`, chains of them.
func c25GenQuotedDefault(r *Rand) string {
	exp := func() string {
		var v, op string
		if r.Bool() {
			v, op = r.Pick([]string{"e", "u", "u", "e", "x"}), r.Pick([]string{":-", "-"})
		} else {
			v, op = r.Pick([]string{"n", "x", "x1", "m", "u"}), r.Pick([]string{":+", "+"})
		}
		w := r.Pick([]string{`"b"`, `'c'`, `"$n"`, `"$x1"`, `"b"'c'`, `"${n}z"`, `'*'`, `"~"`, `""`, `"b c"`, `"$x"`, `"b"d`, `d"b"`})
		return "${" + v + op + w + "}"
	}
	before := func() string {
		switch r.Intn(10) {
		case 0:
			return ""
		case 1:
			return "a"
		case 2:
			return r.Pick([]string{"'q'", `"q r"`, `"$n"`})
		case 3:
			return "~/"
		case 4:
			return r.Pick([]string{"$x", "$n", "$sp", "${x1}"})
		case 5:
			return "$((1+2))"
		case 6:
			return "{a,b}"
		case 7:
			return exp()
		case 8:
			return "a" + exp() + "-"
		default:
			return r.Pick([]string{"x=", "a.b", "-"})
		}
	}
	after := r.Pick([]string{"", "", "z", "$n", "'q'", exp(), "{1,2}", "-$x"})
	return before() + exp() + after
}

var c25UnqText = []string{"a", "b", "word", "x=1", "a.b", "/p/q", "-n", "a:b", "1", "a,b", "@", "%", "+", "^", "]", "a~b"}

func c25GenWords(r *Rand, rich bool) string {
	var sb strings.Builder
	nw := 1 + r.Intn(4)
	for w := 0; w < nw; w++ {
		if w > 0 {
			sb.WriteString(r.Pick([]string{" ", " ", "  ", "\t", " \t "}))
		}
		if r.Chance(14) {
			sb.WriteString(c25GenQuotedDefault(r))
			continue
		}
		if r.Chance(8) {
			sb.WriteString(r.Pick([]string{"~", "~/", "~/x", "~/a b"}))
		}
		np := 1 + r.Intn(3)
		for p := 0; p < np; p++ {
			switch k := r.Intn(24); {
			case k < 6:
				sb.WriteString(r.Pick(c25UnqText))
			case k < 9:
				sb.WriteString(r.Pick([]string{`\ `, `\$`, `\\`, `\a`, `\"`, `\'`, `\*`, `\~`, `\#`}))
			case k < 12:
				sb.WriteString("'" + r.Pick([]string{"", "a b", "$x", `\`, `"`, "*", " ", "a  b", "~"}) + "'")
			case k < 17:
				sb.WriteString(`"`)
				for i := r.Intn(3); i >= 0; i-- {
					switch j := r.Intn(10); {
					case j < 4:
						sb.WriteString(r.Pick([]string{"a", " ", "a b", "'", "*", "~", "", "#", "}", "  "}))
					case j < 8:
						sb.WriteString(c25GenExpansion(r, rich))
					default:
						sb.WriteString(r.Pick([]string{`\"`, `\\`, `\$`, `\a`, "\\`", `\$x`}))
					}
				}
				sb.WriteString(`"`)
			case k < 23:
				sb.WriteString(c25GenExpansion(r, rich))
			default:
				if rich {
					sb.WriteString(r.Pick([]string{"{a,b}", "{1..3}", "*", "?", "[a]", ";", "|", "&", "(", ")", "<", ">", "#c", "$'a\\tb'", "$\"x\"", "<(b)", "a=~/b", "~root", "~+", "!x", "{", "}"}))
				} else {
					sb.WriteString(r.Pick(c25UnqText))
				}
			}
		}
	}
	s := sb.String()
	if rich && r.Chance(10) {
		s = s[:r.Intn(len(s)+1)]
	}
	return s
}

// ---------- exclusion regions of the search leg ----------

var c25NameSet = func() map[string]bool {
	m := map[string]bool{}
	for _, n := range c25Names {
		m[n] = true
	}
	return m
}()

// c25Excl scans the string for constructs whose comparison with bash is excluded: by design of the
// API (command substitution, special parameters, assignments), because they belong to another
// property (arithmetic beyond + - *, C20), or because of a known finding of C25.
func c25Excl(cs c25Case, fields bool) string {
	s := cs.s
	env := cs.envFunc()
	if strings.ContainsAny(s, "\x00\r") || !utf8.ValidString(s) {
		return "nul-cr-invalid-utf8"
	}
	if strings.Contains(s, "`") {
		return "cmdsubst"
	}
	if strings.Contains(s, "\\\\\\\n") {
		return "continuation-after-backslashes" // three or more backslashes before a newline
	}
	cleanNum := func(v string) bool {
		if v == "" {
			return true
		}
		if len(v) > 6 || len(v) > 1 && v[0] == '0' {
			return false
		}
		for i := 0; i < len(v); i++ {
			if !c25Digit(v[i]) {
				return false
			}
		}
		return true
	}
	inDq := false
	for i := 0; i < len(s); i++ {
		if s[i] == '\\' {
			i++
			continue
		}
		if fields && s[i] == '"' {
			inDq = !inDq
			continue
		}
		if fields && inDq && s[i] != '$' {
			continue
		}
		if fields && s[i] == '\'' { // single quotes protect everything (Fields only)
			j := strings.IndexByte(s[i+1:], '\'')
			if j < 0 {
				break
			}
			i += j + 1
			continue
		}
		if fields && (s[i] == '<' || s[i] == '>') && i+1 < len(s) && s[i+1] == '(' {
			return "procsubst-panic"
		}
		if fields && s[i] == '~' && i > 0 && (s[i-1] == '=' || s[i-1] == ':') {
			return "tilde-after-equals"
		}
		if fields && s[i] == '~' && env("HOME") == "" && (i == 0 || strings.IndexByte(" \t\n", s[i-1]) >= 0) {
			return "tilde-no-home" // bash falls back to the password database
		}
		if fields && s[i] == '~' && i+1 < len(s) && strings.IndexByte("/ \t\n'\"$", s[i+1]) < 0 && (i == 0 || strings.IndexByte(" \t\n", s[i-1]) >= 0) {
			return "tilde-user" // ~name, ~+, ~-: depends on the system / on PWD
		}
		if s[i] != '$' || i+1 >= len(s) {
			continue
		}
		c := s[i+1]
		switch {
		case c == '(' && i+2 < len(s) && s[i+2] == '(':
			// arithmetic: up to the matching ))
			j := i + 3
			depth := 0
			for j < len(s) {
				if s[j] == '(' {
					depth++
				} else if s[j] == ')' {
					if depth == 0 {
						break
					}
					depth--
				}
				j++
			}
			body := s[i+3 : min(j, len(s))]
			for k := 0; k < len(body); k++ {
				b := body[k]
				if !(c25NameChar(b) || strings.IndexByte(" \t+-*()", b) >= 0) {
					return "arith-beyond-fragment"
				}
			}
			if strings.Contains(body, "++") || strings.Contains(body, "--") || strings.Contains(body, "**") || strings.TrimSpace(body) == "" {
				return "arith-beyond-fragment"
			}
			// literals and variable values must be clean decimals
			for k := 0; k < len(body); {
				if c25NameChar(body[k]) {
					l := k
					for l < len(body) && c25NameChar(body[l]) {
						l++
					}
					tok := body[k:l]
					if c25Digit(tok[0]) {
						if !cleanNum(tok) {
							return "arith-beyond-fragment"
						}
					} else {
						if !c25NameSet[tok] {
							return "foreign-name"
						}
						if !cleanNum(env(tok)) {
							return "arith-beyond-fragment"
						}
					}
					k = l
				} else {
					k++
				}
			}
		case c == '(':
			return "cmdsubst"
		case c == '[':
			return "arith-beyond-fragment"
		case c25Digit(c) || strings.IndexByte("@*#?$!-_", c) >= 0:
			if c == '_' && i+2 < len(s) && c25NameChar(s[i+2]) {
				// a name starting with _
				j := i + 1
				for j < len(s) && c25NameChar(s[j]) {
					j++
				}
				if !c25NameSet[s[i+1:j]] {
					return "foreign-name"
				}
				continue
			}
			return "special-param"
		case c25NameStart(c):
			j := i + 1
			for j < len(s) && c25NameChar(s[j]) {
				j++
			}
			if !c25NameSet[s[i+1:j]] {
				return "foreign-name"
			}
			if fields && !inDq && j < len(s) && s[j] == '{' {
				return "brace-after-param"
			}
		case c == '\'' || c == '"':
			if fields {
				return "dollar-quote" // $'…' / $"…": C13/C24 matters
			}
		case c == '{':
			j := i + 2
			if j < len(s) && s[j] == '!' {
				return "indirect-c21" // ${!x}: property C21 (C21-indirect-invalid-name …)
			}
			if j < len(s) && s[j] == '#' {
				j++
			}
			k := j
			for k < len(s) && c25NameChar(s[k]) {
				k++
			}
			if k == j {
				if k < len(s) && (c25Digit(s[k]) || strings.IndexByte("@*#?$!-", s[k]) >= 0) {
					return "special-param"
				}
				continue // `${}` and the like: syntax errors, compared
			}
			if !c25NameSet[s[j:k]] {
				return "foreign-name"
			}
			if k < len(s) && (s[k] == '=' || s[k] == ':' && k+1 < len(s) && s[k+1] == '=') {
				return "assign-op" // FuncEnviron is read-only by design
			}
			if k < len(s) && s[k] == '[' {
				return "special-param"
			}
			if k < len(s) && (s[k] == '#' || s[k] == '%') {
				continue // pattern removal: quotes and backslashes in the pattern are compared with bash
			}
			// the word of an operator, up to the matching brace
			if w := k; w < len(s) {
				if s[w] == ':' {
					w++
				}
				if w+1 < len(s) && strings.IndexByte("-+?", s[w]) >= 0 && s[w+1] == '~' {
					return "param-word-tilde"
				}
			}
			depth := 0
			for l := k; l < len(s); l++ {
				switch s[l] {
				case '\\':
					return "param-word-backslash"
				case '\'', '"':
					// The quotes findings (C25-param-word-quotes: kept by bash inside "…"/here-documents;
					// C25-param-word-quoted-split: quoted text split or an empty quoted string lost when
					// the expansion is unquoted) need one of: a quoting context, white space or emptiness
					// in the quoted text.  Everything else is compared.
					if !fields || inDq {
						return "param-word-quotes"
					}
					q := s[l]
					end := strings.IndexByte(s[l+1:], q)
					if end < 0 {
						return "param-word-quotes"
					}
					content := s[l+1 : l+1+end]
					if content == "" || strings.ContainsAny(content, " \t\n\\`") {
						return "param-word-quotes"
					}
					if q == '"' {
						// expansions inside the quotes: their values must be non-empty and free of blanks
						for m := 0; m < len(content); m++ {
							if content[m] != '$' {
								continue
							}
							n := m + 1
							if n < len(content) && content[n] == '{' {
								n++
							}
							e := n
							for e < len(content) && c25NameChar(content[e]) {
								e++
							}
							if e == n {
								return "param-word-quotes" // $(( )) and the like inside: keep it simple
							}
							v := env(content[n:e])
							if v == "" || strings.ContainsAny(v, " \t\n") {
								return "param-word-quotes"
							}
							if e < len(content) && content[e] != '}' && content[n-1] == '{' {
								return "param-word-quotes" // an operator inside
							}
						}
					}
					l += end + 1
				case '{':
					depth++
				case '}':
					if depth == 0 {
						l = len(s)
					} else {
						depth--
					}
				}
			}
		}
	}
	return ""
}

// ---------- bash oracles ----------

func c25Bash(c *Ctx, script string) (stdout string, status int, ok bool) {
	for try := 0; try < 4; try++ {
		dir := scratchDir(c)
		outPath := filepath.Join(dir, "out.txt")
		ctx, cancel := context.WithTimeout(context.Background(), 10*time.Second)
		cmd := exec.CommandContext(ctx, "bash", "--norc", "--noprofile", "-c", script, "sh")
		cmd.Dir = dir
		cmd.Env = []string{"PATH=/usr/bin:/bin", "LC_ALL=C.utf8"}
		outF, ferr := os.Create(outPath)
		if ferr != nil {
			cancel()
			os.RemoveAll(dir)
			continue
		}
		cmd.Stdout = outF
		cmd.WaitDelay = 2 * time.Second
		err := cmd.Run()
		outF.Close()
		ob, _ := os.ReadFile(outPath)
		timedOut := ctx.Err() != nil
		cancel()
		os.RemoveAll(dir)
		if timedOut {
			continue
		}
		st := 0
		if err != nil {
			ee, isExit := err.(*exec.ExitError)
			if !isExit {
				continue
			}
			st = ee.ExitCode()
		}
		return string(ob), st, true
	}
	return "", 0, false
}

func c25ShQuote(s string) string { return "'" + strings.ReplaceAll(s, "'", `'"'"'`) + "'" }

func c25Assignments(cs c25Case) string {
	var sb strings.Builder
	// empty means unset: only non-empty variables exist for bash
	sb.WriteString("unset " + strings.Join(c25Names, " ") + "\n")
	seen := map[string]bool{}
	for _, kv := range cs.env {
		if kv[1] != "" && !seen[kv[0]] {
			seen[kv[0]] = true
			sb.WriteString(kv[0] + "=" + c25ShQuote(kv[1]) + "\n")
		}
	}
	return sb.String()
}

// c25BashExpand: the string as here-document text.
func c25BashExpand(c *Ctx, cs c25Case) (string, bool) {
	delim := "EOF_C25"
	for strings.Contains(cs.s, delim) {
		delim += "_"
	}
	script := c25Assignments(cs) + "cat <<" + delim + "\n" + cs.s + "\n" + delim + "\n"
	out, st, ok := c25Bash(c, script)
	if !ok {
		return "", false
	}
	if st != 0 {
		return "err", true
	}
	return "ok " + hx(strings.TrimSuffix(out, "\n")), true
}

// c25BashFields: the string as the arguments of a function.
func c25BashFields(c *Ctx, cs c25Case) (string, bool) {
	script := c25Assignments(cs) + "set -f\nf() { printf '%s\\n' \"$#\"; printf '%s\\0' \"$@\"; }\nf " + cs.s + "\n"
	out, st, ok := c25Bash(c, script)
	if !ok {
		return "", false
	}
	if st != 0 {
		return "err", true
	}
	nl := strings.IndexByte(out, '\n')
	if nl < 0 {
		return "err", true
	}
	n, err := strconv.Atoi(out[:nl])
	if err != nil {
		return "err", true
	}
	parts := strings.Split(out[nl+1:], "\x00")
	if n == 0 {
		return "ok", true
	}
	if len(parts) < n {
		return "garbled " + hx(out), true
	}
	return strings.TrimSpace("ok " + hxs(parts[:n])), true
}

// ---------- the check ----------

type c25Job struct {
	cs     c25Case
	fields bool
	got    string
	excl   string
	corpus bool
	known  bool
}

func c25(c *Ctx) {
	c.Rule = "strings built from text chunks (quotes, braces, operators, newlines), backslash sequences, $name/${name}/" +
		"${name<op>word} (4 test operators; words with text, $name, ${name}), $(( )) over literals/names/+ - */parentheses, lone " +
		"dollars; a rich stream adds other operators, special parameters, command substitutions, globs, braces, tildes, truncation; " +
		"for Fields: 1–4 blank-separated words of bare text, \\c, '…', \"…\" and expansions; × environments over " +
		"{x y e u n m sp q HOME x1 _v} with empty, blank-containing and non-numeric values; non-trivial = the string has an expansion; distinct by exact tokens"
	debug := os.Getenv("C25_DEBUG") != ""
	var jobs []c25Job
	knownNext := false
	emit := func(cs c25Case, fields, corpus bool) {
		toks := cs.tokens()
		var got string
		kind := "ex"
		if fields {
			got, _ = c25Fields(cs)
			kind = "fl"
		} else {
			got = c25Expand(cs)
		}
		frag := 0
		if fields {
			frag = c25FragWords(cs.s, cs.envFunc())
		} else {
			frag = c25FragDoc(cs.s, cs.envFunc())
		}
		tags := []string{kind}
		if frag != 0 {
			tags = append(tags, kind+"-in-fragment")
			if fields {
				c.Op("fields "+toks, got)
			} else {
				c.Op("expand "+toks, got)
			}
		}
		if strings.HasPrefix(got, "err") || got == "panic" {
			tags = append(tags, kind+":"+strings.Fields(got)[0])
		}
		excl := c25Excl(cs, fields)
		if excl == "" && !fields && strings.Contains(cs.s, "\\\n") {
			// bash joins continuation lines first: the joined text must be free of excluded constructs
			// too (`$\<newline>$` is `$$`), and a continuation inside a `${` `$((` `))` token is a finding
			if c25ContRisk(cs.s) {
				excl = "continuation-inside-dollar-token"
			} else {
				excl = c25Excl(c25Case{s: c25BashJoin(cs.s), env: cs.env}, false)
			}
		}
		if excl != "" {
			tags = append(tags, "excl:"+excl)
		}
		if frag == 1 && excl == "" && strings.HasPrefix(got, "ok") {
			if fields {
				c.Op("specfields "+toks, got)
			} else {
				c.Op("specexpand "+toks, got)
			}
		}
		c.Case(kind+"|"+toks, strings.Contains(cs.s, "$"), tags...)
		if got == "panic" && excl == "" {
			c.Fail(kind+" "+toks, fmt.Sprintf("panic on %q", cs.s))
		}
		jobs = append(jobs, c25Job{cs: cs, fields: fields, got: got, excl: excl, corpus: corpus, known: corpus && knownNext})
	}
	for _, l := range c.CorpusLines() {
		// `known ex|fl …`: witness of an open finding, always compared; `ex|fl …`: seed or replayed input,
		// compared unless it lies in an exclusion region
		f := strings.Fields(l)
		known := len(f) > 0 && f[0] == "known"
		if known {
			f = f[1:]
		}
		if len(f) == 0 {
			continue
		}
		switch f[0] { // a replay file may carry op lines: same tokens
		case "expand", "specexpand":
			f[0] = "ex"
		case "fields", "specfields":
			f[0] = "fl"
		}
		if len(f) < 2 || (f[0] != "ex" && f[0] != "fl") {
			continue
		}
		if cs, ok := c25Parse(f[1:]); ok {
			knownNext = known
			emit(cs, f[0] == "fl", true)
		}
	}
	for i := 0; i < c.N; i++ {
		r := c.R
		rich := r.Chance(30)
		env := c25GenEnv(r)
		if r.Bool() {
			emit(c25Case{s: c25GenDoc(r, rich), env: env}, false, false)
		} else {
			emit(c25Case{s: c25GenWords(r, rich), env: env}, true, false)
		}
	}
	// search leg
	nshell := min(c.N/5, 500) // per shard
	var sel []int
	n := 0
	for i, j := range jobs {
		if j.fields && strings.Contains(j.cs.s, "\n") {
			continue // a newline would end the command line of the oracle
		}
		if strings.HasSuffix(j.cs.s, `\`) {
			k := len(j.cs.s) - len(strings.TrimRight(j.cs.s, `\`))
			if k%2 == 1 {
				continue // would continue onto the delimiter line
			}
		}
		if j.got == "err cmdsubst" || j.got == "err readonly" {
			continue
		}
		if j.known || j.corpus && j.excl == "" {
			sel = append(sel, i)
		} else if j.corpus {
			c.Hist["corpus-in-excluded-region"]++
		} else if j.excl == "" && n < nshell {
			sel = append(sel, i)
			n++
		}
	}
	type res struct {
		bash string
		ok   bool
	}
	results := parallelMap(len(sel), 4, func(k int) res {
		j := jobs[sel[k]]
		var r res
		if j.fields {
			r.bash, r.ok = c25BashFields(c, j.cs)
		} else {
			r.bash, r.ok = c25BashExpand(c, j.cs)
		}
		return r
	})
	nb := 0
	for k, idx := range sel {
		j := jobs[idx]
		r := results[k]
		if !r.ok {
			c.Hist["bash-unavailable"]++
			continue
		}
		nb++
		got := j.got
		if strings.HasPrefix(got, "err") {
			got = "err"
		}
		kind := "ex"
		if j.fields {
			kind = "fl"
			// a failed parse of a string with shell operators is not a statement about arguments
			if got == "err" && r.bash != "err" && strings.ContainsAny(j.cs.s, ";|&<>()#") {
				c.Hist["fl-operator-not-compared"]++
				continue
			}
		}
		if got != r.bash {
			witness := kind + " " + j.cs.tokens()
			what := fmt.Sprintf("shell.%s(%q) with env %q gives %s, bash gives %s", map[bool]string{false: "Expand", true: "Fields"}[j.fields], j.cs.s, j.cs.env, c25Show(j.got), c25Show(r.bash))
			c.Fail(witness, what)
			if debug {
				fmt.Printf("MISMATCH %s\n   %s\n", what, witness)
			}
		}
	}
	c.Extra["bash_runs"] = nb
	_ = sort.Strings
}

func c25Show(ans string) string {
	f := strings.Fields(ans)
	if len(f) == 0 || f[0] != "ok" {
		return ans
	}
	var parts []string
	for _, h := range f[1:] {
		parts = append(parts, strconv.Quote(unhx(h)))
	}
	return "[" + strings.Join(parts, " ") + "]"
}

// c25JoinLines: the lexer's rune-level line continuation (see joinLines in the Lean model).
func c25JoinLines(s string) string {
	var sb strings.Builder
	prevBS := false
	for i := 0; i < len(s); i++ {
		b := s[i]
		if b == '\\' {
			if !prevBS && i+1 < len(s) && s[i+1] == '\n' {
				i++
				prevBS = false
				continue
			}
			sb.WriteByte(b)
			prevBS = true
			continue
		}
		sb.WriteByte(b)
		prevBS = false
	}
	return sb.String()
}

// c25ContRisk: a line continuation (lexer rule) directly after `$`, `(` or `)` — twin of contRisk.
func c25ContRisk(s string) bool {
	prevBS := false
	var prev byte
	for i := 0; i < len(s); i++ {
		b := s[i]
		if b == '\\' && !prevBS && i+1 < len(s) && s[i+1] == '\n' {
			if prev == '$' || prev == '(' || prev == ')' {
				return true
			}
			i++
			prevBS = false
			continue
		}
		prevBS = b == '\\'
		prev = b
	}
	return false
}

// c25BashJoin: bash's removal of backslash-newline pairs in an unquoted here-document.
func c25BashJoin(s string) string {
	var sb strings.Builder
	for i := 0; i < len(s); i++ {
		if s[i] == '\\' && i+1 < len(s) {
			if s[i+1] == '\n' {
				i++
				continue
			}
			sb.WriteByte(s[i])
			i++
		}
		sb.WriteByte(s[i])
	}
	return sb.String()
}
