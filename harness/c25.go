//go:build c25 || all

package main

import (
	"context"
	"fmt"
	"os"
	"os/exec"
	"path/filepath"
	"sort"
	"strconv"
	"strings"
	"time"

	"mvdan.cc/sh/v3/shell"
)

// C25 — shell.Expand and shell.Fields behave like bash.
//
// A case is (string, environment).  Token form: `<hex string> <hex name>=<hex value>*`.
// Streams: `expand`, `fields`          model (parse + expand, shaped like the Go code) vs shell.Expand/Fields,
//                                      on strings of the fragment (c25FragDoc / c25FragWords)
//          `specexpand`, `specfields`  the Lean specifications hdocSem / argsSem vs the same answers,
//                                      outside the exclusion regions
// Search leg: `cat <<DELIM` with the string as body and the non-empty variables exported, resp.
// `f <string>` with `set -f`, in bash; witness `ex <tokens>` / `fl <tokens>`.
func init() { register("C25", c25) }

type c25Case struct {
	s   string
	env [][2]string
}

func (cs c25Case) tokens() string {
	out := []string{hx(cs.s)}
	for _, kv := range cs.env {
		out = append(out, hx(kv[0])+"="+hx(kv[1]))
	}
	return strings.Join(out, " ")
}

func c25Parse(f []string) (cs c25Case, ok bool) {
	defer func() {
		if recover() != nil {
			ok = false
		}
	}()
	if len(f) < 1 {
		return cs, false
	}
	cs.s = unhx(f[0])
	for _, t := range f[1:] {
		a, b, found := strings.Cut(t, "=")
		if !found {
			return cs, false
		}
		cs.env = append(cs.env, [2]string{unhx(a), unhx(b)})
	}
	return cs, true
}

func (cs c25Case) envFunc() func(string) string {
	return func(name string) string {
		for _, kv := range cs.env {
			if kv[0] == name {
				return kv[1]
			}
		}
		return ""
	}
}

func c25ErrClass(err error) string {
	msg := err.Error()
	switch {
	case strings.Contains(msg, "unexpected command substitution"):
		return "err cmdsubst"
	case strings.Contains(msg, "read-only"):
		return "err readonly"
	}
	// syntax errors carry a position "line:col: "
	if i := strings.Index(msg, ": "); i > 0 && strings.Count(msg[:i], ":") == 1 {
		if _, e := strconv.Atoi(msg[:strings.Index(msg, ":")]); e == nil {
			return "err"
		}
	}
	return "err other " + hx(msg)
}

func c25Expand(cs c25Case) string {
	var out string
	var err error
	if p := safely(func() { out, err = shell.Expand(cs.s, cs.envFunc()) }); p != "" {
		return "panic"
	}
	if err != nil {
		return c25ErrClass(err)
	}
	return "ok " + hx(out)
}

func c25Fields(cs c25Case) (string, []string) {
	var out []string
	var err error
	if p := safely(func() { out, err = shell.Fields(cs.s, cs.envFunc()) }); p != "" {
		return "panic", nil
	}
	if err != nil {
		return c25ErrClass(err), nil
	}
	return strings.TrimSpace("ok " + hxs(out)), out
}

// ---------- the fragment (twin of the Lean parsers: accepts ⇒ the model does not answer `outside`) ----------

func c25NameStart(b byte) bool { return 'A' <= b && b <= 'Z' || 'a' <= b && b <= 'z' || b == '_' }
func c25NameChar(b byte) bool  { return c25NameStart(b) || '0' <= b && b <= '9' }
func c25Digit(b byte) bool     { return '0' <= b && b <= '9' }

type c25Frag struct {
	env   func(string) string
	arith bool // saw $(( )) — variables used there must hold small decimal literals
	bad   bool
}

func (f *c25Frag) takeName(s string, i int) int {
	for i < len(s) && c25NameChar(s[i]) {
		i++
	}
	return i
}

// word of ${n<op>word}: returns the index after the closing brace, or -1 (outside), -2 (syntax error)
func (f *c25Frag) word(s string, i int) int {
	for i < len(s) {
		b := s[i]
		switch {
		case b == '}':
			return i + 1
		case b == '$':
			if i+1 >= len(s) {
				return -1
			}
			c := s[i+1]
			switch {
			case c25NameStart(c):
				i = f.takeName(s, i+1)
			case c == '{':
				if i+2 >= len(s) || !c25NameStart(s[i+2]) {
					return -1
				}
				j := f.takeName(s, i+2)
				if j >= len(s) {
					return -2
				}
				if s[j] != '}' {
					return -1
				}
				i = j + 1
			default:
				return -1
			}
		case strings.IndexByte("\\`'\"{\x00\r", b) >= 0:
			return -1
		default:
			i++
		}
	}
	return -2
}

// arithmetic after `$((`: index after `))`, or -1/-2
func (f *c25Frag) arithm(s string, i int) int {
	depth := 0
	ntok := 0
	for i < len(s) {
		b := s[i]
		switch {
		case b == ' ' || b == '\t':
			i++
		case c25Digit(b):
			j := i
			for j < len(s) && c25Digit(s[j]) {
				j++
			}
			if j-i > 1 && s[i] == '0' || j-i > 6 {
				return -1
			}
			if j < len(s) && c25NameStart(s[j]) {
				return -1
			}
			i = j
			ntok++
		case c25NameStart(b):
			j := f.takeName(s, i)
			v := f.env(s[i:j])
			if v != "" {
				ok := len(v) <= 6 && !(len(v) > 1 && v[0] == '0')
				for k := 0; k < len(v); k++ {
					if !c25Digit(v[k]) {
						ok = false
					}
				}
				if !ok {
					return -1
				}
			}
			i = j
			ntok++
		case b == '+' || b == '-' || b == '*':
			if i+1 < len(s) && s[i+1] == b {
				return -1
			}
			i++
			ntok++
		case b == '(':
			depth++
			i++
			ntok++
		case b == ')':
			if depth > 0 {
				depth--
				i++
				ntok++
				continue
			}
			if i+1 >= len(s) {
				return -2
			}
			if s[i+1] != ')' {
				return -1
			}
			if ntok == 0 {
				return -1
			}
			return i + 2
		default:
			return -1
		}
	}
	return -2
}

// after a `$` at s[i-1]: (next index, kind) kind 0 literal dollar, 1 expansion, -1 outside, -2 error
func (f *c25Frag) dollar(s string, i int) (int, int) {
	if i >= len(s) {
		return i, 0
	}
	c := s[i]
	switch {
	case c25NameStart(c):
		return f.takeName(s, i), 1
	case c == '{':
		if i+1 >= len(s) {
			return 0, -2
		}
		d := s[i+1]
		if d == '}' {
			return 0, -2
		}
		if !c25NameStart(d) {
			return 0, -1
		}
		j := f.takeName(s, i+1)
		if j >= len(s) {
			return 0, -2
		}
		switch {
		case s[j] == '}':
			return j + 1, 1
		case s[j] == ':' && j+1 < len(s) && (s[j+1] == '-' || s[j+1] == '+'):
			j += 2
		case s[j] == '-' || s[j] == '+':
			j++
		default:
			return 0, -1
		}
		k := f.word(s, j)
		if k < 0 {
			return 0, k
		}
		return k, 1
	case c == '(':
		if i+1 < len(s) && s[i+1] == '(' {
			k := f.arithm(s, i+2)
			if k < 0 {
				return 0, k
			}
			return k, 1
		}
		return 0, -1
	case c25Digit(c) || strings.IndexByte("@*#?$!-[", c) >= 0:
		return 0, -1
	}
	return i, 0
}

// c25FragDoc: 1 inside the fragment and well formed, 2 inside and a syntax error, 0 outside.
func c25FragDoc(s string, env func(string) string) int {
	f := &c25Frag{env: env}
	i := 0
	for i < len(s) {
		b := s[i]
		switch {
		case b == 0 || b == '\r' || b == '`':
			return 0
		case b == '\\':
			if i+1 >= len(s) {
				i++
				continue
			}
			if s[i+1] == 0 || s[i+1] == '\r' {
				return 0
			}
			i += 2
		case b == '$':
			j, k := f.dollar(s, i+1)
			switch k {
			case -1:
				return 0
			case -2:
				return 2
			}
			i = j
		default:
			i++
		}
	}
	return 1
}

func c25PlainUnq(b byte) bool {
	return c25NameChar(b) || strings.IndexByte("./:,@%+-~]^=", b) >= 0
}

// c25FragWords: same for Parser.WordsSeq.
func c25FragWords(s string, env func(string) string) int {
	if env("IFS") != "" {
		return 0
	}
	f := &c25Frag{env: env}
	i := 0
	wordStart := true
	for i < len(s) {
		b := s[i]
		switch {
		case b == ' ' || b == '\t' || b == '\n':
			wordStart = true
			i++
			continue
		case b == '\\':
			if i+1 >= len(s) {
				i++
				break
			}
			if s[i+1] == '\n' || s[i+1] == 0 || s[i+1] == '\r' {
				return 0
			}
			i += 2
		case b == '\'':
			j := strings.IndexByte(s[i+1:], '\'')
			if j < 0 {
				return 2
			}
			if strings.ContainsAny(s[i+1:i+1+j], "\x00\r") {
				return 0
			}
			i += j + 2
		case b == '"':
			i++
			closed := false
			for i < len(s) && !closed {
				c := s[i]
				switch {
				case c == '"':
					closed = true
					i++
				case c == 0 || c == '\r' || c == '`':
					return 0
				case c == '\\':
					if i+1 >= len(s) {
						return 2
					}
					if s[i+1] == '\n' || s[i+1] == 0 || s[i+1] == '\r' {
						return 0
					}
					i += 2
				case c == '$':
					j, k := f.dollar(s, i+1)
					switch k {
					case -1:
						return 0
					case -2:
						return 2
					}
					i = j
				default:
					i++
				}
			}
			if !closed {
				return 2
			}
		case b == '$':
			if i+1 < len(s) && (s[i+1] == '\'' || s[i+1] == '"') {
				return 0
			}
			j, k := f.dollar(s, i+1)
			switch k {
			case -1:
				return 0
			case -2:
				return 2
			}
			i = j
		case c25PlainUnq(b):
			if b == '~' {
				if !wordStart {
					return 0
				}
				if i+1 < len(s) && strings.IndexByte("/ \t\n'\"$", s[i+1]) < 0 {
					return 0
				}
			}
			i++
		default:
			return 0
		}
		wordStart = false
	}
	return 1
}

// ---------- generators ----------

var c25Names = []string{"x", "y", "e", "u", "n", "m", "sp", "q", "HOME", "x1", "_v"}

func c25GenEnv(r *Rand) [][2]string {
	var env [][2]string
	add := func(k, v string) { env = append(env, [2]string{k, v}) }
	add("x", r.Pick([]string{"val", "a", "X y", "val"}))
	if r.Chance(70) {
		add("y", r.Pick([]string{"a b", "b", "  two  words ", "y\ty", "line1\nline2"}))
	}
	if r.Chance(50) {
		add("e", "") // explicitly empty: must behave as unset
	}
	add("n", r.Pick([]string{"5", "12", "0", "007", "5", "3x"}))
	if r.Chance(60) {
		add("m", r.Pick([]string{"7", "100", "999999"}))
	}
	if r.Chance(60) {
		add("sp", r.Pick([]string{" a  b ", "a b c", " ", "a\nb"}))
	}
	if r.Chance(40) {
		add("q", r.Pick([]string{"it's", `say "hi"`, `back\slash`, "$x", "*", "~", "a{b,c}"}))
	}
	if r.Chance(70) {
		add("HOME", r.Pick([]string{"/home/u", "/h m", "/"}))
	}
	if r.Chance(30) {
		add("x1", "one")
	}
	if r.Chance(30) {
		add("_v", "under")
	}
	return env
}

func c25GenWordOfOp(r *Rand, rich bool) string {
	var sb strings.Builder
	n := r.Intn(4)
	for i := 0; i < n; i++ {
		switch k := r.Intn(12); {
		case k < 5:
			sb.WriteString(r.Pick([]string{"d", "def", "a b", " ", "-", "x y", ":", "1", "/p", "*", "~"}))
		case k < 7:
			sb.WriteString("$" + r.Pick(c25Names))
		case k < 8:
			sb.WriteString("${" + r.Pick(c25Names) + "}")
		case k < 9 && rich:
			sb.WriteString(r.Pick([]string{"'s q'", `"d q"`, `\}`, `\\`, `\$x`, "{", "a\\ b"}))
		default:
			sb.WriteString(r.Pick([]string{"w", "z"}))
		}
	}
	return sb.String()
}

func c25GenArith(r *Rand, depth int) string {
	atom := func() string {
		switch k := r.Intn(10); {
		case k < 5:
			return strconv.Itoa(r.Intn(100))
		case k < 7:
			return r.Pick([]string{"n", "m", "u", "e"})
		case k < 8 && depth < 2:
			return "(" + c25GenArith(r, depth+1) + ")"
		case k < 9:
			return "-" + strconv.Itoa(r.Intn(20))
		default:
			return strconv.Itoa(r.Intn(100000))
		}
	}
	s := atom()
	for i := r.Intn(3); i > 0; i-- {
		op := r.Pick([]string{"+", "-", "*", " + ", " - ", " * "})
		s += op + atom()
	}
	if r.Chance(15) {
		s = " " + s + " "
	}
	return s
}

func c25GenExpansion(r *Rand, rich bool) string {
	switch k := r.Intn(20); {
	case k < 6:
		return "$" + r.Pick(c25Names)
	case k < 10:
		return "${" + r.Pick(c25Names) + "}"
	case k < 16:
		return "${" + r.Pick(c25Names) + r.Pick([]string{":-", "-", ":+", "+"}) + c25GenWordOfOp(r, rich) + "}"
	case k < 19:
		return "$((" + c25GenArith(r, 0) + "))"
	default:
		if rich {
			return r.Pick([]string{"${#x}", "${x%l}", "${x:1}", "${u:=d}", "${u:?msg}", "$[1+2]", "$((2**3))", "$((n++))", "$(echo hi)", "`echo`", "$1", "$@", "$#", "$?", "${x/a/b}", "${!x}", "$((08))", "$((0x10))", "$((1/0))", "$(( ))"})
		}
		return "$" + r.Pick(c25Names)
	}
}

var c25DocText = []string{"a", "b", " ", " ", "\n", "word", "'", "\"", "#", "{", "}", "(", ")", "*", "~", ";", "|", "&", "<", ">", "=", ":", "-", "é", "\t", "q'x'", "\"dq\""}
var c25DocEsc = []string{`\$`, `\\`, "\\`", `\a`, `\"`, "\\\n", `\'`, `\ `, `\{`, `\}`, `\$x`, `\\$x`, `\\\$`}

func c25GenDoc(r *Rand, rich bool) string {
	var sb strings.Builder
	n := 1 + r.Intn(6)
	for i := 0; i < n; i++ {
		switch k := r.Intn(20); {
		case k < 8:
			sb.WriteString(r.Pick(c25DocText))
		case k < 15:
			sb.WriteString(c25GenExpansion(r, rich))
		case k < 18:
			sb.WriteString(r.Pick(c25DocEsc))
		default:
			sb.WriteString(r.Pick([]string{"$", "$ ", "$.", "$\"", "$'", "$}", "x$"}))
		}
	}
	s := sb.String()
	if rich && r.Chance(12) { // malformed: cut somewhere
		s = s[:r.Intn(len(s)+1)]
	}
	return s
}

var c25UnqText = []string{"a", "b", "word", "x=1", "a.b", "/p/q", "-n", "a:b", "1", "a,b", "@", "%", "+", "^", "]", "a~b"}

func c25GenWords(r *Rand, rich bool) string {
	var sb strings.Builder
	nw := 1 + r.Intn(4)
	for w := 0; w < nw; w++ {
		if w > 0 {
			sb.WriteString(r.Pick([]string{" ", " ", "  ", "\t", " \t "}))
		}
		if r.Chance(8) {
			sb.WriteString(r.Pick([]string{"~", "~/", "~/x", "~/a b"}))
		}
		np := 1 + r.Intn(3)
		for p := 0; p < np; p++ {
			switch k := r.Intn(24); {
			case k < 6:
				sb.WriteString(r.Pick(c25UnqText))
			case k < 9:
				sb.WriteString(r.Pick([]string{`\ `, `\$`, `\\`, `\a`, `\"`, `\'`, `\*`, `\~`, `\#`}))
			case k < 12:
				sb.WriteString("'" + r.Pick([]string{"", "a b", "$x", `\`, `"`, "*", " ", "a  b", "~"}) + "'")
			case k < 17:
				sb.WriteString(`"`)
				for i := r.Intn(3); i >= 0; i-- {
					switch j := r.Intn(10); {
					case j < 4:
						sb.WriteString(r.Pick([]string{"a", " ", "a b", "'", "*", "~", "", "#", "}", "  "}))
					case j < 8:
						sb.WriteString(c25GenExpansion(r, rich))
					default:
						sb.WriteString(r.Pick([]string{`\"`, `\\`, `\$`, `\a`, "\\`", `\$x`}))
					}
				}
				sb.WriteString(`"`)
			case k < 23:
				sb.WriteString(c25GenExpansion(r, rich))
			default:
				if rich {
					sb.WriteString(r.Pick([]string{"{a,b}", "{1..3}", "*", "?", "[a]", ";", "|", "&", "(", ")", "<", ">", "#c", "$'a\\tb'", "$\"x\"", "<(b)", "a=~/b", "~root", "~+", "!x", "{", "}"}))
				} else {
					sb.WriteString(r.Pick(c25UnqText))
				}
			}
		}
	}
	s := sb.String()
	if rich && r.Chance(10) {
		s = s[:r.Intn(len(s)+1)]
	}
	return s
}
