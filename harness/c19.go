//go:build c19 || all

package main

import (
	"context"
	"errors"
	"fmt"
	"io/fs"
	"os"
	"os/exec"
	"path/filepath"
	"sort"
	"strconv"
	"strings"
	"syscall"
	"time"

	"mvdan.cc/sh/v3/expand"
	"mvdan.cc/sh/v3/pattern"
	"mvdan.cc/sh/v3/syntax"
)

// C19 — Pathname expansion matches bash.
//
// A case is (options, PWD, directory tree, variable values, word).  Token form (ops, corpus, witnesses):
//   <opts> <pwd-hex> <tree>* -- <X<hex>>* -- <seg>*
//   opts: bit0 dotglob, 1 nullglob, 2 globstar, 3 nocaseglob, 4 extglob, 5 noglob (set -f)
//   tree (children of the root `/`, pre-order): D<hex-name> … E   F<hex-name>   L<hex-name>:<hex-target>
//   seg:  u<hex> unquoted literal (source text, backslashes in)   s<hex> 'single quoted'
//         d<hex> "double quoted" (source text)   p<i> unquoted ${v<i>}   g<hex> extended glob @(…) text
// Streams: `fields`     model of FieldsSeq/wordFields/escapedGlobField/glob/globDir over the in-memory tree
//                       vs expand.Fields with Config.ReadDir2 backed by the same in-memory tree
//          `specfields` the Lean specification (bash's componentwise reading) vs the same answer,
//                       outside the exclusion regions only
//          `clean`      model of filepath.Clean vs the real one
// Search leg: the tree materialised under a scratch directory, `printf '%s\n' <word>` run by interp and
// by bash there (LC_ALL=C pinned in the script); witness `sh <tokens>`.
func init() { register("C19", c19) }

const (
	c19Dot = 1 << iota
	c19Null
	c19Star
	c19NoCase
	c19Ext
	c19NoGlob
)

type c19Node struct {
	kind   byte // 'd' 'f' 'l'
	target string
	names  []string
	kids   map[string]*c19Node
}

func c19Dir() *c19Node { return &c19Node{kind: 'd', kids: map[string]*c19Node{}} }

func (n *c19Node) add(name string, k *c19Node) bool {
	if n.kind != 'd' || name == "" || name == "." || name == ".." || strings.ContainsAny(name, "/\x00") {
		return false
	}
	if _, dup := n.kids[name]; dup {
		return false
	}
	n.kids[name] = k
	n.names = append(n.names, name)
	sort.Strings(n.names)
	return true
}

type c19Seg struct {
	kind byte // u s d p g
	val  string
	idx  int
}

type c19Case struct {
	opts int
	pwd  string
	root *c19Node
	vars []string
	segs []c19Seg
}

// ---------- tokens ----------

func c19TreeTokens(n *c19Node, out *[]string) {
	for _, name := range n.names {
		k := n.kids[name]
		switch k.kind {
		case 'd':
			*out = append(*out, "D"+hx(name))
			c19TreeTokens(k, out)
			*out = append(*out, "E")
		case 'f':
			*out = append(*out, "F"+hx(name))
		case 'l':
			*out = append(*out, "L"+hx(name)+":"+hx(k.target))
		}
	}
}

func c19Tokens(cs c19Case) string {
	out := []string{strconv.Itoa(cs.opts), hx(cs.pwd)}
	c19TreeTokens(cs.root, &out)
	out = append(out, "--")
	for _, v := range cs.vars {
		out = append(out, "X"+hx(v))
	}
	out = append(out, "--")
	for _, s := range cs.segs {
		if s.kind == 'p' {
			out = append(out, "p"+strconv.Itoa(s.idx))
		} else {
			out = append(out, string(s.kind)+hx(s.val))
		}
	}
	return strings.Join(out, " ")
}

func c19ParseTokens(f []string) (cs c19Case, ok bool) {
	defer func() {
		if recover() != nil {
			ok = false
		}
	}()
	if len(f) < 4 {
		return cs, false
	}
	o, err := strconv.Atoi(f[0])
	if err != nil {
		return cs, false
	}
	cs.opts = o
	cs.pwd = unhx(f[1])
	cs.root = c19Dir()
	stack := []*c19Node{cs.root}
	i := 2
	for ; i < len(f) && f[i] != "--"; i++ {
		t := f[i]
		top := stack[len(stack)-1]
		switch t[0] {
		case 'D':
			d := c19Dir()
			if !top.add(unhx(t[1:]), d) {
				return cs, false
			}
			stack = append(stack, d)
		case 'E':
			if len(stack) < 2 {
				return cs, false
			}
			stack = stack[:len(stack)-1]
		case 'F':
			if !top.add(unhx(t[1:]), &c19Node{kind: 'f'}) {
				return cs, false
			}
		case 'L':
			a, b, found := strings.Cut(t[1:], ":")
			if !found || !top.add(unhx(a), &c19Node{kind: 'l', target: unhx(b)}) {
				return cs, false
			}
		default:
			return cs, false
		}
	}
	if i >= len(f) || len(stack) != 1 {
		return cs, false
	}
	for i++; i < len(f) && f[i] != "--"; i++ {
		if f[i][0] != 'X' {
			return cs, false
		}
		cs.vars = append(cs.vars, unhx(f[i][1:]))
	}
	if i >= len(f) {
		return cs, false
	}
	for i++; i < len(f); i++ {
		t := f[i]
		switch t[0] {
		case 'u', 's', 'd', 'g':
			cs.segs = append(cs.segs, c19Seg{kind: t[0], val: unhx(t[1:])})
		case 'p':
			k, err := strconv.Atoi(t[1:])
			if err != nil || k < 0 || k >= len(cs.vars) {
				return cs, false
			}
			cs.segs = append(cs.segs, c19Seg{kind: 'p', idx: k})
		default:
			return cs, false
		}
	}
	return cs, true
}

// ---------- in-memory file system (kernel-style path resolution) ----------

type c19FS struct {
	root    *c19Node
	escaped bool // `..` was applied to the root: the scratch-directory image would differ
	calls   int
}

type c19Ent struct {
	name string
	n    *c19Node
}

func (e c19Ent) Name() string { return e.name }
func (e c19Ent) IsDir() bool  { return e.n.kind == 'd' }
func (e c19Ent) Type() fs.FileMode {
	switch e.n.kind {
	case 'd':
		return fs.ModeDir
	case 'l':
		return fs.ModeSymlink
	}
	return 0
}
func (e c19Ent) Info() (fs.FileInfo, error) { return nil, errors.New("c19: no FileInfo") }

var (
	c19ErrNoEnt  = &fs.PathError{Op: "open", Path: "x", Err: syscall.ENOENT}
	c19ErrNotDir = &fs.PathError{Op: "readdirent", Path: "x", Err: syscall.ENOTDIR}
	c19ErrLoop   = &fs.PathError{Op: "open", Path: "x", Err: syscall.ELOOP}
)

// resolve follows every symbolic link (also a final one), like open(2).
func (m *c19FS) resolve(path string) (*c19Node, error) {
	if !strings.HasPrefix(path, "/") {
		return nil, c19ErrNoEnt
	}
	stack := []*c19Node{m.root}
	comps := strings.Split(path, "/")
	links := 0
	for len(comps) > 0 {
		c := comps[0]
		comps = comps[1:]
		top := stack[len(stack)-1]
		if top.kind != 'd' {
			return nil, c19ErrNotDir
		}
		switch c {
		case "", ".":
		case "..":
			if len(stack) > 1 {
				stack = stack[:len(stack)-1]
			} else {
				m.escaped = true
			}
		default:
			k, ok := top.kids[c]
			if !ok {
				return nil, c19ErrNoEnt
			}
			if k.kind == 'l' {
				links++
				if links > 40 {
					return nil, c19ErrLoop
				}
				if k.target == "" {
					return nil, c19ErrNoEnt
				}
				if strings.HasPrefix(k.target, "/") {
					stack = stack[:1]
				}
				comps = append(strings.Split(k.target, "/"), comps...)
			} else {
				stack = append(stack, k)
			}
		}
	}
	return stack[len(stack)-1], nil
}

func (m *c19FS) ReadDir2(path string) ([]fs.DirEntry, error) {
	m.calls++
	n, err := m.resolve(path)
	if err != nil {
		return nil, err
	}
	if n.kind != 'd' {
		return nil, c19ErrNotDir
	}
	out := make([]fs.DirEntry, 0, len(n.names))
	for _, name := range n.names {
		out = append(out, c19Ent{name, n.kids[name]})
	}
	return out, nil
}

// c19Cyclic reports whether following symbolic links from the root can revisit a directory that is
// already on the current chain (then `**` would not terminate before ELOOP).
func c19Cyclic(root *c19Node) bool {
	m := &c19FS{root: root}
	var visit func(path string, n *c19Node, chain map[*c19Node]bool, depth int) bool
	visit = func(path string, n *c19Node, chain map[*c19Node]bool, depth int) bool {
		if depth > 24 {
			return true
		}
		for _, name := range n.names {
			k := n.kids[name]
			p := path + "/" + name
			if k.kind == 'l' {
				t, err := m.resolve(p)
				if err != nil || t.kind != 'd' {
					continue
				}
				k = t
			}
			if k.kind != 'd' {
				continue
			}
			if chain[k] {
				return true
			}
			chain[k] = true
			cyc := visit(p, k, chain, depth+1)
			delete(chain, k)
			if cyc {
				return true
			}
		}
		return false
	}
	return visit("", root, map[*c19Node]bool{root: true}, 0)
}

// ---------- the word ----------

// c19Source renders the word as shell source; ok=false if the segments cannot be written.
func c19Source(cs c19Case) (string, bool) {
	var sb strings.Builder
	for i, s := range cs.segs {
		switch s.kind {
		case 'u':
			if s.val == "" {
				return "", false
			}
			sb.WriteString(s.val)
		case 's':
			if strings.Contains(s.val, "'") {
				return "", false
			}
			sb.WriteString("'" + s.val + "'")
		case 'd':
			sb.WriteString(`"` + s.val + `"`)
		case 'p':
			_ = i
			sb.WriteString("${v" + strconv.Itoa(s.idx) + "}")
		case 'g':
			sb.WriteString(s.val)
		}
	}
	return sb.String(), true
}

// c19Word parses the rendered word and checks that the parser read it as the intended segments.
func c19Word(cs *c19Case) (*syntax.Word, bool) {
	src, ok := c19Source(*cs)
	if !ok || src == "" {
		return nil, false
	}
	var w *syntax.Word
	p := safely(func() {
		f, err := syntax.NewParser(syntax.Variant(syntax.LangBash)).Parse(strings.NewReader("x "+src+"\n"), "")
		if err != nil || len(f.Stmts) != 1 {
			return
		}
		ce, isCall := f.Stmts[0].Cmd.(*syntax.CallExpr)
		if !isCall || len(ce.Args) != 2 || len(f.Stmts[0].Redirs) != 0 || f.Stmts[0].Background || f.Stmts[0].Negated {
			return
		}
		w = ce.Args[1]
	})
	if p != "" || w == nil {
		return nil, false
	}
	// merge adjacent unquoted segments the way the parser does
	var want []c19Seg
	for _, s := range cs.segs {
		if s.kind == 'u' && len(want) > 0 && want[len(want)-1].kind == 'u' {
			want[len(want)-1].val += s.val
			continue
		}
		want = append(want, s)
	}
	// the parser may cut one unquoted literal into several Lit parts (`a[1]` is "a" + "[1]"): accept
	// that, and hand the model the segmentation the parser produced
	var actual []c19Seg
	k := 0
	for i := 0; i < len(want); i++ {
		s := want[i]
		if k >= len(w.Parts) {
			return nil, false
		}
		switch wp := w.Parts[k].(type) {
		case *syntax.Lit:
			if s.kind != 'u' {
				return nil, false
			}
			acc := ""
			for k < len(w.Parts) && acc != s.val {
				l, isLit := w.Parts[k].(*syntax.Lit)
				if !isLit || !strings.HasPrefix(s.val, acc+l.Value) || l.Value == "" {
					return nil, false
				}
				acc += l.Value
				actual = append(actual, c19Seg{kind: 'u', val: l.Value})
				k++
			}
			if acc != s.val {
				return nil, false
			}
			continue
		case *syntax.SglQuoted:
			if s.kind != 's' || wp.Dollar || wp.Value != s.val {
				return nil, false
			}
		case *syntax.DblQuoted:
			if s.kind != 'd' || wp.Dollar {
				return nil, false
			}
			switch len(wp.Parts) {
			case 0:
				if s.val != "" {
					return nil, false
				}
			case 1:
				l, isLit := wp.Parts[0].(*syntax.Lit)
				if !isLit || l.Value != s.val {
					return nil, false
				}
			default:
				return nil, false
			}
		case *syntax.ParamExp:
			if s.kind != 'p' || wp.Param == nil || wp.Param.Value != "v"+strconv.Itoa(s.idx) ||
				wp.Excl || wp.Length || wp.Width || wp.Index != nil || wp.Slice != nil || wp.Repl != nil || wp.Exp != nil || wp.Names != 0 {
				return nil, false
			}
		case *syntax.ExtGlob:
			if s.kind != 'g' || wp.Op.String()+wp.Pattern.Value+")" != s.val {
				return nil, false
			}
		default:
			return nil, false
		}
		actual = append(actual, s)
		k++
	}
	if k != len(w.Parts) {
		return nil, false
	}
	cs.segs = actual
	return w, true
}

// c19Impl runs expand.Fields on the word with ReadDir2 backed by the in-memory tree.
func c19Impl(cs c19Case, w *syntax.Word) (answer string, fields []string, fsys *c19FS) {
	fsys = &c19FS{root: cs.root}
	env := []string{"PWD=" + cs.pwd}
	for i, v := range cs.vars {
		env = append(env, "v"+strconv.Itoa(i)+"="+v)
	}
	cfg := &expand.Config{
		Env:        expand.ListEnviron(env...),
		GlobStar:   cs.opts&c19Star != 0,
		DotGlob:    cs.opts&c19Dot != 0,
		NoCaseGlob: cs.opts&c19NoCase != 0,
		NullGlob:   cs.opts&c19Null != 0,
		ExtGlob:    cs.opts&c19Ext != 0,
	}
	if cs.opts&c19NoGlob == 0 {
		cfg.ReadDir2 = fsys.ReadDir2
	}
	var err error
	p := safely(func() { fields, err = expand.Fields(cfg, w) })
	switch {
	case p != "":
		return "panic", nil, fsys
	case err != nil:
		msg := err.Error()
		switch {
		case strings.Contains(msg, "extended globbing operator used without"):
			return "err extglob-off", nil, fsys
		case strings.Contains(msg, "extglob"):
			return "err negext-unsupported", nil, fsys
		case errors.Is(err, syscall.ENOENT):
			return "err readdir-noent", nil, fsys
		case errors.Is(err, syscall.ENOTDIR):
			return "err readdir-notdir", nil, fsys
		case errors.Is(err, syscall.ELOOP):
			return "err readdir-loop", nil, fsys
		}
		return "err other " + hx(msg), nil, fsys
	}
	return strings.TrimSpace("ok " + hxs(fields)), fields, fsys
}

// ---------- the scratch-directory image and the shell runs ----------

func c19Materialise(dir string, n *c19Node, rootDir string) error {
	for _, name := range n.names {
		k := n.kids[name]
		p := filepath.Join(dir, name)
		switch k.kind {
		case 'd':
			if err := os.Mkdir(p, 0o755); err != nil {
				return err
			}
			if err := c19Materialise(p, k, rootDir); err != nil {
				return err
			}
		case 'f':
			if err := os.WriteFile(p, nil, 0o644); err != nil {
				return err
			}
		case 'l':
			t := k.target
			if strings.HasPrefix(t, "/") {
				t = rootDir + t
			}
			if err := os.Symlink(t, p); err != nil {
				return err
			}
		}
	}
	return nil
}

// c19SglQuote quotes a variable value for an assignment (never `'\''`: unquoted backslashes in
// assignments are finding C22-assign-backslash).
func c19SglQuote(s string) string {
	if !strings.Contains(s, "'") {
		return "'" + s + "'"
	}
	var sb strings.Builder
	sb.WriteByte('"')
	for i := 0; i < len(s); i++ {
		if strings.IndexByte("\"\\$`", s[i]) >= 0 {
			sb.WriteByte('\\')
		}
		sb.WriteByte(s[i])
	}
	sb.WriteByte('"')
	return sb.String()
}

func c19Script(cs c19Case, src string, rootDir string) string {
	var sb strings.Builder
	sb.WriteString("LC_ALL=C\n")
	names := []string{"dotglob", "nullglob", "globstar", "nocaseglob", "extglob"}
	var on []string
	for i, n := range names {
		if cs.opts&(1<<i) != 0 {
			on = append(on, n)
		}
	}
	if len(on) > 0 {
		sb.WriteString("shopt -s " + strings.Join(on, " ") + "\n")
	}
	if cs.opts&c19NoGlob != 0 {
		sb.WriteString("set -f\n")
	}
	for i, v := range cs.vars {
		sb.WriteString("v" + strconv.Itoa(i) + "=" + c19SglQuote(v) + "\n")
	}
	if rootDir != "" {
		// absolute words: the model's root is the scratch directory
		sb.WriteString("printf '%s\\n' " + rootDir + src + "\n")
	} else {
		sb.WriteString("printf '%s\\n' " + src + "\n")
	}
	return sb.String()
}

type c19Run struct {
	interp, bash string // canonical: lines joined by \x00, or "timeout"/"unavailable"
}

func c19CanonOut(res ShellResult, rootDir string, abs bool) string {
	if res.Panic != "" {
		return "panic: " + res.Panic
	}
	if res.TimedOut {
		return "timeout"
	}
	out := strings.TrimSuffix(res.Stdout, "\n")
	lines := strings.Split(out, "\n")
	if abs {
		for i, l := range lines {
			lines[i] = strings.TrimPrefix(l, rootDir)
		}
	}
	s := strings.Join(lines, "\x00")
	if res.Err != "" {
		s += "\x00err: " + res.Err
	} else if res.Status != 0 {
		s += "\x00status " + strconv.Itoa(res.Status)
	}
	return s
}

// c19Shells materialises the tree and runs the word in interp and bash.
func c19Shells(c *Ctx, cs c19Case, src string) c19Run {
	var run c19Run
	esc, _ := c19Escaped(cs)
	abs := strings.HasPrefix(esc, "/")
	for try := 0; try < 4; try++ {
		base := scratchDir(c)
		rootDir := filepath.Join(base, "r")
		os.Mkdir(rootDir, 0o755)
		if err := c19Materialise(rootDir, cs.root, rootDir); err != nil {
			os.RemoveAll(base)
			return c19Run{"unavailable", "unavailable"}
		}
		cwd := rootDir + cs.pwd
		rd := ""
		if abs {
			rd = rootDir
		}
		script := c19Script(cs, src, rd)
		ri := runInterpIn(c, syntax.LangBash, cwd, script)
		rb := c19Bash(c, cwd, filepath.Join(base, "bash-out.txt"), script)
		os.RemoveAll(base)
		run.interp = c19CanonOut(ri, rootDir, abs)
		run.bash = c19CanonOut(rb, rootDir, abs)
		if !ri.TimedOut && !rb.TimedOut && rb.Status != -1 {
			return run
		}
	}
	return c19Run{"unavailable", "unavailable"}
}

func c19Show(s string) string { return strings.ReplaceAll(s, "\x00", "|") }

func c19Describe(cs c19Case, src string) string {
	var sb strings.Builder
	var walk func(prefix string, n *c19Node)
	walk = func(prefix string, n *c19Node) {
		for _, name := range n.names {
			k := n.kids[name]
			switch k.kind {
			case 'd':
				fmt.Fprintf(&sb, " %s%s/", prefix, name)
				walk(prefix+name+"/", k)
			case 'f':
				fmt.Fprintf(&sb, " %s%s", prefix, name)
			case 'l':
				fmt.Fprintf(&sb, " %s%s->%s", prefix, name, k.target)
			}
		}
	}
	walk("/", cs.root)
	return fmt.Sprintf("cd %s; %s [tree:%s]", cs.pwd, strings.ReplaceAll(c19Script(cs, src, ""), "\n", "; "), sb.String())
}

// ---------- generators ----------

var c19PlainNames = []string{"a", "b", "ab", "abc", "A", "B", "Ab", "x", "y", "xy", "a1", "ba", "c"}
var c19OddNames = []string{"a*", "*", "?", "a?", "[x]", "[", "]", "a b", "-", "-a", ".h", ".a", ".ab", "..x", "a.b",
	"!a", `a\b`, `\`, "@(a)", "+(a|b)", "a]", "^a", "[a", "a[b]", "x*y", ".", "'", `"`, "$v", "a:b", "{a,b}", "~", "#a"}

func c19GenName(r *Rand) string {
	if r.Chance(62) {
		return r.Pick(c19PlainNames)
	}
	n := r.Pick(c19OddNames)
	if n == "." {
		return ".b"
	}
	return n
}

type c19Placed struct {
	path []string // from the root
	n    *c19Node
}

func c19Collect(n *c19Node, path []string, out *[]c19Placed) {
	*out = append(*out, c19Placed{append([]string{}, path...), n})
	if n.kind != 'd' {
		return
	}
	for _, name := range n.names {
		c19Collect(n.kids[name], append(path, name), out)
	}
}

func c19Rel(from, to []string) string {
	i := 0
	for i < len(from) && i < len(to) && from[i] == to[i] {
		i++
	}
	var parts []string
	for j := i; j < len(from); j++ {
		parts = append(parts, "..")
	}
	parts = append(parts, to[i:]...)
	if len(parts) == 0 {
		return "."
	}
	return strings.Join(parts, "/")
}

// suffixes that continue a sibling's name with a byte below '/' (space ! # + , - .) or above it
var c19FamSuffixes = []string{".d", "-old", ".", "-", "+x", ",v", " 2", "#1", ".cfg", "0", "_", "a", "~", "!", "%", ".d.e"}

func c19GenTree(r *Rand, thorough bool) (*c19Node, string) {
	famMode := r.Chance(40)
	root := c19Dir()
	w := c19Dir()
	root.add("w", w)
	budget := 4 + r.Intn(8)
	if thorough && r.Chance(30) {
		budget += r.Intn(8)
	}
	if famMode {
		budget += 4 + r.Intn(6)
	}
	maxDepth := 2
	if r.Chance(30) {
		maxDepth = 3
	}
	var fill func(n *c19Node, depth int)
	fill = func(n *c19Node, depth int) {
		cnt := 1 + r.Intn(4)
		if depth == 0 {
			cnt = 2 + r.Intn(5)
		}
		for i := 0; i < cnt && budget > 0; i++ {
			name := c19GenName(r)
			mkDir := depth < maxDepth && r.Chance(40)
			// prefix families: a sibling whose name extends an existing one with a byte below or
			// above '/' (path order then differs from name order: `conf/x` vs `conf.d/x`)
			if famMode && len(n.names) > 0 && r.Chance(55) {
				base := n.names[r.Intn(len(n.names))]
				name = base + r.Pick(c19FamSuffixes)
				if n.kids[base].kind == 'd' {
					mkDir = depth < maxDepth+1 && r.Chance(75)
				}
			}
			if mkDir {
				d := c19Dir()
				if n.add(name, d) {
					budget--
					fill(d, depth+1)
				}
			} else if n.add(name, &c19Node{kind: 'f'}) {
				budget--
			}
		}
	}
	fill(w, 0)
	if r.Chance(35) {
		o := c19Dir()
		root.add("o", o)
		budget = 1 + r.Intn(3)
		fill(o, 1)
	}
	// symbolic links, second pass
	nlinks := 0
	switch k := r.Intn(10); {
	case k < 4:
	case k < 7:
		nlinks = 1
	case k < 9:
		nlinks = 2
	default:
		nlinks = 3
	}
	for i := 0; i < nlinks; i++ {
		var all []c19Placed
		c19Collect(root, nil, &all)
		var dirs []c19Placed
		for _, p := range all {
			if p.n.kind == 'd' && len(p.path) > 0 {
				dirs = append(dirs, p)
			}
		}
		d := dirs[r.Intn(len(dirs))]
		q := all[r.Intn(len(all))]
		name := c19GenName(r)
		var target string
		switch k := r.Intn(12); {
		case k < 5:
			target = c19Rel(d.path, q.path)
		case k < 7:
			target = "/" + strings.Join(q.path, "/")
		case k == 7:
			target = "nonexist"
		case k == 8:
			target = name // self loop
		case k == 9:
			target = "."
		case k == 10:
			target = ".."
		default:
			target = c19Rel(d.path, q.path) + "/"
		}
		ln := &c19Node{kind: 'l', target: target}
		if !d.n.add(name, ln) {
			continue
		}
		if c19Cyclic(root) {
			ln.target = "nonexist"
		}
	}
	pwd := "/w"
	if r.Chance(15) {
		for _, name := range w.names {
			if w.kids[name].kind == 'd' && !strings.ContainsAny(name, "\n") {
				pwd = "/w/" + name
				break
			}
		}
	}
	return root, pwd
}

type c19Atom struct {
	text string
	meta bool
}

// c19Mix: a parent directory below which the same name is a file in one sibling directory, a
// directory in another, a symbolic link (to a file, to a directory, dangling) elsewhere.
type c19Mix struct {
	parent []string // path from the root
	kids   []string // the sibling directories
	tail   []string // the names N1 N2 (N3): N1 has mixed kinds
}

func c19AddKindMix(r *Rand, root *c19Node, pwd string) *c19Mix {
	// parent: PWD, or one of its sub-directories
	parent := strings.Split(strings.TrimPrefix(pwd, "/"), "/")
	m := &c19FS{root: root}
	pn, err := m.resolve("/" + strings.Join(parent, "/"))
	if err != nil || pn.kind != 'd' {
		return nil
	}
	if r.Chance(30) {
		for _, name := range pn.names {
			if pn.kids[name].kind == 'd' && !strings.ContainsAny(name, "\n") {
				parent = append(parent, name)
				pn = pn.kids[name]
				break
			}
		}
	}
	// at least three sibling directories
	for _, name := range []string{"a", "b", "c", "ab", "c.d"} {
		nd := 0
		for _, k := range pn.names {
			if pn.kids[k].kind == 'd' {
				nd++
			}
		}
		if nd >= 3 {
			break
		}
		pn.add(name, c19Dir())
	}
	tail := []string{r.Pick([]string{"x", "y", "n1", "x.d"}), r.Pick([]string{"y", "z", "n2"})}
	if r.Chance(30) {
		tail = append(tail, "n3")
	}
	mix := &c19Mix{parent: parent, tail: tail}
	deep := func() *c19Node { // a directory that holds the rest of the tail
		d := c19Dir()
		cur := d
		for i, t := range tail[1:] {
			if i == len(tail)-2 {
				if r.Chance(70) {
					cur.add(t, &c19Node{kind: 'f'})
				} else {
					cur.add(t, c19Dir())
				}
			} else {
				nd := c19Dir()
				cur.add(t, nd)
				cur = nd
			}
		}
		return d
	}
	for _, name := range pn.names {
		c := pn.kids[name]
		if c.kind != 'd' {
			continue
		}
		mix.kids = append(mix.kids, name)
		if _, has := c.kids[tail[0]]; has {
			continue
		}
		switch k := r.Intn(20); {
		case k < 7:
			c.add(tail[0], deep())
		case k < 12:
			c.add(tail[0], &c19Node{kind: 'f'})
		case k < 14:
			c.add("f0", &c19Node{kind: 'f'})
			c.add(tail[0], &c19Node{kind: 'l', target: "f0"})
		case k < 17:
			c.add("d0", deep())
			c.add(tail[0], &c19Node{kind: 'l', target: "d0"})
		case k < 19:
			c.add(tail[0], &c19Node{kind: 'l', target: "nonexist"})
		}
	}
	if c19Cyclic(root) {
		return nil
	}
	return mix
}

// c19MixWord: a literal prefix to the parent, one glob element for the sibling directories, then a
// literal tail of two or three names (what a "stat the whole literal chunk" shortcut gets wrong).
func c19MixWord(r *Rand, cs *c19Case, mix *c19Mix) []c19Seg {
	slash := c19Atom{"/", false}
	star := c19Atom{"*", true}
	var atoms []c19Atom
	pwdParts := strings.Split(strings.TrimPrefix(cs.pwd, "/"), "/")
	switch {
	case r.Chance(20): // absolute
		for _, p := range mix.parent {
			atoms = append(atoms, slash, c19Atom{p, false})
		}
		atoms = append(atoms, slash)
	default:
		if len(mix.parent) < len(pwdParts) {
			return nil
		}
		if r.Chance(15) {
			atoms = append(atoms, c19Atom{".", false}, slash)
		}
		for _, p := range mix.parent[len(pwdParts):] {
			atoms = append(atoms, c19Atom{p, false}, slash)
		}
	}
	first := ""
	for _, k := range mix.kids {
		// letters and digits only: `-` `^` `!` in a bracket are C17's business (C17-bracket-dash)
		if (k[0] >= 'a' && k[0] <= 'z' || k[0] >= 'A' && k[0] <= 'Z' || k[0] >= '0' && k[0] <= '9') && !strings.Contains(first, k[:1]) {
			first += k[:1]
		}
	}
	switch k := r.Intn(10); {
	case k < 4 || first == "":
		atoms = append(atoms, star)
	case k < 6:
		atoms = append(atoms, c19Atom{"?", true}, star)
	case k < 8:
		atoms = append(atoms, c19Atom{"[" + first + "]", true}, star)
	case k < 9 && cs.opts&c19Star != 0:
		atoms = append(atoms, c19Atom{"**", true})
	default:
		atoms = append(atoms, c19Atom{mix.kids[r.Intn(len(mix.kids))][:1], false}, star)
	}
	n := len(mix.tail)
	if r.Chance(20) {
		n = 1 + r.Intn(len(mix.tail))
	}
	for _, t := range mix.tail[:n] {
		atoms = append(atoms, slash, c19Atom{t, false})
	}
	if r.Chance(10) {
		atoms = append(atoms, slash)
	}
	if r.Chance(10) {
		atoms = append(atoms, slash, star)
	}
	return c19QuoteAtoms(r, atoms, &cs.vars)
}

func c19FlipCase(r *Rand, s string) string {
	b := []byte(s)
	for i, ch := range b {
		if r.Chance(60) {
			switch {
			case 'a' <= ch && ch <= 'z':
				b[i] = ch - 32
			case 'A' <= ch && ch <= 'Z':
				b[i] = ch + 32
			}
		}
	}
	return string(b)
}

var c19RandPats = [][]c19Atom{
	{{"a", false}, {"*", true}}, {{"?", true}}, {{"??", true}}, {{"[ab]", true}, {"*", true}}, {{".", false}, {"*", true}},
	{{"*", true}, {".", false}, {"*", true}}, {{"[.]", true}, {"*", true}}, {{"*", true}, {"b", false}}, {{"[!a]", true}},
	{{"[a-c]", true}, {"*", true}}, {{"*", true}, {"*", true}}, {{"[[:alpha:]]", true}, {"*", true}}, {{"[]", true}, {"*", true}},
	{{"[", true}, {"a", false}}, {{"*", true}, {"]", false}}, {{"[a", true}}, {{"?", true}, {"*", true}}, {{"[^a]", true}, {"*", true}},
	{{"[x-a]", true}}, {{"[!.]", true}, {"*", true}}, {{"***", true}}, {{"**", true}, {"a", false}},
	{{"[a", true}, {"]", false}}, {{"[a", true}, {"-", false}, {"c]", true}}, {{"[", true}, {"!", false}, {"a]", true}},
	{{"[", true}, {"a*", false}, {"]", true}}, {{"[[:alpha:]", true}, {"]", false}, {"]", true}},
}

func c19Patternize(r *Rand, name string, opts int) []c19Atom {
	lit := func(s string) c19Atom {
		if opts&c19NoCase != 0 && r.Chance(50) {
			s = c19FlipCase(r, s)
		}
		return c19Atom{s, false}
	}
	n := len(name)
	switch k := r.Intn(20); {
	case k < 5:
		return []c19Atom{lit(name)}
	case k < 8:
		return []c19Atom{{"*", true}}
	case k < 10:
		i := r.Intn(n + 1)
		return []c19Atom{lit(name[:i]), {"*", true}}
	case k < 12:
		i := r.Intn(n + 1)
		return []c19Atom{{"*", true}, lit(name[i:])}
	case k < 14:
		i := r.Intn(n)
		return []c19Atom{lit(name[:i]), {"?", true}, lit(name[i+1:])}
	case k < 16:
		i := r.Intn(n)
		ch := name[i]
		var br string
		switch r.Intn(5) {
		case 0:
			br = "[" + string(ch) + "]"
		case 1:
			br = "[" + string(ch) + "z]"
		case 2:
			br = "[!z]"
		case 3:
			if 'a' <= ch && ch <= 'y' {
				br = "[" + string(ch) + "-z]"
			} else {
				br = "[z" + string(ch) + "]"
			}
		default:
			br = "[[:alnum:]" + string(ch) + "]"
		}
		if !c19SafeUnq(ch) || strings.ContainsAny(string(ch), `^-/`) {
			br = "?"
		}
		return []c19Atom{lit(name[:i]), {br, true}, lit(name[i+1:])}
	case k < 17:
		return []c19Atom{{"**", true}}
	case k < 18:
		i := r.Intn(n)
		return []c19Atom{{"*", true}, lit(name[i : i+1]), {"*", true}}
	default:
		return c19RandPats[r.Intn(len(c19RandPats))]
	}
}

func c19SafeUnq(ch byte) bool {
	return 'a' <= ch && ch <= 'z' || 'A' <= ch && ch <= 'Z' || '0' <= ch && ch <= '9' || strings.IndexByte("._/,:=@%+^-", ch) >= 0
}

// c19QuoteAtoms turns atoms into word segments, choosing a quoting style per atom.
func c19QuoteAtoms(r *Rand, atoms []c19Atom, vars *[]string) []c19Seg {
	var segs []c19Seg
	addU := func(s string) {
		if s == "" {
			return
		}
		if len(segs) > 0 && segs[len(segs)-1].kind == 'u' {
			segs[len(segs)-1].val += s
			return
		}
		segs = append(segs, c19Seg{kind: 'u', val: s})
	}
	escU := func(s string, all bool) string {
		var sb strings.Builder
		for i := 0; i < len(s); i++ {
			if all || !c19SafeUnq(s[i]) {
				sb.WriteByte('\\')
			}
			sb.WriteByte(s[i])
		}
		return sb.String()
	}
	dq := func(s string) string {
		var sb strings.Builder
		for i := 0; i < len(s); i++ {
			if strings.IndexByte("\"\\$`", s[i]) >= 0 {
				sb.WriteByte('\\')
			}
			sb.WriteByte(s[i])
		}
		return sb.String()
	}
	for _, a := range atoms {
		if a.text == "" {
			continue
		}
		if a.meta {
			switch k := r.Intn(100); {
			case k < 90:
				addU(a.text)
			case k < 93 && !strings.Contains(a.text, "'"):
				segs = append(segs, c19Seg{kind: 's', val: a.text})
			case k < 96:
				segs = append(segs, c19Seg{kind: 'd', val: dq(a.text)})
			case k < 98 && len(*vars) < 4:
				*vars = append(*vars, a.text)
				segs = append(segs, c19Seg{kind: 'p', idx: len(*vars) - 1})
			default:
				addU(escU(a.text, true))
			}
			continue
		}
		if a.text == "/" {
			if r.Chance(94) {
				addU("/")
			} else {
				segs = append(segs, c19Seg{kind: 'd', val: "/"})
			}
			continue
		}
		switch k := r.Intn(100); {
		case k < 58:
			addU(escU(a.text, false))
		case k < 70 && !strings.Contains(a.text, "'"):
			segs = append(segs, c19Seg{kind: 's', val: a.text})
		case k < 82:
			segs = append(segs, c19Seg{kind: 'd', val: dq(a.text)})
		case k < 88:
			addU(escU(a.text, true))
		case k < 94 && len(*vars) < 4 && !strings.ContainsAny(a.text, " \t\n"):
			// the value is pattern text: quote pattern characters with a backslash
			var sb strings.Builder
			for i := 0; i < len(a.text); i++ {
				if strings.IndexByte(`*?[\`, a.text[i]) >= 0 {
					sb.WriteByte('\\')
				}
				sb.WriteByte(a.text[i])
			}
			*vars = append(*vars, sb.String())
			segs = append(segs, c19Seg{kind: 'p', idx: len(*vars) - 1})
		default:
			addU(escU(a.text, false))
		}
	}
	return segs
}

var c19ExtPats = []string{"@(a|b)", "?(a)b", "*(a|b)", "+(a)", "!(a)", "@(a*|b)", "!(*.b)", "+(a|b)c", "@(ab|abc)", "?(.)a", "!(a|b)", "*(?)", "@([ab])"}

func c19GenCase(r *Rand, thorough bool) c19Case {
	var cs c19Case
	cs.root, cs.pwd = c19GenTree(r, thorough)
	for i, p := range []int{25, 20, 35, 20, 25, 5} {
		if r.Chance(p) {
			cs.opts |= 1 << i
		}
	}
	if r.Chance(28) {
		if mix := c19AddKindMix(r, cs.root, cs.pwd); mix != nil {
			if segs := c19MixWord(r, &cs, mix); segs != nil {
				cs.segs = segs
				return cs
			}
		}
	}
	m := &c19FS{root: cs.root}
	// a path that exists, as a list of names from PWD
	cur := cs.pwd
	var names []string
	steps := 1 + r.Intn(3)
	for i := 0; i < steps; i++ {
		n, err := m.resolve(cur)
		if err != nil || n.kind != 'd' || len(n.names) == 0 {
			break
		}
		name := n.names[r.Intn(len(n.names))]
		names = append(names, name)
		cur += "/" + name
	}
	if len(names) == 0 {
		names = []string{"x"}
	}
	var atoms []c19Atom
	slash := c19Atom{"/", false}
	if r.Chance(22) {
		// a wildcard in a non-final path element, below a literal prefix: the order of the joined
		// paths is not the order of the names (`conf-old/x` < `conf.d/x` < `conf/x`)
		star := c19Atom{"*", true}
		k := r.Intn(len(names))
		for _, name := range names[:k] {
			atoms = append(atoms, c19Atom{name, false}, slash)
		}
		lead := names[k]
		if len(lead) > 1 && r.Chance(50) {
			lead = lead[:1+r.Intn(len(lead)-1)]
		} else if r.Chance(50) {
			lead = ""
		}
		shapes := [][]c19Atom{
			{star, slash, star},
			{star, slash, star, {".", false}, star},
			{{lead, false}, star, slash, {"[a-z]", true}, star},
			{{lead, false}, star, slash, star},
			{star, slash},
			{star, slash, star, slash, star},
			{{lead, false}, star, slash, star, slash},
			{star, slash, {"?", true}, star},
			{{lead, false}, {"?", true}, star, slash, star},
		}
		atoms = append(atoms, shapes[r.Intn(len(shapes))]...)
		cs.segs = c19QuoteAtoms(r, atoms, &cs.vars)
		return cs
	}
	pwdParts := strings.Split(strings.TrimPrefix(cs.pwd, "/"), "/")
	switch k := r.Intn(100); {
	case k < 70:
	case k < 77:
		atoms = append(atoms, c19Atom{".", false}, slash)
	case k < 83:
		atoms = append(atoms, c19Atom{"..", false}, slash, c19Atom{pwdParts[len(pwdParts)-1], false}, slash)
	case k < 91:
		for _, p := range pwdParts {
			atoms = append(atoms, slash, c19Atom{p, false})
		}
		atoms = append(atoms, slash)
	case k < 94:
		atoms = append(atoms, c19Atom{".", false}, slash, slash)
	case k < 97:
		atoms = append(atoms, c19Atom{"..", false}, slash, c19Atom{"*", true}, slash)
	default:
		atoms = append(atoms, slash, c19Atom{"*", true}, slash)
	}
	ext := false
	for i, name := range names {
		if i > 0 {
			atoms = append(atoms, slash)
			if r.Chance(4) {
				atoms = append(atoms, slash)
			}
			if r.Chance(4) {
				atoms = append(atoms, c19Atom{".", false}, slash)
			}
			if r.Chance(4) {
				atoms = append(atoms, c19Atom{"..", false}, slash, c19Atom{"*", true}, slash)
			}
		}
		if cs.opts&c19Ext != 0 && r.Chance(25) || r.Chance(2) {
			ep := r.Pick(c19ExtPats)
			close := strings.LastIndexByte(ep, ')')
			atoms = append(atoms, c19Atom{"\x00g" + ep[:close+1], true})
			if close+1 < len(ep) {
				atoms = append(atoms, c19Atom{ep[close+1:], false})
			}
			ext = true
			continue
		}
		atoms = append(atoms, c19Patternize(r, name, cs.opts)...)
	}
	_ = ext
	if r.Chance(12) {
		atoms = append(atoms, slash)
	}
	if r.Chance(5) {
		atoms = append(atoms, slash, c19Atom{"*", true})
	}
	// quoting
	var segs []c19Seg
	var run []c19Atom
	flush := func() {
		segs = append(segs, c19QuoteAtoms(r, run, &cs.vars)...)
		run = nil
	}
	for _, a := range atoms {
		if strings.HasPrefix(a.text, "\x00g") {
			flush()
			segs = append(segs, c19Seg{kind: 'g', val: a.text[2:]})
			continue
		}
		run = append(run, a)
	}
	flush()
	// merge adjacent unquoted segments
	for _, s := range segs {
		if s.kind == 'u' && len(cs.segs) > 0 && cs.segs[len(cs.segs)-1].kind == 'u' {
			cs.segs[len(cs.segs)-1].val += s.val
			continue
		}
		cs.segs = append(cs.segs, s)
	}
	return cs
}

// ---------- the check ----------

type c19Job struct {
	cs     c19Case
	src    string
	toks   string
	answer string
	fields []string
	corpus bool
	known  bool
	excl   string
	inside bool
}

func c19(c *Ctx) {
	c.Rule = "random trees (≤ ~14 entries, depth ≤ 3 below PWD, 38% odd names with metacharacters/dots/spaces/backslashes, 0–3 symbolic links " +
		"to files, directories, `.`/`..`, dangling and self-referential; no directory cycles; 40% in family mode: siblings whose name extends " +
		"another's with a byte below/above '/', at every depth) × words derived from an existing path (22%: a wildcard in a non-final element below a literal prefix, `*/*` `c*/[a-z]*` `*/` `*/*/*`; else " +
		"(per component: literal, `*`, prefix/suffix star, `?`, brackets, `**`, random patterns, extended globs; `.`/`..`/empty components; " +
		"relative, `./`, `../`, absolute; quoting style per atom: bare, backslash, '…', \"…\", ${v}) × the six options; " +
		"non-trivial = the word reached Config.glob (unquoted metacharacter) ; distinct by exact tokens"
	debug := os.Getenv("C19_DEBUG") != ""
	var jobs []c19Job
	knownNext := false
	emit := func(cs c19Case, corpus bool) {
		w, ok := c19Word(&cs)
		if !ok {
			c.Case("unparsed", false, "word-not-as-intended")
			if debug {
				src, _ := c19Source(cs)
				fmt.Printf("UNPARSED %q %s\n", src, c19Tokens(cs))
			}
			return
		}
		src, _ := c19Source(cs)
		toks := c19Tokens(cs)
		answer, fields, fsys := c19Impl(cs, w)
		c.Op("fields "+toks, answer)
		excl := c19Excl(cs)
		inside := c19SpecInside(cs)
		if excl == "" && inside && answer != "panic" && !strings.HasPrefix(answer, "err") {
			c.Op("specfields "+toks, answer)
			c.Hist["specfields"]++
		}
		tags := []string{"opts=" + strconv.Itoa(cs.opts)}
		if strings.HasPrefix(answer, "err") || answer == "panic" {
			tags = append(tags, answer)
		}
		if fsys.calls > 0 {
			tags = append(tags, "globbed")
		}
		if len(fields) > 1 {
			tags = append(tags, "multi-match")
			// order-sensitive: visiting directories in name order would NOT give the byte order of the
			// joined paths (a sibling's name continues another's with a byte below '/')
			byComp := append([]string{}, fields...)
			sort.SliceStable(byComp, func(a, b int) bool {
				x, y := strings.Split(byComp[a], "/"), strings.Split(byComp[b], "/")
				for k := 0; k < len(x) && k < len(y); k++ {
					if x[k] != y[k] {
						return x[k] < y[k]
					}
				}
				return len(x) < len(y)
			})
			if strings.Join(byComp, "\x00") != strings.Join(fields, "\x00") && sort.StringsAreSorted(fields) {
				tags = append(tags, "order-sensitive")
			}
		}
		c.Case(toks, fsys.calls > 0, tags...)
		j := c19Job{cs: cs, src: src, toks: toks, answer: answer, fields: fields, corpus: corpus, known: corpus && knownNext, inside: inside}
		j.excl = excl
		if fsys.escaped && j.excl == "" {
			j.excl = "above-root"
		}
		if j.excl == "" && strings.HasPrefix(answer, "ok") {
			// oracle-free invariant: a path produced by pathname expansion exists (lstat)
			if esc, cand := c19Escaped(cs); cand && c19HasMeta(esc) && cs.opts&c19NoGlob == 0 {
				kept := len(fields) == 1 && fields[0] == c19KeptText(cs)
				if !kept {
					lfs := &c19FS{root: cs.root}
					for _, f := range fields {
						if !lfs.lexists(cs.pwd, f) {
							c.Fail("sh "+toks, fmt.Sprintf("expansion result %q does not exist (lstat) in the tree; all results %q; %s", f, fields, c19Describe(cs, src)))
							break
						}
					}
					c.Hist["lstat-checked"]++
				}
			}
		}
		if answer == "err negext-unsupported" && j.excl == "" {
			j.excl = "negext-unsupported" // C17: !(…) next to other pattern characters is rejected
		}
		if j.excl != "" {
			c.Hist["excl:"+j.excl]++
		}
		jobs = append(jobs, j)
	}
	for _, l := range c.CorpusLines() {
		// `known sh …`: witness of an open finding, always compared with bash (so that it is reported as
		// KNOWN-FINDING); `sh …`: seed or replayed input, compared unless it lies in an exclusion region
		f := strings.Fields(l)
		known := len(f) > 0 && f[0] == "known"
		if known {
			f = f[1:]
		}
		// a replay file may also carry op lines (`specfields …`, `fields …`, `bashspec …`): same tokens
		if len(f) < 2 || (f[0] != "sh" && f[0] != "specfields" && f[0] != "fields" && f[0] != "bashspec") {
			continue
		}
		if cs, ok := c19ParseTokens(f[1:]); ok {
			knownNext = known
			emit(cs, true)
		}
	}
	for i := 0; i < c.N; i++ {
		emit(c19GenCase(c.R, c.Thorough()), false)
	}
	// filepath.Clean (used by filepath.Join inside glob/globDir)
	cleanAlpha := []string{"/", "/", ".", "..", "a", "b", "ab", "//", "./", "../", "/.", "x.", ".x", "..."}
	for i := 0; i < c.N/4+8; i++ {
		p := genFrom(c.R, cleanAlpha, 9)
		c.Op("clean "+hx(p), hx(filepath.Clean(p)))
	}
	// search leg: interp and bash on the materialised tree.  Cases outside the exclusion regions are
	// compared (c.Fail); a smaller number of cases inside them is run as well, for the `bashspec`
	// stream only (the Lean specification must describe bash there too).
	nshell := c.N / 4
	nexcl := c.N / 16
	var sel []int
	nsel, nex := 0, 0
	for i, j := range jobs {
		if strings.ContainsAny(j.src, "\n") || j.excl == "above-root" {
			continue
		}
		switch {
		case j.corpus:
			sel = append(sel, i)
		case j.excl == "" && nsel < nshell:
			sel = append(sel, i)
			nsel++
		case j.excl != "" && j.excl != "extglob-syntax-off" && j.inside && nex < nexcl:
			sel = append(sel, i)
			nex++
		}
	}
	workers := 4
	runs := parallelMap(len(sel), workers, func(k int) c19Run {
		j := jobs[sel[k]]
		return c19Shells(c, j.cs, j.src)
	})
	nb := 0
	for k, idx := range sel {
		j := jobs[idx]
		run := runs[k]
		if run.bash == "unavailable" {
			c.Hist["shell-unavailable"]++
			continue
		}
		nb++
		witness := "sh " + j.toks
		if run.interp != run.bash {
			if j.excl == "" || j.known {
				c.Fail(witness, fmt.Sprintf("interp prints %q, bash prints %q; %s", c19Show(run.interp), c19Show(run.bash), c19Describe(j.cs, j.src)))
				if debug {
					fmt.Printf("MISMATCH interp=%q bash=%q mem=%q\n   %s\n   %s\n", c19Show(run.interp), c19Show(run.bash), j.answer, c19Describe(j.cs, j.src), witness)
				}
			} else {
				c.Hist["known-region-differs:"+j.excl]++
			}
		}
		// the Lean specification against bash (also inside the known-finding regions)
		if j.inside && !strings.Contains(run.bash, "\x00status ") && !strings.HasPrefix(run.bash, "panic") {
			c.Op("bashspec "+j.toks, strings.TrimSpace("out "+hxs(strings.Split(run.bash, "\x00"))))
			c.Hist["bashspec"]++
		}
		// the in-memory tree and the scratch directory must give interp the same answer
		if strings.HasPrefix(j.answer, "ok") {
			mem := strings.Join(j.fields, "\x00")
			got := "same"
			if mem != run.interp {
				got = "differs: in-memory " + hx(mem) + " scratch-directory " + hx(run.interp)
				if debug {
					fmt.Printf("MEMFS interp=%q mem=%q\n   %s\n", c19Show(run.interp), c19Show(mem), c19Describe(j.cs, j.src))
				}
			}
			c.Op("memfs "+j.toks, got)
		}
	}
	c.Extra["shell_runs"] = nb
}

// ---------- exclusion regions of the search leg (each one is a known finding; see props/C19.notes.md) ----------

// c19Escaped recomputes what wordFields + escapedGlobField hand to Config.glob (independent of the
// model): the escaped pattern text and whether some unquoted part has a pattern character.
func c19Escaped(cs c19Case) (escaped string, candidate bool) {
	var sb strings.Builder
	for _, s := range cs.segs {
		switch s.kind {
		case 'u':
			v := s.val
			var ub strings.Builder
			for i := 0; i < len(v); i++ {
				if v[i] == '\\' && i+1 < len(v) {
					i++
				}
				ub.WriteByte(v[i])
			}
			if strings.ContainsAny(ub.String(), "*?[") {
				candidate = true
			}
			sb.WriteString(ub.String())
		case 'p':
			v := cs.vars[s.idx]
			if strings.ContainsAny(v, "*?[") {
				candidate = true
			}
			sb.WriteString(v)
		case 'g':
			if strings.ContainsAny(s.val, "*?[") {
				candidate = true
			}
			sb.WriteString(s.val)
		case 's':
			sb.WriteString(c19QuoteMeta(s.val))
		case 'd':
			v := s.val
			var ub strings.Builder
			for i := 0; i < len(v); i++ {
				if v[i] == '\\' && i+1 < len(v) && strings.IndexByte("\"\\$`", v[i+1]) >= 0 {
					i++
				}
				ub.WriteByte(v[i])
			}
			sb.WriteString(c19QuoteMeta(ub.String()))
		}
	}
	return sb.String(), candidate
}

func c19QuoteMeta(s string) string {
	var sb strings.Builder
	for i := 0; i < len(s); i++ {
		if strings.IndexByte(`*?[\`, s[i]) >= 0 {
			sb.WriteByte('\\')
		}
		sb.WriteByte(s[i])
	}
	return sb.String()
}

func c19HasMeta(p string) bool {
	open := false
	for i := 0; i < len(p); i++ {
		switch p[i] {
		case '\\':
			i++
		case '*', '?':
			return true
		case '[':
			open = true
		case ']':
			if open {
				return true
			}
		}
	}
	return false
}

func c19HasExtGroup(p string) bool {
	for i := 0; i+1 < len(p); i++ {
		if p[i] == '\\' {
			i++
			continue
		}
		if strings.IndexByte("?*+@!", p[i]) >= 0 && p[i+1] == '(' {
			return true
		}
	}
	return false
}

func c19HasDirLink(cs c19Case) bool {
	var all []c19Placed
	c19Collect(cs.root, nil, &all)
	m := &c19FS{root: cs.root}
	for _, p := range all {
		if p.n.kind == 'l' {
			if t, err := m.resolve("/" + strings.Join(p.path, "/")); err == nil && t.kind == 'd' {
				return true
			}
		}
	}
	return false
}

func c19BrokenLinkNames(cs c19Case) map[string]bool {
	var all []c19Placed
	c19Collect(cs.root, nil, &all)
	m := &c19FS{root: cs.root}
	out := map[string]bool{}
	for _, p := range all {
		if p.n.kind == 'l' {
			if _, err := m.resolve("/" + strings.Join(p.path, "/")); err != nil {
				out[p.path[len(p.path)-1]] = true
			}
		}
	}
	return out
}

// c19Excl names the known-finding region the case falls in ("" = none): the bash comparison and the
// specification stream skip it; the model stream does not.
func c19Excl(cs c19Case) string {
	ext := cs.opts&c19Ext != 0
	for _, s := range cs.segs {
		if s.kind == 'g' && !ext {
			return "extglob-syntax-off" // bash: syntax error; not a pathname-expansion matter
		}
	}
	// C19-escaped-meta-unquoted: wordFields drops the backslash of an unquoted literal and leaves the
	// character unquoted.
	for _, s := range cs.segs {
		if s.kind != 'u' {
			continue
		}
		for i := 0; i+1 < len(s.val); i++ {
			if s.val[i] == '\\' {
				if strings.IndexByte(`*?[]\!^-`, s.val[i+1]) >= 0 || ext && strings.IndexByte(`()|`, s.val[i+1]) >= 0 {
					return "escaped-meta-unquoted"
				}
				i++
			}
		}
		if strings.HasSuffix(s.val, `\`) && !strings.HasSuffix(s.val, `\\`) {
			return "escaped-meta-unquoted"
		}
	}
	if ext {
		// C18-quotemeta-extglob: QuoteMeta leaves ( ) | of quoted text active under ExtendedOperators
		for _, s := range cs.segs {
			if (s.kind == 's' || s.kind == 'd') && strings.ContainsAny(s.val, "()|") {
				return "quotemeta-extglob"
			}
		}
	}
	// C19-quoted-bracket-special: QuoteMeta does not escape ] ! ^ - , so quoted text can close, negate
	// or make a range in a bracket expression that an unquoted [ opened
	openBr := false
	for _, s := range cs.segs {
		switch s.kind {
		case 'u', 'g':
			if strings.Contains(s.val, "[") {
				openBr = true
			}
		case 'p':
			if strings.Contains(cs.vars[s.idx], "[") {
				openBr = true
			}
		case 's', 'd':
			if openBr && strings.ContainsAny(s.val, "]!^-") {
				return "quoted-bracket-special"
			}
		}
	}
	if esc0, _ := c19Escaped(cs); ext && c19UnterminatedExt(esc0) {
		return "unterminated-extglob"
	}
	if esc0, _ := c19Escaped(cs); !ext && c19HasExtGroup(esc0) && cs.opts&c19NoGlob == 0 {
		// bash classifies `@(` `+(` `!(` as pattern characters even without extglob: with nocaseglob the
		// word can come back in the case of the file name, and `//` after it is collapsed
		return "extop-without-extglob"
	}
	escaped, candidate := c19Escaped(cs)
	globbed := candidate && c19HasMeta(escaped) && cs.opts&c19NoGlob == 0
	if !globbed {
		// C18-hasmeta-extglob at word level: an extended glob without any of * ? [ is not expanded
		if ext && c19HasExtGroup(escaped) && cs.opts&c19NoGlob == 0 {
			return "hasmeta-extglob"
		}
		return ""
	}
	if strings.Contains(escaped, "//") {
		return "double-slash"
	}
	comps := strings.Split(escaped, "/")
	if strings.HasPrefix(escaped, "/") {
		comps = comps[1:]
	}
	star := cs.opts&c19Star != 0
	nstar := 0
	metaBefore := false
	sawName := false // a component other than . and .. came before
	dirLink := c19HasDirLink(cs)
	broken := c19BrokenLinkNames(cs)
	dotNames := false
	{
		var all []c19Placed
		c19Collect(cs.root, nil, &all)
		for _, p := range all {
			if len(p.path) > 0 && strings.HasPrefix(p.path[len(p.path)-1], ".") {
				dotNames = true
			}
		}
	}
	for i, comp := range comps {
		last := i == len(comps)-1
		meta := c19HasMeta(comp)
		switch {
		case comp == "" || comp == ".":
		case comp == "..":
			if sawName && dirLink {
				return "dotdot-after-symlink" // filepath.Join cleans `link/..` lexically
			}
		case star && comp == "**":
			nstar++
			if dirLink {
				return "globstar-follows-symlink"
			}
			if nstar > 1 {
				return "globstar-repeated"
			}
			if last && metaBefore {
				return "globstar-zero-match-slash"
			}
			metaBefore = true
			sawName = true
		case !meta:
			sawName = true
			if strings.Contains(comp, `\`) {
				return "quoted-meta-literal-component" // the literal component keeps its backslashes
			}
			if ext && c19HasExtGroup(comp) {
				return "hasmeta-extglob"
			}
			if last && broken[comp] {
				return "dangling-symlink-literal"
			}
		default:
			sawName = true
			metaBefore = true
			if _, err := patternRegexpErr(comp); err != nil {
				if cs.opts&c19Null != 0 {
					return "nullglob-bad-pattern"
				}
			}
			if c19BracketDash(comp) {
				return "c17-bracket-dash" // C17-bracket-dash: `[-A]` is rejected as an invalid range
			}
			if cs.opts&c19Dot == 0 && dotNames && c19LeadingDotRisk(comp, ext) {
				return "leading-dot"
			}
		}
	}
	return ""
}

// c19LeadingDotRisk: without dotglob, can the component match a name that starts with a dot although
// it does not itself start with a literal dot?  (pattern.Regexp only guards a leading `*`.)
func c19LeadingDotRisk(comp string, ext bool) bool {
	i := 0
	for i < len(comp) && comp[i] == '*' && !(ext && i+1 < len(comp) && comp[i+1] == '(') {
		i++
	}
	if i >= 3 {
		return true
	}
	rest := comp[i:]
	if rest == "" {
		return false
	}
	if ext && len(rest) > 1 && strings.IndexByte("?*+@!", rest[0]) >= 0 && rest[1] == '(' {
		return true
	}
	switch rest[0] {
	case '?', '[':
		return true
	case '\\':
		if len(rest) > 1 {
			return i > 0 && rest[1] == '.'
		}
		return false
	case '.':
		return i > 0
	}
	return false
}

func patternRegexpErr(comp string) (string, error) {
	return pattern.Regexp(comp, pattern.Filenames|pattern.EntireString)
}

// c19Bash is runShellIn for bash with the output file outside the directory tree under test.
func c19Bash(c *Ctx, cwd, outPath, script string) ShellResult {
	ctx, cancel := context.WithTimeout(context.Background(), 10*time.Second)
	defer cancel()
	cmd := exec.CommandContext(ctx, "bash", "--norc", "--noprofile", "-c", script, "sh")
	cmd.Dir = cwd
	cmd.Env = shellEnv(c, cwd)
	outF, ferr := os.Create(outPath)
	if ferr != nil {
		return ShellResult{Status: -1, Err: ferr.Error(), TimedOut: true}
	}
	cmd.Stdout = outF
	cmd.WaitDelay = 2 * time.Second
	err := cmd.Run()
	outF.Close()
	ob, _ := os.ReadFile(outPath)
	res := ShellResult{Stdout: string(ob)}
	if ctx.Err() != nil {
		res.TimedOut = true
		return res
	}
	if err != nil {
		if ee, ok := err.(*exec.ExitError); ok {
			res.Status = ee.ExitCode()
		} else {
			res.Status = -1
			res.Err = err.Error()
		}
	}
	return res
}

// c19SpecInside: is the case inside the domain of the Lean specification `specFields`?  (Mirrors
// the `outside` answers of the specification: tilde prefix, ${v} values that are empty or have white
// space, an unquoted `**` component under globstar, an empty component after a pattern component.)
func c19SpecInside(cs c19Case) bool {
	if len(cs.segs) > 0 && cs.segs[0].kind == 'u' && strings.HasPrefix(cs.segs[0].val, "~") {
		return false
	}
	for _, s := range cs.segs {
		if s.kind == 'p' && (cs.vars[s.idx] == "" || strings.ContainsAny(cs.vars[s.idx], " \t\n")) {
			return false
		}
	}
	type pc struct {
		c byte
		q bool
	}
	var chars []pc
	for _, s := range cs.segs {
		switch s.kind {
		case 'u':
			for i := 0; i < len(s.val); i++ {
				if s.val[i] == '\\' && i+1 < len(s.val) {
					i++
					chars = append(chars, pc{s.val[i], true})
				} else {
					chars = append(chars, pc{s.val[i], false})
				}
			}
		case 's':
			for i := 0; i < len(s.val); i++ {
				chars = append(chars, pc{s.val[i], true})
			}
		case 'd':
			v := s.val
			for i := 0; i < len(v); i++ {
				if v[i] == '\\' && i+1 < len(v) && strings.IndexByte("\"\\$`", v[i+1]) >= 0 {
					i++
				}
				chars = append(chars, pc{v[i], true})
			}
		case 'p':
			for i := 0; i < len(cs.vars[s.idx]); i++ {
				chars = append(chars, pc{cs.vars[s.idx][i], false})
			}
		case 'g':
			for i := 0; i < len(s.val); i++ {
				chars = append(chars, pc{s.val[i], false})
			}
		}
	}
	{
		var wb strings.Builder
		quotedParen := false
		for _, ch := range chars {
			if ch.q {
				wb.WriteByte('\\')
				if ch.c == '(' || ch.c == ')' || ch.c == '|' {
					quotedParen = true
				}
			}
			wb.WriteByte(ch.c)
		}
		if c19HasExtGroup(wb.String()) && (cs.opts&c19Ext == 0 || quotedParen || c19UnterminatedExt(wb.String())) {
			return false
		}
	}
	chars = append(chars, pc{'/', false})
	var sb strings.Builder
	patSeen := false
	ncomp := 0
	for i, ch := range chars {
		if ch.c != '/' {
			if ch.q {
				sb.WriteByte('\\')
			}
			sb.WriteByte(ch.c)
			continue
		}
		comp := sb.String()
		sb.Reset()
		last := i == len(chars)-1
		if cs.opts&c19Star != 0 && comp == "**" {
			return false
		}
		if comp == "" && patSeen && !last && ncomp > 0 {
			return false
		}
		if c19HasMeta(comp) || cs.opts&c19Ext != 0 && c19HasExtGroup(comp) {
			patSeen = true
		}
		ncomp++
	}
	return true
}

// c19UnterminatedExt: an extended-glob operator followed by '(' without a closing parenthesis
// (C17-unterminated-extglob: pattern.Regexp then emits an uncompilable expression).
func c19UnterminatedExt(p string) bool {
	for i := 0; i+1 < len(p); i++ {
		if p[i] == '\\' {
			i++
			continue
		}
		if strings.IndexByte("?*+@!", p[i]) >= 0 && p[i+1] == '(' {
			depth := 0
			closed := false
			for j := i + 1; j < len(p); j++ {
				switch p[j] {
				case '\\':
					j++
				case '(':
					depth++
				case ')':
					depth--
					if depth == 0 {
						closed = true
					}
				case '/':
					j = len(p) // a group does not span path elements
				}
				if closed {
					break
				}
			}
			if !closed {
				return true
			}
		}
	}
	return false
}

// c19KeptText: the field as it is printed when no expansion takes place.
func c19KeptText(cs c19Case) string {
	var sb strings.Builder
	for _, s := range cs.segs {
		switch s.kind {
		case 'u':
			for i := 0; i < len(s.val); i++ {
				if s.val[i] == '\\' && i+1 < len(s.val) {
					i++
				}
				sb.WriteByte(s.val[i])
			}
		case 's', 'g':
			sb.WriteString(s.val)
		case 'd':
			v := s.val
			for i := 0; i < len(v); i++ {
				if v[i] == '\\' && i+1 < len(v) && strings.IndexByte("\"\\$`", v[i+1]) >= 0 {
					i++
				}
				sb.WriteByte(v[i])
			}
		case 'p':
			sb.WriteString(cs.vars[s.idx])
		}
	}
	return sb.String()
}

// lexists: lstat(path) succeeds (path relative to pwd or absolute; kernel resolution).
func (m *c19FS) lexists(pwd, path string) bool {
	if !strings.HasPrefix(path, "/") {
		path = pwd + "/" + path
	}
	i := strings.LastIndexByte(path, '/')
	dir, last := path[:i+1], path[i+1:]
	if last == "" || last == "." || last == ".." {
		_, err := m.resolve(path)
		return err == nil
	}
	n, err := m.resolve(dir)
	if err != nil || n.kind != 'd' {
		return false
	}
	_, ok := n.kids[last]
	return ok
}

// c19BracketDash: a bracket expression whose first or last element is an unescaped dash.
func c19BracketDash(comp string) bool {
	for i := 0; i < len(comp); i++ {
		if comp[i] == '\\' {
			i++
			continue
		}
		if comp[i] != '[' {
			continue
		}
		j := i + 1
		if j < len(comp) && (comp[j] == '!' || comp[j] == '^') {
			j++
		}
		start := j
		if j < len(comp) && comp[j] == ']' {
			j++
		}
		for j < len(comp) && comp[j] != ']' {
			if comp[j] == '\\' {
				j++
			}
			j++
		}
		if j >= len(comp) {
			return false
		}
		if comp[start] == '-' || (j-1 > start && comp[j-1] == '-' && comp[j-2] != '\\') {
			return true
		}
		i = j
	}
	return false
}
