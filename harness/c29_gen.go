//go:build c29 || all

package main

import (
	"fmt"
	"strings"
)

// ---- program generator --------------------------------------------------------------------------
//
// Programs are lists of top-level statements (kept separate so that a failing program can be
// minimised statement by statement).  The vocabulary is the one the property names: assignments,
// arrays, declare with expanded arguments, aliases, brace expansion, here-documents, functions,
// traps, background jobs — biased towards the constructs whose implementation builds new words
// from tree words (alias splicing, SplitBraces on a copied header, flattenAssigns, the <<- line
// splitter, the `&` statement copy) and towards the variables that live in the caller's Environ
// (EV EW ER ea es em era).

type c29Gen struct {
	r     *Rand
	feats map[string]bool
	depth int
	nfunc int
}

func (g *c29Gen) feat(f string) { g.feats[f] = true }

var c29Names = []string{"a", "b", "x", "y", "arr", "m", "EV", "EW", "ea", "es", "em"}
var c29Scalars = []string{"a", "b", "x", "y", "EV", "EW"}
var c29Arrays = []string{"arr", "ea", "es"}

func (g *c29Gen) name() string   { return g.r.Pick(c29Names) }
func (g *c29Gen) scalar() string { return g.r.Pick(c29Scalars) }
func (g *c29Gen) array() string  { return g.r.Pick(c29Arrays) }

var c29Braces = []string{
	"{a,b}", "{1..3}", "x{a,b{c,d}}y", "{a,b}{c,d}", "pre{$x,lit}post", "{a..e..2}", "{01..03}",
	"{x}", "a{b", "{1..2,3}", "{,x}", "{a,b}$x", "$x{1,2}", "\"q\"{a,b}", "{a,'b c'}", "{3..1}",
	"{a,b}\\{c", "{{a,b},c}", "{a,b}.{1..2}", "{1..2..3..4}", "{a..3}", "${x}{a,b}",
}

var c29Plain = []string{
	"lit", "w1", "$x", "\"$y\"", "${a:-dflt}", "\"${arr[@]}\"", "${arr[1]}", "${#arr[@]}", "$((1+2))",
	"$(echo sub)", "'s q'", "\"d $x q\"", "~", "$EV", "\"$EW\"", "$EW", "${ea[@]}", "${es[5]}", "${em[k]}",
	"${!em[@]}", "${x:=set}", "${y/a/b}", "${x@Q}", "$#", "\"$@\"", "$?", "*", "\\*", "${ER}", "${era[1]}",
	"$(echo {a,b})", "\"$(echo \"in $x\")\"", "${arr[@]:1:2}", "${x:+alt}", "$'a\\tb'",
}

func (g *c29Gen) word() string {
	if g.r.Chance(45) {
		g.feat("brace")
		w := g.r.Pick(c29Braces)
		if g.r.Chance(25) {
			w = g.r.Pick(c29Plain) + w
		}
		return w
	}
	return g.r.Pick(c29Plain)
}

func (g *c29Gen) words(lo, hi int) string {
	n := lo + g.r.Intn(hi-lo+1)
	ws := make([]string, n)
	for i := range ws {
		ws[i] = g.word()
	}
	return strings.Join(ws, " ")
}

func (g *c29Gen) simple() string {
	switch g.r.Intn(5) {
	case 0:
		return "echo " + g.words(1, 4)
	case 1:
		return "printf '%s,' " + g.words(1, 3)
	case 2:
		return ": " + g.words(0, 3)
	case 3:
		return g.scalar() + "=" + g.word() + " echo " + g.words(1, 2) // inline assignment + restore
	default:
		return "echo " + g.words(1, 2) + " >/dev/null"
	}
}

func (g *c29Gen) assign() string {
	g.feat("assign")
	switch g.r.Intn(16) {
	case 0:
		return g.scalar() + "=" + g.word()
	case 1:
		return g.scalar() + "+=" + g.word()
	case 2:
		g.feat("array")
		return g.array() + "=(" + g.words(0, 4) + ")"
	case 3:
		g.feat("array")
		return g.array() + "+=(" + g.words(1, 3) + ")"
	case 4:
		g.feat("array")
		return fmt.Sprintf("%s[%d]=%s", g.array(), g.r.Intn(9), g.word())
	case 5:
		g.feat("array")
		return g.array() + "+=" + g.r.Pick([]string{"Q", "$x", "lit"}) // += onto an array: element 0
	case 6:
		g.feat("array")
		return fmt.Sprintf("unset '%s[%d]'", g.array(), g.r.Intn(8))
	case 7:
		return "unset " + g.name()
	case 8:
		g.feat("array")
		return g.r.Pick([]string{"em[k3]=v3", "em[k]=new", "unset 'em[k]'", "declare -A m; m[a]=1 m[b]=$x", "m=([p]=1 [q]=2)", "em+=([z]=1)"})
	case 9:
		return "export " + g.scalar() + "=" + g.word()
	case 10:
		return g.r.Pick([]string{"ER=changed", "era[0]=w", "era+=(w)", "unset ER", "ER+=x", "era+=Q"}) // readonly in Env
	case 11:
		g.feat("array")
		return fmt.Sprintf("%s=([%d]=%s %s [%d]=%s)", g.array(), g.r.Intn(6), g.word(), g.word(), g.r.Intn(9), g.word())
	case 12:
		return "read -r " + g.scalar() + " <<< " + g.word()
	case 13:
		g.feat("array")
		return "read -ra " + g.array() + " <<< \"p q r\""
	case 14:
		// arithmetic assignment to an array element (`(( arr[2] = 7 ))`) is not generated: it panics
		// with "variable name must not be empty" (C28's finding), and in a background job that
		// panic cannot be recovered by the harness
		return g.r.Pick([]string{"(( x = 3 + 4 ))", "let y=5 'x+=1'", "(( x++ )) || true", ": $(( y = x + 1 ))", ": ${ea[0]:=d}", ": ${es[4]:=d}"})
	default:
		return g.scalar() + "=" + g.word() + " " + g.scalar() + "+=" + g.word()
	}
}

func (g *c29Gen) declare() string {
	g.feat("declare")
	switch g.r.Intn(12) {
	case 0:
		return "v='q=5'; declare $v; echo $q" // DeclClause argument expanded to name=value
	case 1:
		return "declare " + g.r.Pick([]string{"-x", "-r", "-g", ""}) + " d" + g.r.Pick([]string{"1", "2"}) + "=" + g.word()
	case 2:
		return "declare {p,q}=1; echo $p $q" // braces inside a declare argument
	case 3:
		return "nm=z; declare \"$nm=$x\" w{1,2}=3; echo $z $w1 $w2"
	case 4:
		g.feat("array")
		return "declare -a " + g.array() + "=(" + g.words(1, 3) + ")"
	case 5:
		g.feat("array")
		return "declare -A mm=([a]=" + g.word() + " [b]=2); echo ${mm[a]}"
	case 6:
		return "declare -p " + g.name() + " || true"
	case 7:
		return "fl=-x; declare $fl " + g.scalar() // expanded flag
	case 8:
		return "export " + g.words(1, 2) + " 2>/dev/null || true" // export of expanded words
	case 9:
		return "readonly rz" + fmt.Sprint(g.r.Intn(3)) + "=" + g.word() + " 2>/dev/null || true"
	case 10:
		return "declare -n ref=" + g.scalar() + "; ref=" + g.word() + "; unset -n ref"
	default:
		g.feat("array")
		return "args='" + g.array() + "+=Q'; declare \"$args\" 2>/dev/null || true"
	}
}

func (g *c29Gen) aliasStmt() string {
	g.feat("alias")
	switch g.r.Intn(8) {
	case 0:
		return "alias ll='echo {a,b}'"
	case 1:
		return "alias e2='echo '" // trailing blank: the next word is alias-expanded too
	case 2:
		return "alias w='word{1,2} $x'"
	case 3:
		return "ll x{1,2} " + g.word()
	case 4:
		return "e2 w w " + g.word()
	case 5:
		return "alias " + g.r.Pick([]string{"", "ll", "e2", "nope"}) + " || true"
	case 6:
		return "unalias " + g.r.Pick([]string{"ll", "e2", "w"}) + " 2>/dev/null || true"
	default:
		return "alias e3='e2 w'; e3 " + g.words(1, 2)
	}
}

func (g *c29Gen) heredoc() string {
	g.feat("heredoc")
	tag := g.r.Pick([]string{"EOF", "'EOF'", "\\EOF", "\"EOF\"", "E'O'F"})
	plain := strings.Trim(tag, "'\"\\")
	plain = strings.ReplaceAll(plain, "'", "")
	body := func(tabs bool) string {
		var sb strings.Builder
		n := 1 + g.r.Intn(3)
		for i := 0; i < n; i++ {
			if tabs {
				sb.WriteString(strings.Repeat("\t", g.r.Intn(3)))
			}
			sb.WriteString(g.r.Pick([]string{"line $x {a,b}", "$(echo in) text", "${arr[@]} $EV", "plain", "a\\$b `echo bq`", "\"q\" 'q'", "$((2*3)) ${y:-d}"}))
			sb.WriteString("\n")
		}
		return sb.String()
	}
	switch g.r.Intn(5) {
	case 0:
		return "cat <<" + tag + "\n" + body(false) + plain
	case 1:
		return "cat <<-" + tag + "\n" + body(true) + "\t" + plain // the <<- line splitter builds new words
	case 2:
		return "while read -r l; do echo \"[$l]\"; done <<" + tag + "\n" + body(false) + plain
	case 3:
		return "cat <<< " + g.word()
	default:
		return "cat <<-" + tag + " | cat\n" + body(true) + plain
	}
}

func (g *c29Gen) funcStmt() string {
	g.feat("func")
	g.nfunc++
	fn := fmt.Sprintf("f%d", g.r.Intn(3))
	switch g.r.Intn(7) {
	case 0:
		return fn + "() { local l=$1 " + g.scalar() + "=" + g.word() + "; " + g.leaf() + "; echo \"$l\" {a,b}; }"
	case 1:
		return fn + " " + g.words(0, 3) + " || true"
	case 2:
		return "declare -f " + fn + " || true" // prints the stored body
	case 3:
		return fn + "() { " + g.leaf() + "; " + g.leaf() + "; return " + fmt.Sprint(g.r.Intn(3)) + "; }"
	case 4:
		return "function " + fn + " { for i in {1..2} \"$@\"; do " + g.leaf() + "; done; }"
	case 5:
		return "unset -f " + fn
	default:
		return "type " + fn + " 2>/dev/null || true"
	}
}

func (g *c29Gen) trapStmt() string {
	g.feat("trap")
	switch g.r.Intn(5) {
	case 0:
		return "trap 'echo bye {a,b} $x' EXIT"
	case 1:
		return "trap 'echo err $?' ERR; false; true"
	case 2:
		return "trap '" + g.leaf() + "' EXIT"
	case 3:
		return "trap - EXIT ERR"
	default:
		return "trap"
	}
}

func (g *c29Gen) bgStmt() string {
	g.feat("background")
	switch g.r.Intn(8) {
	case 0:
		return "{ echo bg{1,2}; x=5; " + g.leaf() + "; } & wait"
	case 1:
		return g.simple() + " & wait $!"
	case 2:
		return g.simple() + " | while read -r l; do echo \"<$l>\"; " + g.leaf() + "; done"
	case 3:
		return "read -r l < <(echo {a,b} " + g.word() + "); echo $l"
	case 4:
		return "f0 " + g.word() + " & " + g.leaf() + "; wait"
	case 5:
		return g.leaf() + " & " + g.leaf() + " & wait %1 2>/dev/null; wait"
	case 6:
		return "( " + g.leaf() + "; " + g.leaf() + " )"
	default:
		return "echo {a,b} | cat | cat"
	}
}

func (g *c29Gen) compound() string {
	g.feat("compound")
	g.depth++
	defer func() { g.depth-- }()
	switch g.r.Intn(10) {
	case 0:
		return "if [[ " + g.word() + " == " + g.r.Pick([]string{"a*", "$x", "{a,b}", "lit"}) + " ]]; then " + g.leaf() + "; else " + g.leaf() + "; fi"
	case 1:
		return "for i in " + g.words(1, 3) + "; do " + g.leaf() + "; done"
	case 2:
		return "case " + g.word() + " in " + g.r.Pick([]string{"a*|{a,b})", "$x)", "lit|w1)"}) + " " + g.leaf() + " ;; *) " + g.leaf() + " ;; esac"
	case 3:
		return "n=0; while (( n < 2 )); do " + g.leaf() + "; (( n++ )); done"
	case 4:
		return "for ((i=0; i<2; i++)); do " + g.leaf() + "; done"
	case 5:
		return "eval \"" + g.r.Pick([]string{"echo {a,b}", "x=ev", "arr+=(ev)", "echo \\$x"}) + "\""
	case 6:
		return "set -x; " + g.leaf() + "; " + g.assign() + "; set +x" // xtrace prints nodes
	case 7:
		return "{ " + g.leaf() + "; " + g.leaf() + "; } > /dev/null"
	case 8:
		return "set -- " + g.words(0, 3) + "; shift 2>/dev/null; echo $#"
	default:
		return "time " + g.simple()
	}
}

// leaf is a statement usable inside other statements (no here-document, which needs line layout).
func (g *c29Gen) leaf() string {
	if g.depth > 2 {
		return g.simple()
	}
	switch n := g.r.Intn(100); {
	case n < 30:
		return g.simple()
	case n < 55:
		return g.assign()
	case n < 65:
		return g.declare()
	case n < 72:
		return g.aliasStmt()
	case n < 80:
		return g.funcStmt()
	case n < 90:
		return g.compound()
	default:
		return g.bgStmt()
	}
}

func (g *c29Gen) stmt() string {
	switch n := g.r.Intn(100); {
	case n < 12:
		return g.heredoc()
	case n < 18:
		return g.trapStmt()
	default:
		return g.leaf()
	}
}

// c29GenProgram returns the statements of one program and its feature tags.
func c29GenProgram(r *Rand) ([]string, []string) {
	g := &c29Gen{r: r, feats: map[string]bool{}}
	var stmts []string
	if r.Chance(70) {
		stmts = append(stmts, "shopt -s expand_aliases")
	}
	if r.Chance(50) {
		stmts = append(stmts, "arr=(one two three)")
	}
	if r.Chance(30) {
		stmts = append(stmts, "f0() { echo f0 \"$@\" {a,b}; x=$1; }")
	}
	n := 2 + r.Intn(7)
	for i := 0; i < n; i++ {
		stmts = append(stmts, g.stmt())
	}
	var tags []string
	for f := range g.feats {
		tags = append(tags, "feat:"+f)
	}
	return stmts, tags
}
