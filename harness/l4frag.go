//go:build c01 || c02 || all

package main

// The tie between the Lean L4 model (fragment F0) and the Go code: S-expression dump of fragment
// trees, generators of fragment trees (arbitrary positions) and fragment sources (layout noise),
// and the batch call of the compiled Lean driver used to classify arbitrary inputs as in-fragment
// (the model's own `outside` answer is the fragment boundary).

import (
	"bufio"
	"bytes"
	"fmt"
	"os"
	"os/exec"
	"path/filepath"
	"strings"

	"mvdan.cc/sh/v3/syntax"
)

func f0Safe(b byte) bool {
	return b >= 'a' && b <= 'z' || b >= 'A' && b <= 'Z' || b >= '0' && b <= '9' || strings.IndexByte("%+,-./:@^_", b) >= 0
}

func f0SglSafe(b byte) bool { return b >= 32 && b <= 126 && b != '\'' && b != '\\' || b == '\n' }

func f0Pos(p syntax.Pos) string { return fmt.Sprintf("%d:%d:%d", p.Offset(), p.Line(), p.Col()) }

var f0Keywords = map[string]bool{"if": true, "then": true, "elif": true, "else": true, "fi": true, "while": true, "until": true, "do": true,
	"done": true, "for": true, "case": true, "esac": true, "select": true, "function": true, "[[": true, "]]": true, "let": true, "declare": true,
	"local": true, "export": true, "readonly": true, "typeset": true, "nameref": true, "time": true, "coproc": true, "@test": true, "{}": true}

// f0Word dumps a word of the fragment.
func f0Word(sb *strings.Builder, w *syntax.Word) bool {
	if w == nil || len(w.Parts) == 0 {
		return false
	}
	sb.WriteString("( W")
	for _, p := range w.Parts {
		switch p := p.(type) {
		case *syntax.Lit:
			if p.Value == "" {
				return false
			}
			for i := 0; i < len(p.Value); i++ {
				if !f0Safe(p.Value[i]) {
					return false
				}
			}
			fmt.Fprintf(sb, " ( L %s %s %s )", f0Pos(p.ValuePos), f0Pos(p.ValueEnd), hx(p.Value))
		case *syntax.SglQuoted:
			if p.Dollar {
				return false
			}
			for i := 0; i < len(p.Value); i++ {
				if !f0SglSafe(p.Value[i]) {
					return false
				}
			}
			fmt.Fprintf(sb, " ( Q %s %s %s )", f0Pos(p.Left), f0Pos(p.Right), hx(p.Value))
		default:
			return false
		}
	}
	sb.WriteString(" )")
	return true
}

func f0Stmt(sb *strings.Builder, s *syntax.Stmt) bool {
	if s == nil || s.Cmd == nil || len(s.Comments) > 0 || len(s.Redirs) > 0 || s.Coprocess || s.Disown {
		return false
	}
	fmt.Fprintf(sb, "( S %s %s %s %s ", f0Pos(s.Position), f0Pos(s.Semicolon), b01(s.Negated), b01(s.Background))
	if !f0Cmd(sb, s.Cmd) {
		return false
	}
	sb.WriteString(" )")
	return true
}

func f0Stmts(sb *strings.Builder, ss []*syntax.Stmt) bool {
	for _, s := range ss {
		sb.WriteByte(' ')
		if !f0Stmt(sb, s) {
			return false
		}
	}
	return true
}

func f0Cmd(sb *strings.Builder, c syntax.Command) bool {
	switch c := c.(type) {
	case *syntax.CallExpr:
		if len(c.Assigns) > 0 || len(c.Args) == 0 {
			return false
		}
		if lit := c.Args[0].Lit(); f0Keywords[lit] {
			return false
		}
		sb.WriteString("( C")
		for _, w := range c.Args {
			sb.WriteByte(' ')
			if !f0Word(sb, w) {
				return false
			}
		}
		sb.WriteString(" )")
		return true
	case *syntax.Subshell:
		if len(c.Stmts) == 0 || len(c.Last) > 0 {
			return false
		}
		fmt.Fprintf(sb, "( P %s %s", f0Pos(c.Lparen), f0Pos(c.Rparen))
		if !f0Stmts(sb, c.Stmts) {
			return false
		}
		sb.WriteString(" )")
		return true
	case *syntax.Block:
		if len(c.Stmts) == 0 || len(c.Last) > 0 {
			return false
		}
		fmt.Fprintf(sb, "( B %s %s", f0Pos(c.Lbrace), f0Pos(c.Rbrace))
		if !f0Stmts(sb, c.Stmts) {
			return false
		}
		sb.WriteString(" )")
		return true
	case *syntax.BinaryCmd:
		var op string
		switch c.Op {
		case syntax.AndStmt:
			op = "and"
		case syntax.OrStmt:
			op = "or"
		case syntax.Pipe:
			op = "pipe"
		default:
			return false
		}
		fmt.Fprintf(sb, "( Y %s %s ", f0Pos(c.OpPos), op)
		if !f0Stmt(sb, c.X) {
			return false
		}
		sb.WriteByte(' ')
		if !f0Stmt(sb, c.Y) {
			return false
		}
		sb.WriteString(" )")
		return true
	}
	return false
}

// f0File dumps a file of the fragment; ok=false when the tree leaves the fragment.
func f0File(f *syntax.File) (string, bool) {
	if f == nil || len(f.Last) > 0 {
		return "", false
	}
	var sb strings.Builder
	sb.WriteString("( F")
	if !f0Stmts(&sb, f.Stmts) {
		return "", false
	}
	sb.WriteString(" )")
	return sb.String(), true
}

func f0Node(n syntax.Node) (kind, sexp string, ok bool) {
	var sb strings.Builder
	switch n := n.(type) {
	case *syntax.File:
		s, ok := f0File(n)
		return "file", s, ok
	case *syntax.Stmt:
		ok = f0Stmt(&sb, n)
		return "stmt", sb.String(), ok
	case *syntax.Word:
		ok = f0Word(&sb, n)
		return "word", sb.String(), ok
	case syntax.Command:
		ok = f0Cmd(&sb, n)
		return "cmd", sb.String(), ok
	}
	return "", "", false
}

// goPrintAnswer is the implementation's canonical answer to a model `print` op.
func goPrintAnswer(o l4Opts, n syntax.Node) string {
	out, err, pan := o.printNode(n)
	switch {
	case pan != "":
		return "panic"
	case err != nil && o.Minify && o.Single:
		return "refused"
	case err != nil:
		return "error"
	}
	return "ok " + hx(out)
}

// goParseAnswer is the implementation's canonical answer to a model `parse` op.
func goParseAnswer(lang syntax.LangVariant, src string) string {
	f, err, pan := parseIn(src, lang, syntax.KeepComments(true))
	switch {
	case pan != "":
		return "panic"
	case err != nil:
		return "error"
	}
	s, ok := f0File(f)
	if !ok {
		return "ok (tree outside the fragment)"
	}
	return "ok " + s
}

// goSpecRT evaluates C01's statement on the implementation for a fragment source.
func goSpecRT(o l4Opts, lang syntax.LangVariant, src string) string {
	f, err, pan := parseIn(src, lang, syntax.KeepComments(true))
	if err != nil || pan != "" {
		return "noparse-src"
	}
	cfg := normCfg{minify: o.Minify}
	want := normDump(f, cfg)
	out, perr, ppan := o.printNode(f)
	switch {
	case ppan != "":
		return "panic"
	case perr != nil:
		return "refused"
	}
	f2, err2, pan2 := parseIn(out, lang, syntax.KeepComments(true))
	if err2 != nil || pan2 != "" {
		return "reparse-fail"
	}
	if _, ok := f0File(f2); !ok {
		return "reparse-fail" // the output left the fragment (e.g. `((` read as arithmetic)
	}
	if normDump(f2, cfg) == want {
		return "same"
	}
	return "diff"
}

// goSpecIdem evaluates C02's statement on the implementation for a fragment source.
func goSpecIdem(o l4Opts, lang syntax.LangVariant, src string) string {
	f, err, pan := parseIn(src, lang, syntax.KeepComments(true))
	if err != nil || pan != "" {
		return "noparse-src"
	}
	out, perr, ppan := o.printNode(f)
	switch {
	case ppan != "":
		return "panic"
	case perr != nil:
		return "refused"
	}
	f2, err2, pan2 := parseIn(out, lang, syntax.KeepComments(true))
	if err2 != nil || pan2 != "" {
		return "reparse-fail"
	}
	if _, ok := f0File(f2); !ok {
		return "reparse-fail"
	}
	out2, perr2, ppan2 := o.printNode(f2)
	if perr2 != nil || ppan2 != "" {
		return "panic"
	}
	if out2 == out {
		return "stable"
	}
	return "unstable"
}

// ---------------------------------------------------------------------------------------------
// generators

var f0Lits = []string{"a", "b", "foo", "bar", "x1", "-n", "a.b", "/tmp/x", "A_B", "1", "22", "a+b", "x:y", "%s", "a,b", "@", "^"}
var f0Sgls = []string{"", "a b", "x;y", "$a", "\"q\"", "#c", "a\nb", "(", "{ }", "&&", "it s", "\t"}

// f0GenSource draws a program of the fragment as source text with layout noise: blanks, tabs,
// `;` vs newline, blank lines, escaped newlines between tokens.
type f0Gen struct {
	r     *Rand
	depth int
}

func (g *f0Gen) blank() string {
	switch k := g.r.Intn(20); {
	case k < 14:
		return " "
	case k < 16:
		return "  "
	case k < 18:
		return "\t"
	case k == 18:
		return " \\\n"
	default:
		return " \\\n\t"
	}
}

func (g *f0Gen) optBlank() string {
	if g.r.Chance(35) {
		return g.blank()
	}
	return ""
}

func (g *f0Gen) word() string {
	var sb strings.Builder
	for i, n := 0, 1+g.r.Intn(2); i < n; i++ {
		if g.r.Chance(75) {
			sb.WriteString(g.r.Pick(f0Lits))
		} else {
			s := g.r.Pick(f0Sgls)
			if strings.Contains(s, "\t") {
				s = "t"
			}
			sb.WriteString("'" + s + "'")
		}
	}
	return sb.String()
}

func (g *f0Gen) call() string {
	ws := []string{g.word()}
	for i, n := 0, g.r.Intn(4); i < n; i++ {
		ws = append(ws, g.word())
	}
	if f0Keywords[ws[0]] {
		ws[0] = "cmd"
	}
	var sb strings.Builder
	for i, w := range ws {
		if i > 0 {
			sb.WriteString(g.blank())
		}
		sb.WriteString(w)
	}
	return sb.String()
}

// sep is a statement separator inside a list.
func (g *f0Gen) sep(bg bool) string {
	term := ";"
	if bg {
		term = "&"
	}
	switch k := g.r.Intn(10); {
	case k < 3:
		return g.optBlank() + term + g.blank()
	case k < 5 && !bg:
		return g.optBlank() + "\n"
	case k < 7:
		return g.optBlank() + term + g.optBlank() + "\n" + strings.Repeat("\n", g.r.Intn(3))
	case k < 9 && !bg:
		return "\n" + strings.Repeat("\t", g.r.Intn(3))
	default:
		return g.optBlank() + term + "\n"
	}
}

func (g *f0Gen) list(n int, closing string) string {
	var sb strings.Builder
	for i := 0; i < n; i++ {
		bg := g.r.Chance(12)
		sb.WriteString(g.stmt())
		if i+1 < n {
			sb.WriteString(g.sep(bg))
			continue
		}
		// last statement before the closing token
		switch closing {
		case "}":
			if bg {
				sb.WriteString(" &" + g.blank())
			} else if g.r.Bool() {
				sb.WriteString(g.optBlank() + ";" + g.blank())
			} else {
				sb.WriteString(g.optBlank() + "\n" + g.optBlank())
			}
		case ")":
			if bg {
				sb.WriteString(" &")
			} else if g.r.Chance(20) {
				sb.WriteString(";")
			}
			if g.r.Chance(25) {
				sb.WriteString("\n")
			}
			sb.WriteString(g.optBlank())
		default:
			if bg {
				sb.WriteString(" &")
			} else if g.r.Chance(20) {
				sb.WriteString(";")
			}
		}
	}
	return sb.String()
}

func (g *f0Gen) stmt() string {
	neg := ""
	if g.r.Chance(10) {
		neg = "!" + g.blank()
	}
	return neg + g.andOr()
}

func (g *f0Gen) andOr() string {
	s := g.pipeline()
	for g.r.Chance(20) {
		op := g.r.Pick([]string{"&&", "||"})
		nl := ""
		if g.r.Chance(30) {
			nl = "\n" + g.optBlank()
		}
		neg := ""
		if g.r.Chance(10) {
			neg = "! "
		}
		s += g.optBlank() + op + g.optBlank() + nl + neg + g.pipeline()
	}
	return s
}

func (g *f0Gen) pipeline() string {
	s := g.cmd()
	for g.r.Chance(20) {
		nl := ""
		if g.r.Chance(30) {
			nl = "\n" + g.optBlank()
		}
		s += g.optBlank() + "|" + g.optBlank() + nl + g.cmd()
	}
	return s
}

func (g *f0Gen) cmd() string {
	if g.depth <= 0 {
		return g.call()
	}
	switch k := g.r.Intn(10); {
	case k < 6:
		return g.call()
	case k < 8:
		g.depth--
		defer func() { g.depth++ }()
		open := "("
		if g.r.Chance(30) {
			open += g.r.Pick([]string{" ", "\n", "\n\t", "  "})
		}
		return open + g.list(1+g.r.Intn(3), ")") + ")"
	default:
		g.depth--
		defer func() { g.depth++ }()
		return "{" + g.r.Pick([]string{" ", "\n", "\n\t", "\t"}) + g.list(1+g.r.Intn(3), "}") + "}"
	}
}

func f0GenSource(r *Rand) string {
	g := &f0Gen{r: r, depth: r.Intn(3)}
	src := strings.Repeat("\n", r.Intn(2)) + g.list(1+r.Intn(3), "")
	// `((` opens an arithmetic command outside POSIX mode: keep nested subshells apart
	for strings.Contains(src, "((") {
		src = strings.ReplaceAll(src, "((", "( (")
	}
	if r.Chance(80) {
		src += "\n"
	}
	return src
}

// f0Scramble gives the nodes of a fragment tree arbitrary line numbers: the printer's layout
// decisions only read lines, and the theorems quantify over every assignment of positions.
func f0Scramble(r *Rand, f *syntax.File, monotone bool) {
	line := uint(1)
	next := func() syntax.Pos {
		if monotone {
			line += uint(r.Pick([]string{"0", "0", "0", "1", "1", "2", "3"})[0] - '0')
		} else {
			line = uint(1 + r.Intn(6))
		}
		return syntax.NewPos(uint(r.Intn(50)), line, uint(1+r.Intn(20)))
	}
	var scr func(n syntax.Node)
	scr = func(n syntax.Node) {
		switch n := n.(type) {
		case *syntax.File:
			for _, s := range n.Stmts {
				scr(s)
			}
		case *syntax.Stmt:
			n.Position = next()
			scr(n.Cmd)
			if n.Semicolon.IsValid() || r.Chance(15) {
				n.Semicolon = next()
			}
			if n.Background && r.Chance(10) {
				n.Semicolon = syntax.Pos{}
			}
		case *syntax.CallExpr:
			for _, w := range n.Args {
				for _, p := range w.Parts {
					switch p := p.(type) {
					case *syntax.Lit:
						p.ValuePos = next()
						p.ValueEnd = next()
					case *syntax.SglQuoted:
						p.Left = next()
						p.Right = next()
					}
				}
			}
		case *syntax.Subshell:
			n.Lparen = next()
			for _, s := range n.Stmts {
				scr(s)
			}
			n.Rparen = next()
		case *syntax.Block:
			n.Lbrace = next()
			for _, s := range n.Stmts {
				scr(s)
			}
			n.Rbrace = next()
		case *syntax.BinaryCmd:
			scr(n.X)
			n.OpPos = next()
			scr(n.Y)
		}
	}
	scr(f)
}

// ---------------------------------------------------------------------------------------------
// batch call of the Lean driver (classification only)

func driverPath(id string) string {
	root := os.Getenv("VERIF_ROOT")
	if root == "" {
		root = "/verif"
	}
	return filepath.Join(root, "lean", ".lake", "build", "bin", "drv_"+id)
}

// modelBatch sends the op lines to the compiled driver and returns one answer per line; nil when
// the driver is not available (then nothing is classified as in-fragment).
func modelBatch(id string, ops []string) []string {
	if len(ops) == 0 {
		return nil
	}
	path := driverPath(id)
	if _, err := os.Stat(path); err != nil {
		return nil
	}
	var in bytes.Buffer
	for _, op := range ops {
		in.WriteString(id + " " + op + "\n")
	}
	cmd := exec.Command(path)
	cmd.Stdin = &in
	out, err := cmd.Output()
	if err != nil {
		return nil
	}
	var res []string
	sc := bufio.NewScanner(bytes.NewReader(out))
	sc.Buffer(make([]byte, 1<<20), 1<<26)
	for sc.Scan() {
		res = append(res, sc.Text())
	}
	if len(res) != len(ops) {
		return nil
	}
	return res
}

// l4Tie emits the correspondence ops of the L4 model for one property run.
//   - parse ops on generated fragment sources (the model must not answer `outside`);
//   - parse ops on arbitrary inputs the model itself accepts as in-fragment;
//   - print ops for every in-fragment tree × option sets (file, and sub-nodes);
//   - print ops on fragment trees with scrambled positions;
//   - reprint ops (both passes inside the model).
func l4Tie(c *Ctx, nGen int, extra []l4Case, noKeepPad bool) {
	inFrag, outFrag := 0, 0
	printOps := func(f *syntax.File, n int) {
		if _, ok := f0File(f); !ok {
			return
		}
		for k := 0; k < n; k++ {
			o := randOpts(c.R, true)
			if k == 0 {
				o = l4DefaultOpts
			}
			kind, sexp, _ := f0Node(f)
			c.Op("print "+o.String()+" "+kind+" "+sexp, goPrintAnswer(o, f))
		}
		// sub-nodes with one option set
		o := randOpts(c.R, true)
		for _, sn := range subnodesOf(f) {
			if kind, sexp, ok := f0Node(sn.node); ok && c.R.Chance(30) {
				c.Op("print "+o.String()+" "+kind+" "+sexp, goPrintAnswer(o, sn.node))
			}
		}
	}
	// 1. generated fragment sources
	for i := 0; i < nGen; i++ {
		lang := allLangs[c.R.Intn(len(allLangs))]
		src := f0GenSource(c.R)
		ans := goParseAnswer(lang, src)
		c.Op("parse "+lang.String()+" "+hx(src), ans)
		c.Case("f0src:"+src, strings.Count(ans, "( S") >= 2, "tie=gen-source")
		inFrag++
		f, err, _ := parseIn(src, lang, syntax.KeepComments(true))
		if err != nil || f == nil {
			continue
		}
		printOps(f, 3)
		o := randOpts(c.R, true)
		out, perr, pan := o.printNode(f)
		ans2 := "ok " + hx(out)
		if pan != "" {
			ans2 = "panic"
		} else if perr != nil {
			ans2 = "refused"
		}
		c.Op("reprint "+o.String()+" "+lang.String()+" "+hx(src), ans2)
		// the properties' own statements, evaluated on both sides
		o2 := randOpts(c.R, true)
		c.Op("specrt "+o2.String()+" "+lang.String()+" "+hx(src), goSpecRT(o2, lang, src))
		c.Op("specidem "+o2.String()+" "+lang.String()+" "+hx(src), goSpecIdem(o2, lang, src))
		// the hypothesis of C02's reprint_fixpoint: the re-parsed tree carries the lines on which the
		// first pass wrote its tokens (programs without subshells and blocks, no SingleLine) —
		// inside the model (spectr) and on the trees of the Go parser (spectrfile)
		if s1, ok := f0File(f); ok && !o2.Single && !strings.Contains(s1, "( P ") && !strings.Contains(s1, "( B ") {
			if out2, perr2, pan2 := o2.printNode(f); perr2 == nil && pan2 == "" {
				if f2, err2, pan3 := parseIn(out2, lang, syntax.KeepComments(true)); err2 == nil && pan3 == "" && f2 != nil {
					if s2, ok2 := f0File(f2); ok2 {
						c.Op("spectr "+o2.String()+" "+lang.String()+" "+hx(src), "transcript")
						c.Op(fmt.Sprintf("spectrfile %s %d %s %s", o2.String(), len(strings.Fields(s1)), s1, s2), "true")
					}
				}
			}
		}
		// scrambled positions
		if c.R.Chance(50) {
			f0Scramble(c.R, f, c.R.Chance(70))
			printOps(f, 2)
		}
	}
	// 2. arbitrary inputs, classified by the model
	var cand []l4Case
	var ops []string
	for _, tc := range extra {
		f, err, _ := parseIn(tc.Src, tc.Lang, syntax.KeepComments(true))
		if err != nil || f == nil {
			continue
		}
		if _, ok := f0File(f); !ok {
			outFrag++
			continue
		}
		cand = append(cand, tc)
		ops = append(ops, "parse "+tc.Lang.String()+" "+hx(tc.Src))
	}
	answers := modelBatch(c.ID, ops)
	for i, tc := range cand {
		if answers == nil || answers[i] == "outside" {
			outFrag++
			continue
		}
		inFrag++
		c.Op(ops[i], goParseAnswer(tc.Lang, tc.Src))
		if f, err, _ := parseIn(tc.Src, tc.Lang, syntax.KeepComments(true)); err == nil {
			printOps(f, 2)
		}
	}
	c.Extra["in_fragment"] = inFrag
	c.Extra["out_of_fragment"] = outFrag
	c.Extra["fragment_stage"] = "F0"
}
