//go:build c13 || all

package main

import (
	"fmt"
	"strconv"
	"strings"
	"unicode"
	"unicode/utf8"

	"mvdan.cc/sh/v3/expand"
	"mvdan.cc/sh/v3/syntax"
)

// C13 — Quote produces a word that expands back to the string.
//
// Correspondence streams (model ops): `quote` (syntax.Quote), `dec` (utf8.DecodeRuneInString),
// `isprint-table` (unicode.IsPrint, every code point), `fmt` (expand.Format with nil args = the
// $'…' escapes), `lex` (Parser.Words on the four word shapes), `unq` (expand.Literal of those words),
// `cmd` (Parser.Parse of one word as a whole program: simple command / assignment / clause).
// Specification stream: `specrt` (the property itself, decided by the Lean spec).
// Search leg (independent of Lean): a Go oracle for "the variant cannot represent s", the real
// parser + expand.Literal round trip (also in argument position), and `printf %s <quoted>` in
// bash (LangBash) and dash (LangPOSIX).
func init() { register("C13", c13) }

var c13ErrKinds = map[string]string{
	"shell strings cannot contain null bytes":     "null",
	"POSIX shell lacks escape sequences":          "posix",
	"rune out of range":                           "range",
	"mksh cannot escape codepoints above 16 bits": "mksh",
}

func c13Quote(s string, lang syntax.LangVariant) (string, string, bool) {
	var out, q string
	ok := false
	p := safely(func() {
		var err error
		q, err = syntax.Quote(s, lang)
		if err != nil {
			qe, isQE := err.(*syntax.QuoteError)
			if !isQE {
				out = "err-type " + fmt.Sprintf("%T", err)
				return
			}
			k, known := c13ErrKinds[qe.Message]
			if !known {
				k = "unknown-message"
			}
			if q != "" {
				k += "+nonempty-result"
			}
			out = fmt.Sprintf("err %d %s", qe.ByteOffset, k)
			return
		}
		ok = true
		out = "ok " + hx(q)
	})
	if p != "" {
		return "panic", "", false
	}
	return out, q, ok
}

// c13ParserLang is the variant handed to syntax.Variant for a Quote variant (Variant accepts the
// legacy zero value; LangAuto and unknown bit sets are rejected by Variant, so they get no parse leg).
func c13ParserLang(lang syntax.LangVariant) (syntax.LangVariant, bool) {
	switch lang {
	case 0, syntax.LangBash, syntax.LangPOSIX, syntax.LangMirBSDKorn, syntax.LangBats, syntax.LangZsh:
		return lang, true
	}
	return 0, false
}

func c13Words(lang syntax.LangVariant, q string) (words []*syntax.Word, errText string) {
	p := safely(func() {
		ps := syntax.NewParser(syntax.Variant(lang))
		err := ps.Words(strings.NewReader(q), func(w *syntax.Word) bool {
			words = append(words, w)
			return true
		})
		if err != nil {
			errText = err.Error()
		}
	})
	if p != "" {
		errText = "panic: " + p
	}
	return
}

// c13ShowWord renders a word made of Lit / SglQuoted / DblQuoted-with-at-most-one-Lit parts;
// ok=false when it has any other part kind.
func c13ShowWord(w *syntax.Word) (string, bool) {
	var parts []string
	for _, wp := range w.Parts {
		switch wp := wp.(type) {
		case *syntax.Lit:
			parts = append(parts, "L:"+hx(wp.Value))
		case *syntax.SglQuoted:
			if wp.Dollar {
				parts = append(parts, "D:"+hx(wp.Value))
			} else {
				parts = append(parts, "S:"+hx(wp.Value))
			}
		case *syntax.DblQuoted:
			if wp.Dollar {
				return "", false
			}
			switch len(wp.Parts) {
			case 0:
				parts = append(parts, "Q:-")
			case 1:
				l, isLit := wp.Parts[0].(*syntax.Lit)
				if !isLit {
					return "", false
				}
				parts = append(parts, "Q:"+hx(l.Value))
			default:
				return "", false
			}
		default:
			return "", false
		}
	}
	return strings.Join(parts, "+"), true
}

func c13StartsWithTilde(w *syntax.Word) bool {
	if len(w.Parts) == 0 {
		return false
	}
	l, ok := w.Parts[0].(*syntax.Lit)
	return ok && strings.HasPrefix(l.Value, "~")
}

func c13Lex(lang syntax.LangVariant, q string) (lex, unq string) {
	words, errText := c13Words(lang, q)
	if errText != "" {
		return "err", "err"
	}
	var shown, lits []string
	for _, w := range words {
		s, ok := c13ShowWord(w)
		if !ok {
			return "outside", "outside"
		}
		shown = append(shown, s)
	}
	lex = strings.Join(append([]string{"words"}, shown...), " ")
	for _, w := range words {
		if c13StartsWithTilde(w) {
			return lex, "outside"
		}
		var lit string
		var err error
		p := safely(func() { lit, err = expand.Literal(nil, w) })
		if p != "" {
			return lex, "panic"
		}
		if err != nil {
			return lex, "err"
		}
		lits = append(lits, hx(lit))
	}
	return lex, strings.Join(append([]string{"ok"}, lits...), " ")
}

// c13Unrepresentable is the Go oracle for the failure set in the property's wording; it uses
// only unicode/utf8 and the variant constants (independent of Quote and of the Lean model).
func c13Unrepresentable(s string, lang syntax.LangVariant) bool {
	if lang == 0 {
		lang = syntax.LangBash // "The zero value is LangBash"
	}
	if strings.IndexByte(s, 0) >= 0 {
		return true
	}
	for i := 0; i < len(s); {
		r, w := utf8.DecodeRuneInString(s[i:])
		i += w
		np := r == utf8.RuneError || !unicode.IsPrint(r)
		if lang == syntax.LangPOSIX && np {
			return true
		}
		if lang == syntax.LangMirBSDKorn && np && r > 0xFFFD {
			return true
		}
	}
	return false
}

// c13RoundTrip runs the property on the implementation: "fail" when Quote refuses, "ok" when the
// result is exactly one word of literal/quoted parts that expands to s (as a lone word and as an
// argument of a simple command, and as the command word of a program consisting of nothing else),
// otherwise "bad <reason>".
func c13RoundTrip(s string, lang syntax.LangVariant) string {
	out, q, ok := c13Quote(s, lang)
	if !ok {
		if strings.HasPrefix(out, "err ") {
			return "fail"
		}
		return "bad " + strings.ReplaceAll(out, " ", "_")
	}
	words, errText := c13Words(lang, q)
	if errText != "" {
		return "bad parse-error"
	}
	if len(words) != 1 {
		return fmt.Sprintf("bad words=%d", len(words))
	}
	if _, okParts := c13ShowWord(words[0]); !okParts {
		return "bad part-kind"
	}
	var lit string
	var err error
	if p := safely(func() { lit, err = expand.Literal(nil, words[0]) }); p != "" || err != nil {
		return "bad expand-error"
	}
	if lit != s {
		return "bad expands-to-" + hx(lit)
	}
	// argument position of a simple command
	res := ""
	p := safely(func() {
		f, err := syntax.NewParser(syntax.Variant(lang)).Parse(strings.NewReader("printf %s "+q), "")
		if err != nil {
			res = "bad arg-parse-error"
			return
		}
		if len(f.Stmts) != 1 || len(f.Stmts[0].Redirs) != 0 || f.Stmts[0].Background || f.Stmts[0].Negated {
			res = "bad arg-stmts"
			return
		}
		ce, isCall := f.Stmts[0].Cmd.(*syntax.CallExpr)
		if !isCall || len(ce.Assigns) != 0 || len(ce.Args) != 3 {
			res = "bad arg-shape"
			return
		}
		if _, okParts := c13ShowWord(ce.Args[2]); !okParts {
			res = "bad arg-part-kind"
			return
		}
		fields, err := expand.Fields(nil, ce.Args[2])
		if err != nil || len(fields) != 1 || fields[0] != s {
			res = "bad arg-fields"
			return
		}
	})
	if p != "" {
		return "bad arg-panic"
	}
	if res != "" {
		return res
	}
	return c13CmdPos(s, q, lang)
}

// c13ClauseWord: bare words to which the parser itself gives a statement-level meaning although
// the shell treats them as ordinary command names (builtins): `let` (LetClause, a parse error
// without an expression), the declaration builtins (DeclClause) and bats' `@test`.  Quoting cannot
// and need not change that (bash runs the builtin for 'declare' too); they are not reserved words
// of the shell grammar, IsKeyword rightly does not list them, so the command-position requirement
// is relaxed for exactly these words, per variant, as the parser's gotStmtPipe switch has them.
func c13ClauseWord(s string, lang syntax.LangVariant) string {
	if lang == 0 {
		lang = syntax.LangBash
	}
	bashLike := lang == syntax.LangBash || lang == syntax.LangBats
	kshLike := bashLike || lang == syntax.LangMirBSDKorn || lang == syntax.LangZsh
	switch s {
	case "let":
		if kshLike {
			return "let"
		}
	case "declare":
		if bashLike || lang == syntax.LangZsh {
			return "decl"
		}
	case "local", "export", "readonly", "typeset", "nameref":
		if kshLike {
			return "decl"
		}
	case "@test":
		if lang == syntax.LangBats {
			return "test"
		}
	}
	return ""
}

// c13CmdPos parses the quoted text on its own, as a whole program: it must be one statement that
// is a simple command with no assignment, no redirection and exactly one word, made of
// literal/quoted parts, which expands to s (the FuzzQuote requirement of the repository).
func c13CmdPos(s, q string, lang syntax.LangVariant) string {
	res := "ok"
	p := safely(func() {
		clause := ""
		if q == s {
			clause = c13ClauseWord(s, lang)
		}
		f, err := syntax.NewParser(syntax.Variant(lang)).Parse(strings.NewReader(q), "")
		if err != nil {
			if clause == "let" || clause == "test" {
				return
			}
			res = "bad cmd-parse-error"
			return
		}
		if len(f.Stmts) != 1 {
			res = fmt.Sprintf("bad cmd-stmts=%d", len(f.Stmts))
			return
		}
		st := f.Stmts[0]
		if len(st.Redirs) != 0 || st.Background || st.Negated || st.Coprocess {
			res = "bad cmd-stmt-flags"
			return
		}
		if dc, isDecl := st.Cmd.(*syntax.DeclClause); isDecl && clause == "decl" {
			if dc.Variant == nil || dc.Variant.Value != s || len(dc.Args) != 0 {
				res = "bad cmd-decl-shape"
			}
			return
		}
		ce, isCall := st.Cmd.(*syntax.CallExpr)
		if !isCall {
			res = fmt.Sprintf("bad cmd-%T", st.Cmd)
			return
		}
		if len(ce.Assigns) != 0 || len(ce.Args) != 1 {
			res = fmt.Sprintf("bad cmd-assigns=%d-args=%d", len(ce.Assigns), len(ce.Args))
			return
		}
		if _, okParts := c13ShowWord(ce.Args[0]); !okParts {
			res = "bad cmd-part-kind"
			return
		}
		lit, err := expand.Literal(nil, ce.Args[0])
		if err != nil || lit != s {
			res = "bad cmd-expands"
		}
	})
	if p != "" {
		return "bad cmd-panic"
	}
	return res
}

type c13ShellJob struct {
	shell string
	lang  syntax.LangVariant
	s, q  string
}

func c13Shape(out, q, s string) string {
	switch {
	case strings.HasPrefix(out, "err "):
		f := strings.Fields(out)
		return "err-" + f[len(f)-1]
	case out == "panic":
		return "panic"
	case s == "":
		return "empty"
	case q == s:
		return "bare"
	case strings.HasPrefix(q, "$'"):
		if strings.Contains(q, "'$'") && strings.Count(q, "$'") > 1 {
			return "dollar-requoted"
		}
		return "dollar"
	case strings.HasPrefix(q, "'"):
		return "single"
	case strings.HasPrefix(q, "\""):
		return "double"
	}
	return "other"
}

var c13AllLangs = []syntax.LangVariant{0, syntax.LangBash, syntax.LangPOSIX, syntax.LangMirBSDKorn, syntax.LangBats, syntax.LangZsh, syntax.LangAuto}
var c13OddLangs = []syntax.LangVariant{3, 5, 6, 12, 20, 24, 64, 1 << 40}

type c13State struct {
	c          *Ctx
	jobs       []c13ShellJob // selected in runShells from prio (first) and cand (sampled)
	prio, cand []c13ShellJob
	bashBudget int
	dashBudget int
	seenShell  map[string]bool
}

// one string under one variant: model op, lex/unq of the result, spec op + search leg.
func (st *c13State) one(s string, lang syntax.LangVariant, src string) {
	c := st.c
	out, q, ok := c13Quote(s, lang)
	l := strconv.FormatInt(int64(lang), 10)
	c.Op("quote "+l+" "+hx(s), out)
	shape := c13Shape(out, q, s)
	tags := []string{"lang=" + l, "shape=" + shape, "src=" + src}
	if !utf8.ValidString(s) {
		tags = append(tags, "invalid-utf8")
	} else if len(s) != utf8.RuneCountInString(s) {
		tags = append(tags, "multibyte")
	}
	if syntax.IsKeyword(s) {
		tags = append(tags, "keyword")
	}
	c.Case(l+":"+s, shape != "bare" && shape != "empty", tags...)
	plang, parseable := c13ParserLang(lang)
	if !parseable {
		return
	}
	if ok {
		// the parser-side ops carry the variant as syntax.Variant resolves it (0 means Bash)
		if plang == 0 {
			plang = syntax.LangBash
		}
		pl := strconv.FormatInt(int64(plang), 10)
		lex, unq := c13Lex(plang, q)
		c.Op("lex "+pl+" "+hx(q), lex)
		c.Op("unq "+pl+" "+hx(q), unq)
		c.Op("cmd "+pl+" "+hx(q), c13CmdClass(plang, q))
	}
	// The property itself, for every variant Variant accepts (incl. the legacy zero value, which
	// Quote maps to LangBash since fix 9caaaf3; witness in corpus/C13-fixed.txt).
	st.spec(s, lang, false, src)
}

func (st *c13State) spec(s string, lang syntax.LangVariant, known bool, src string) {
	c := st.c
	l := strconv.FormatInt(int64(lang), 10)
	rt := c13RoundTrip(s, lang)
	wit := "specrt " + l + " " + hx(s)
	if !known {
		c.Op(wit, rt)
	}
	want := "ok"
	if c13Unrepresentable(s, lang) {
		want = "fail"
	}
	if rt != want {
		q, err := syntax.Quote(s, lang)
		c.Fail(wit, fmt.Sprintf("Quote(%q, LangVariant(%d)) = %q, %v: round trip says %q, the property demands %q", s, int64(lang), q, err, rt, want))
	}
	if known || strings.IndexByte(s, 0) >= 0 {
		return
	}
	// shell leg: independent of the Go round trip, whenever Quote gave a result
	q, err := syntax.Quote(s, lang)
	if err != nil {
		return
	}
	var job c13ShellJob
	switch lang {
	case syntax.LangBash:
		job = c13ShellJob{"bash", lang, s, q}
	case syntax.LangPOSIX:
		job = c13ShellJob{"dash", lang, s, q}
	default:
		return
	}
	if st.seenShell[job.shell+s] {
		return
	}
	st.seenShell[job.shell+s] = true
	if src == "firstpos" || src == "corpus" || src == "keyword" {
		st.prio = append(st.prio, job)
	} else {
		st.cand = append(st.cand, job)
	}
}

// c13CmdScript: after `printf %s <q>` (argument position) the same text is used as the command
// word of a command consisting of nothing else — unless the shell already knows a command of that
// name (builtin, keyword, function, file), it must then fail with "command not found" (127; 126
// for a path naming a directory).  $1 = s, $2 = q.
const c13BashCmdScript = `k=$(type -t -- "$1"); if [ -n "$k" ]; then printf 'T:%s' "$k"; else eval " $2"; printf '|%s' "$?"; fi`
const c13DashCmdScript = `if command -v -- "$1" >/dev/null 2>&1; then printf 'T:known'; else eval " $2"; printf '|%s' "$?"; fi`

func (st *c13State) selectJobs() {
	pick := func(shell string, budget int) {
		var prio, cand []c13ShellJob
		for _, j := range st.prio {
			if j.shell == shell {
				prio = append(prio, j)
			}
		}
		for _, j := range st.cand {
			if j.shell == shell {
				cand = append(cand, j)
			}
		}
		np := min(len(prio), budget/2)
		st.jobs = append(st.jobs, prio[:np]...)
		rest := budget - np
		if rest >= len(cand) {
			st.jobs = append(st.jobs, cand...)
			return
		}
		// deterministic sample without replacement
		for i := 0; i < rest; i++ {
			k := i + st.c.R.Intn(len(cand)-i)
			cand[i], cand[k] = cand[k], cand[i]
		}
		st.jobs = append(st.jobs, cand[:rest]...)
	}
	pick("bash", st.bashBudget)
	pick("dash", st.dashBudget)
}

func (st *c13State) runShells() {
	c := st.c
	st.selectJobs()
	res := parallelMap(len(st.jobs), 4, func(i int) ShellResult {
		j := st.jobs[i]
		script := "printf %s " + j.q + "\n"
		if j.shell == "bash" {
			script += c13BashCmdScript
		} else {
			script += c13DashCmdScript
		}
		var r ShellResult
		for attempt := 0; attempt < 3; attempt++ {
			r = runShell(c, j.shell, script, j.s, j.q)
			// Status -1 with Err set = the process could not be started/waited for (fork limits,
			// WaitDelay under load): not an answer of the shell.
			if !r.TimedOut && !(r.Status == -1 && r.Err != "") {
				break
			}
		}
		return r
	})
	for i, r := range res {
		j := st.jobs[i]
		c.Hist["shell="+j.shell]++
		if r.TimedOut || (r.Status == -1 && r.Err != "") {
			c.Hist["shell-no-answer"]++
			continue
		}
		wit := "shell " + strconv.Itoa(int(j.lang)) + " " + hx(j.s)
		if !strings.HasPrefix(r.Stdout, j.s) {
			c.Fail(wit, fmt.Sprintf("%s: printf %%s %s printed %q (status %d), want %q", j.shell, j.q, r.Stdout, r.Status, j.s))
			continue
		}
		// command position
		rest := r.Stdout[len(j.s):]
		okCmd := false
		switch {
		case rest == "T:keyword":
			// a reserved word of the shell: fine only if Quote did quote it
			okCmd = j.q != j.s
		case strings.HasPrefix(rest, "T:"):
			okCmd = true // the shell has a command of that name; nothing to learn
			c.Hist["shell-cmd-known-name"]++
		case rest == "|127":
			okCmd = true
		case rest == "|126":
			okCmd = strings.Contains(j.s, "/")
		case j.shell == "bash" && strings.HasPrefix(j.s, "%"):
			okCmd = true // bash: a word starting with % in command position is a job spec (fg)
		}
		if !okCmd {
			c.Fail(wit, fmt.Sprintf("%s: %s used as the command word gives %q (want |127 = command not found, i.e. one plain word); printf %%s %s printed the string correctly", j.shell, j.q, rest, j.q))
		}
	}
	c.Extra["shell_runs"] = len(st.jobs)
}

var c13Meta = []string{";", "\"", "'", "(", ")", "$", "|", "&", ">", "<", "`", " ", "\\", "#", "{", "}", "~", "*", "?", "[", "]", "=", "!", "-", "%", "^", ",", ":", "@", "+", "/", "."}
var c13Letters = []string{"a", "b", "f", "0", "1", "9", "A", "F", "g", "z", "_", "x", "u", "U", "n"}
var c13Keywords = []string{"!", "[[", "]]", "case", "coproc", "do", "done", "elif", "else", "esac", "fi", "for", "function", "if", "in", "select", "then", "time", "until", "while", "{", "}", "let", "declare", "If", "fin"}
var c13Ctl = []string{"\a", "\b", "\f", "\n", "\r", "\t", "\v", "\x01", "\x1b", "\x1c", "\x7f", "\x1f"}
var c13PrintMB = []string{"é", "ß", "世", "界", "😀", "Ω", "ж", "¡", "ÿ", "\U00020000", "\uffe0", "\ufffc"}
var c13NonPrintMB = []string{"\u00a0", "\u00ad", "\u0080", "\u009f", "\u200b", "\u2028", "\ue000", "\ufffe", "\uffff", "\ufffd", "\U000e0001", "\U0010ffff", "\U00010000", "\U000f0000", "\ufeff", "\u0378", "\u3000", "\u0085"}
var c13Invalid = []string{"\x80", "\xbf", "\xc0", "\xc1", "\xc3", "\xe2\x82", "\xf0\x9f\x98", "\xed\xa0\x80", "\xc0\xaf", "\xf4\x90\x80\x80", "\xff", "\xfe", "\xf5", "\xe0\x9f\xbf", "\xf0\x8f\xbf\xbf"}

func c13Gen(r *Rand, maxLen int) (string, string) {
	var alpha []string
	kind := ""
	switch k := r.Intn(100); {
	case k < 20: // printable only: these succeed in POSIX too
		kind = "printable"
		alpha = append(append(append([]string{}, c13Meta...), c13Letters...), c13PrintMB...)
	case k < 27:
		kind = "quotes" // single quotes force the "…" shape
		alpha = append(append([]string{}, c13Letters...), "'", "'", "'", "\"", "$", "`", "\\", "é", "世", " ", "!", "*")
	case k < 29:
		kind = "plain"
		alpha = append(append([]string{}, c13Letters...), "}", "]", "!", "-", "%", "^", ",", ":", "@", "+", "/", ".", "é", "世")
	case k < 33:
		// strings that are syntax when they stand first in a command: assignments (plain, append,
		// indexed), reserved words, tilde, comment, closing tokens, array literal, leading -/+
		kind = "firstpos"
		names := []string{"a", "n", "PATH", "_x1", "A_b", "x9", "if", "B"}
		vals := []string{"", "b", "1", ":/opt/bin", "=", "b=c", "é", "-x", "+", "a+=b", "(b)", "~", "{a,b}", "x y", "b'c"}
		idx := []string{"1", "k", "0", "@", "x+1", "'k'"}
		nm, vl := r.Pick(names), r.Pick(vals)
		var s string
		switch r.Intn(14) {
		case 0:
			s = nm + "=" + vl
		case 1, 2, 3:
			s = nm + "+=" + vl
		case 4:
			s = nm + "[" + r.Pick(idx) + "]=" + vl
		case 5:
			s = nm + "[" + r.Pick(idx) + "]+=" + vl
		case 6:
			s = r.Pick([]string{"if", "{", "!", "[[", "function", "time", "coproc", "select", "then", "elif", "else", "fi", "do", "done", "esac", "case", "for", "while", "until", "in", "}", "]]"})
			if r.Chance(30) {
				s += r.Pick([]string{"x", "+=1", "=1", " a", "}"})
			}
		case 7:
			s = "~" + r.Pick([]string{"user", "root", "", "/x", "+", "-"})
		case 8:
			s = "#" + vl
		case 9:
			s = r.Pick([]string{"}", "]]", "}}", "]]]", "}x", "]]x", "a}", "a]]"})
		case 10:
			s = nm + "=(" + vl + ")"
		case 11:
			s = r.Pick([]string{"-", "+", "--", "-+", "+-"}) + r.Pick([]string{"", "x", "flag=value", "n+=1", "e", "="})
		case 12:
			s = r.Pick([]string{"--flag=value", "a/b=c", "==", "=", "=a", "1a=b", "a.b=c", "a-b+=c", "+=", "+=x", "a+", "a+b", "a+=b+=c", "é+=1", "a b+=c"})
		default:
			s = r.Pick([]string{"let", "declare", "local", "export", "readonly", "typeset", "nameref", "@test", "{}", "eval", "exec", "test", "%1", "%", ".", ":", "..", "/", "a/"}) + r.Pick([]string{"", "", "x", "+=1"})
		}
		return s, kind
	case k < 36:
		kind = "keyword"
		s := r.Pick(c13Keywords)
		if r.Chance(40) {
			s += r.Pick(append(c13Letters, c13Meta...))
		}
		return s, kind
	case k < 58:
		kind = "control"
		alpha = append(append(append([]string{}, c13Meta...), c13Letters...), c13Ctl...)
		alpha = append(alpha, c13Ctl...)
	case k < 74:
		kind = "nonprint-mb"
		alpha = append(append(append([]string{}, c13Letters...), c13NonPrintMB...), c13PrintMB...)
		alpha = append(alpha, "'", "\\", "\"", "$")
	case k < 90:
		kind = "invalid"
		alpha = append(append(append([]string{}, c13Letters...), c13Invalid...), c13PrintMB...)
		alpha = append(alpha, "'", "\\", " ")
	case k < 96:
		kind = "bytes"
		n := 1 + r.Intn(maxLen)
		b := make([]byte, n)
		for i := range b {
			b[i] = byte(r.Intn(256))
			if b[i] == 0 && r.Chance(90) {
				b[i] = 0xa0
			}
		}
		return string(b), kind
	default:
		kind = "nul"
		alpha = append(append(append([]string{}, c13Letters...), c13Ctl...), "\x00", "\xff", "é")
	}
	n := 1 + r.Intn(maxLen)
	var sb strings.Builder
	for sb.Len() < n {
		sb.WriteString(alpha[r.Intn(len(alpha))])
	}
	return sb.String(), kind
}

// c13GenWordText builds source text inside (mostly) the lexer fragment of the model: bare chunks,
// '…', "…" with escaped specials, $'…' with escapes, blanks, comments; plus a malformed stream
// (unterminated quotes, dangling backslashes inside quotes, invalid UTF-8).
func c13GenWordText(r *Rand, lang syntax.LangVariant) string {
	bare := []string{"a", "b", "1", "#", "}", "{", "=", "~", "*", "?", "!", "@", "+", "-", "%", "^", ",", ":", "]", "/", ".", "é", "世", "\x01", "\x7f"}
	inS := []string{"a", " ", "\"", "$", "\\", "`", "#", "é", "(", ";", "\t", "[", "\x1b"}
	inD := []string{"a", " ", "'", "\\\"", "\\\\", "\\$", "\\`", "\\a", "\\ ", "#", "é", "(", ";", "\t", "[", "!", "\\é"}
	inE := []string{"a", "1", "f", " ", "\"", "$", "`", "\\'", "\\\\", "\\a", "\\b", "\\e", "\\E", "\\f", "\\n", "\\r", "\\t", "\\v", "\\\"", "\\?",
		"\\x", "\\x4", "\\x41", "\\u", "\\u00e9", "\\u4e16", "\\U0001f600", "\\Ud800", "\\UFFFFFFFF", "\\0", "\\101", "\\18", "\\777", "\\c", "\\é", "é", "(", "%", "%s"}
	var sb strings.Builder
	nparts := 1 + r.Intn(5)
	for i := 0; i < nparts; i++ {
		// malformed pieces only at the very end: an unterminated quote would otherwise turn the
		// following pieces into quoted text and the pieces after that into arbitrary syntax.
		malformed := i == nparts-1 && r.Chance(12)
		k := r.Intn(8)
		if k == 5 && lang == syntax.LangPOSIX {
			k = 3 // POSIX has no $'…': `$` is lexed as a lone dollar there (outside the model's fragment)
		}
		switch k {
		case 0, 1, 2:
			sb.WriteString(genFrom(r, bare, 4))
		case 3:
			sb.WriteString("'" + genFrom(r, inS, 5))
			if !malformed {
				sb.WriteString("'")
			}
		case 4:
			sb.WriteString("\"" + genFrom(r, inD, 5))
			if malformed && r.Bool() {
				sb.WriteString("\\")
			} else if !malformed {
				sb.WriteString("\"")
			}
		case 5:
			sb.WriteString("$'" + genFrom(r, inE, 5))
			if malformed && r.Bool() {
				sb.WriteString("\\")
			} else if !malformed {
				sb.WriteString("'")
			}
		case 6:
			sb.WriteString(r.Pick([]string{" ", "\t", "  "}))
		case 7:
			if malformed {
				sb.WriteString(r.Pick(c13Invalid))
			} else {
				sb.WriteString(genFrom(r, bare, 2))
			}
		}
	}
	return sb.String()
}

func c13GenFmt(r *Rand) string {
	alpha := []string{"\\", "\\", "a", "b", "e", "E", "f", "n", "r", "t", "v", "x", "u", "U", "c", "0", "1", "7", "8", "9", "3", "A", "F", "d", "g", "'", "\"", "?", "%", "s", " ", "é", "\xff", "\\x", "\\u", "\\U", "\\0", "\\3"}
	return genFrom(r, alpha, 10)
}

func c13GenDec(r *Rand) string {
	edge := []byte{0x00, 0x41, 0x7f, 0x80, 0x8f, 0x90, 0x9f, 0xa0, 0xbf, 0xc0, 0xc1, 0xc2, 0xdf, 0xe0, 0xe1, 0xec, 0xed, 0xee, 0xef, 0xf0, 0xf1, 0xf3, 0xf4, 0xf5, 0xff}
	n := r.Intn(6)
	b := make([]byte, n)
	for i := range b {
		if r.Chance(80) {
			b[i] = edge[r.Intn(len(edge))]
		} else {
			b[i] = byte(r.Intn(256))
		}
	}
	return string(b)
}

func c13IsPrintTable() string {
	var parts []string
	lo := -1
	for r := 0; r <= 0x110000; r++ {
		p := r <= 0x10FFFF && unicode.IsPrint(rune(r))
		if p && lo < 0 {
			lo = r
		}
		if !p && lo >= 0 {
			parts = append(parts, fmt.Sprintf("%x-%x", lo, r-1))
			lo = -1
		}
	}
	return strings.Join(parts, " ")
}

func (st *c13State) lexOp(lang syntax.LangVariant, q string) {
	lex, unq := c13Lex(lang, q)
	l := strconv.Itoa(int(lang))
	st.c.Op("lex "+l+" "+hx(q), lex)
	st.c.Op("unq "+l+" "+hx(q), unq)
	st.c.Hist["lexstream="+strings.Fields(lex)[0]]++
}

// c13CmdClass canonicalises Parser.Parse(q) for the `cmd` correspondence stream: "simple <word>"
// (one statement, a CallExpr with no assignment and one literal/quoted word), "assign" (one
// assignment, no word), "notsimple" (parse error, clause, block), "outside" (anything else).
func c13CmdClass(lang syntax.LangVariant, q string) string {
	res := "outside"
	p := safely(func() {
		f, err := syntax.NewParser(syntax.Variant(lang)).Parse(strings.NewReader(q), "")
		if err != nil {
			res = "notsimple"
			return
		}
		if len(f.Stmts) != 1 {
			return
		}
		st := f.Stmts[0]
		ce, isCall := st.Cmd.(*syntax.CallExpr)
		if !isCall {
			res = "notsimple"
			return
		}
		if len(st.Redirs) != 0 || st.Background || st.Negated || st.Coprocess {
			return
		}
		switch {
		case len(ce.Assigns) == 1 && len(ce.Args) == 0:
			a := ce.Assigns[0]
			if a.Index == nil && a.Array == nil && !a.Naked {
				res = "assign"
			}
		case len(ce.Assigns) == 0 && len(ce.Args) == 1:
			if w, ok := c13ShowWord(ce.Args[0]); ok {
				res = "simple " + w
			}
		}
	})
	if p != "" {
		return "notsimple"
	}
	return res
}

// c13GenCmdText: one word inside the lexer fragment, biased to what is syntax in first position.
func c13GenCmdText(r *Rand) string {
	words := []string{"!", "]]", "case", "coproc", "do", "done", "elif", "else", "esac", "fi", "for", "function", "if", "in", "select", "then", "time", "until", "while", "{", "}", "elif",
		"let", "declare", "local", "export", "readonly", "typeset", "nameref", "@test", "{}", "eval", "a", "If", "ifx", "}}", "]]]"}
	safe := []string{"a", "b", "Z", "_", "1", "9", "+", "=", "@", "{", "}", "!", "]", "-", ".", ":", ",", "%", "^", "/", "é"}
	names := []string{"a", "n", "PATH", "_x1", "A_b", "x9", "if", "_", "1a", "a-b", "é", ""}
	var s string
	switch r.Intn(6) {
	case 0, 1:
		s = r.Pick(words)
	case 2, 3:
		s = r.Pick(names) + r.Pick([]string{"=", "+=", "+", "==", "+=+=", "-="}) + genFrom(r, safe, 3)
	default:
		s = genFrom(r, safe, 5)
		if s == "" {
			s = "a"
		}
	}
	if r.Chance(15) {
		s += r.Pick([]string{"'x'", "\"y\"", "''", "'='b"})
	}
	if r.Chance(5) {
		s = r.Pick([]string{"'a'", "\"a\""}) + s
	}
	return s
}

func (st *c13State) cmdOp(lang syntax.LangVariant, q string) {
	st.c.Op("cmd "+strconv.Itoa(int(lang))+" "+hx(q), c13CmdClass(lang, q))
}

func (st *c13State) fmtOp(s string) {
	var out string
	p := safely(func() {
		res, _, err := expand.Format(nil, s, nil)
		if err != nil {
			out = "err"
			return
		}
		out = hx(res)
	})
	if p != "" {
		out = "panic"
	}
	st.c.Op("fmt "+hx(s), out)
}

func (st *c13State) decOp(s string) {
	r, w := utf8.DecodeRuneInString(s)
	st.c.Op("dec "+hx(s), fmt.Sprintf("%x %d", r, w))
}

func c13(c *Ctx) {
	c.Rule = "byte strings × LangVariant {0,Bash,POSIX,mksh,Bats,Zsh,Auto, odd bit sets}: all strings of ≤1 byte, 2-byte strings (thorough: all 65 536, sharded; quick: a sample), random strings ≤24 bytes " +
		"from alphabets of shell metacharacters, keywords, hex digits, control bytes, printable/non-printable multi-byte runes, invalid UTF-8, raw bytes, NUL; " +
		"non-trivial = Quote had to quote or refuse (result differs from the input); distinct by (variant, exact bytes)"
	st := &c13State{c: c, seenShell: map[string]bool{}}
	if c.Thorough() {
		st.bashBudget, st.dashBudget = 10000/max(1, c.Shards), 10000/max(1, c.Shards)
	} else {
		st.bashBudget, st.dashBudget = 300/max(1, c.Shards), 300/max(1, c.Shards)
	}
	valid := []syntax.LangVariant{syntax.LangBash, syntax.LangPOSIX, syntax.LangMirBSDKorn, syntax.LangBats, syntax.LangZsh}

	// 0. corpus (replayed first): fixed findings and seeds go through the ops and the search leg.
	for _, line := range c.CorpusLines() {
		f := strings.Fields(line)
		switch {
		case len(f) == 3 && f[0] == "specrt":
			n, _ := strconv.ParseInt(f[1], 10, 64)
			wl, ws := syntax.LangVariant(n), unhx(f[2])
			st.spec(ws, wl, false, "corpus")
		case len(f) == 3 && f[0] == "quote":
			n, _ := strconv.ParseInt(f[1], 10, 64)
			st.one(unhx(f[2]), syntax.LangVariant(n), "corpus")
		case len(f) == 3 && f[0] == "cmd":
			n, _ := strconv.ParseInt(f[1], 10, 64)
			st.cmdOp(syntax.LangVariant(n), unhx(f[2]))
		case len(f) == 3 && f[0] == "lex":
			n, _ := strconv.ParseInt(f[1], 10, 64)
			st.lexOp(syntax.LangVariant(n), unhx(f[2]))
		case len(f) == 2 && f[0] == "fmt":
			st.fmtOp(unhx(f[1]))
		case len(f) == 2 && f[0] == "dec":
			st.decOp(unhx(f[1]))
		}
	}

	// 1. the IsPrint table of the toolchain, every code point (one shard only).
	if c.Shard == 0 {
		c.Op("isprint-table", c13IsPrintTable())
	}

	// 2. exhaustive short strings.
	idx := 0
	mine := func() bool { idx++; return (idx-1)%max(1, c.Shards) == c.Shard }
	if mine() {
		for _, l := range c13AllLangs {
			st.one("", l, "exhaustive")
		}
	}
	for b := 0; b < 256; b++ {
		if !mine() {
			continue
		}
		for _, l := range c13AllLangs {
			st.one(string([]byte{byte(b)}), l, "exhaustive")
		}
		st.decOp(string([]byte{byte(b)}))
	}
	if c.Thorough() {
		for b := 0; b < 65536; b++ {
			if !mine() {
				continue
			}
			s := string([]byte{byte(b >> 8), byte(b)})
			for _, l := range c13AllLangs {
				st.one(s, l, "exhaustive")
			}
			st.decOp(s)
		}
	} else {
		for i := 0; i < 1500/max(1, c.Shards); i++ {
			s := string([]byte{byte(c.R.Intn(256)), byte(c.R.Intn(256))})
			st.one(s, c13AllLangs[c.R.Intn(len(c13AllLangs))], "sample2")
			st.decOp(s)
		}
	}

	// 3. random longer strings.
	for i := 0; i < c.N; i++ {
		r := c.R
		maxLen := 8
		if r.Chance(30) {
			maxLen = 24
		}
		s, kind := c13Gen(r, maxLen)
		if r.Chance(25) {
			for _, l := range c13AllLangs {
				st.one(s, l, kind)
			}
		} else {
			st.one(s, valid[r.Intn(len(valid))], kind)
		}
		if r.Chance(6) {
			st.one(s, c13OddLangs[r.Intn(len(c13OddLangs))], kind)
		}
		// lexer / expand / decode correspondence streams
		if i%2 == 0 {
			wl := valid[r.Intn(len(valid))]
			st.lexOp(wl, c13GenWordText(r, wl))
		}
		if i%3 == 0 {
			st.fmtOp(c13GenFmt(r))
		}
		if i%2 == 1 {
			st.cmdOp(valid[r.Intn(len(valid))], c13GenCmdText(r))
		}
		if i%3 == 1 {
			st.decOp(c13GenDec(r))
		}
	}

	// 4. shells.
	st.runShells()
}
