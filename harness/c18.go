//go:build c18 || all

package main

import (
	"fmt"
	"strconv"
	"strings"

	"mvdan.cc/sh/v3/pattern"
)

// C18 — QuoteMeta and HasMeta are consistent with matching.
//
// Correspondence streams (model ops): `quote` (pattern.QuoteMeta), `hasmeta` (pattern.HasMeta),
// exhaustive over all strings up to length 4 over the metacharacter alphabet plus multi-byte runes.
// Specification streams: `specquote` (the pattern QuoteMeta(s) matches s and nothing else, decided on
// all short strings and s itself by the real matcher), `specsingle` (a pattern without
// metacharacters matches nothing but its unescaped text).
// Search leg (independent of Lean): the same two statements checked in Go against the real
// matcher, and in bash: `case "$t" in $q)` with q = QuoteMeta(s) used unquoted.
func init() { register("C18", c18) }

var c18Alphabet = []string{"*", "?", "[", "]", "\\", "!", "@", "+", "(", ")", "|", "-", "^", "a", "é", "世"}

var c18Modes = []int{l3Entire, l3Entire | l3Ext, l3Entire | l3Files, l3Entire | l3Files | l3Ext | l3NoStar,
	l3Entire | l3Files | l3DotGlob, l3Entire | l3Shortest | l3Ext}

func c18Quote(s string) string {
	var out string
	if pn := safely(func() { out = hx(pattern.QuoteMeta(s, 0)) }); pn != "" {
		return "panic"
	}
	return out
}

func c18HasMeta(p string) string {
	var out string
	if pn := safely(func() {
		if pattern.HasMeta(p, 0) {
			out = "1"
		} else {
			out = "0"
		}
	}); pn != "" {
		return "panic"
	}
	return out
}

// c18Unescape: the pattern with its backslashes removed (Go oracle, written independently).
func c18Unescape(p string) string {
	var sb strings.Builder
	rs := []rune(p)
	for i := 0; i < len(rs); i++ {
		if rs[i] == '\\' {
			i++
			if i >= len(rs) {
				break
			}
		}
		sb.WriteRune(rs[i])
	}
	return sb.String()
}

// c18ExtOpener: the extended operators QuoteMeta leaves unescaped, in front of a parenthesis.
func c18ExtOpener(s string) bool {
	return strings.Contains(s, "@(") || strings.Contains(s, "+(") || strings.Contains(s, "!(")
}

// c18HasGroup: a pattern without `*?[` metacharacters that still has an extended operator.
func c18HasGroup(p string) bool {
	rs := []rune(p)
	for i := 0; i+1 < len(rs); i++ {
		if rs[i] == '\\' {
			i++
			continue
		}
		if strings.ContainsRune("@+!?*", rs[i]) && rs[i+1] == '(' {
			return true
		}
	}
	return false
}

func c18Alpha(s string) string {
	seen := map[rune]bool{}
	var out []rune
	for _, r := range s + "a(\\@" {
		if !seen[r] && len(out) < 5 {
			seen[r] = true
			out = append(out, r)
		}
	}
	return string(out)
}

// c18QuoteCase: QuoteMeta(s) must match s and nothing else.
func c18QuoteCase(c *Ctx, s string, mode int, witness string) {
	q := pattern.QuoteMeta(s, pattern.Mode(mode))
	alpha := c18Alpha(s)
	n := 3
	if len(s) > 4 {
		n = 2
	}
	strs := append(l3Enum(alpha, n), s)
	got := l3MatcherBits(q, mode, strs)
	known := mode&l3Ext != 0 && c18ExtOpener(s)
	if !known {
		c.Op(fmt.Sprintf("specquote %d %s %s %d", mode, hx(s), hx(alpha), n), got)
	} else {
		c.Hist["known:quotemeta-extglob"]++
	}
	// search leg: the statement itself on the real matcher
	want := l3Bits(func(t string) bool { return t == s }, strs)
	if got != want && (witness != "" || !known) {
		w := witness
		if w == "" {
			w = fmt.Sprintf("quote %d %s", mode, hx(s))
		}
		c.Fail(w, fmt.Sprintf("QuoteMeta(%q) = %q under mode %d: matcher gives %s on the probe strings, the property demands %s (only %q itself)", s, q, mode, got, want, s))
	}
}

// c18SingleCase: if HasMeta(p) is false, p matches at most its unescaped text.
func c18SingleCase(c *Ctx, p string, mode int, witness string) {
	if pattern.HasMeta(p, pattern.Mode(mode)) {
		return
	}
	u := c18Unescape(p)
	alpha := c18Alpha(u)
	n := 3
	strs := append(l3Enum(alpha, n), u)
	got := l3MatcherBits(p, mode, strs)
	known := mode&l3Ext != 0 && c18HasGroup(p)
	impl := "only " + hx(u)
	bad := ""
	if len(got) == len(strs) {
		for i, t := range strs {
			if got[i] == '1' && t != u {
				bad = t
				impl = "also " + hx(t)
				break
			}
		}
		// a pattern without metacharacters that Regexp accepts is a sequence of (escaped)
		// characters: it does match its unescaped text (u is the last probe)
		if bad == "" && got[len(strs)-1] != '1' && !known {
			bad = "<nothing: not even its unescaped text " + u + ">"
			impl = "missing " + hx(u)
		}
	} else if got == "panic" {
		impl = "panic"
		bad = "<panic>"
	}
	if !known {
		c.Op(fmt.Sprintf("specsingle %d %s", mode, hx(p)), impl)
	} else {
		c.Hist["known:hasmeta-extglob"]++
	}
	if bad != "" && (witness != "" || !known) {
		w := witness
		if w == "" {
			w = fmt.Sprintf("single %d %s", mode, hx(p))
		}
		c.Fail(w, fmt.Sprintf("HasMeta(%q) is false but under mode %d the pattern matches %q (it must match exactly its unescaped text %q)", p, mode, bad, u))
	}
}

type c18Probe struct {
	s    string
	q    string
	ext  bool
	strs []string
}

// c18RunBash: `case "$t" in $q)` for q = QuoteMeta(s), batched.
func c18RunBash(c *Ctx, probes []c18Probe) {
	for _, ext := range []bool{false, true} {
		var idx []int
		for i, pr := range probes {
			if pr.ext == ext {
				idx = append(idx, i)
			}
		}
		for len(idx) > 0 {
			n := min(len(idx), 30)
			part := idx[:n]
			idx = idx[n:]
			var args []string
			for _, i := range part {
				args = append(args, probes[i].q, strconv.Itoa(len(probes[i].strs)))
				args = append(args, probes[i].strs...)
			}
			r := runShell(c, "bash", c17BashBatchScriptC18(ext), args...)
			c.Hist["bash:runs"]++
			lines := strings.Split(strings.TrimSuffix(r.Stdout, "\n"), "\n")
			if r.TimedOut || r.Status != 0 || len(lines) != len(part) {
				c.Hist["bash:failed"] += len(part)
				continue
			}
			for j, i := range part {
				pr := probes[i]
				if len(lines[j]) != len(pr.strs) {
					c.Hist["bash:failed"]++
					continue
				}
				c.Hist["bash:pairs"] += len(pr.strs)
				want := l3Bits(func(t string) bool { return t == pr.s }, pr.strs)
				if lines[j] != want {
					// bash itself does not read QuoteMeta(s) as "exactly s": QuoteMeta is wrong for bash
					mode := l3Entire
					if ext {
						mode |= l3Ext
					}
					c.Fail(fmt.Sprintf("quote %d %s", mode, hx(pr.s)),
						fmt.Sprintf("bash: case t in $q with q=QuoteMeta(%q)=%q (extglob=%v) gives %s on %q, expected %s", pr.s, pr.q, ext, lines[j], pr.strs, want))
				}
			}
		}
	}
}

func c17BashBatchScriptC18(extglob bool) string {
	sh := "shopt -u extglob\n"
	if extglob {
		sh = "shopt -s extglob\n"
	}
	return sh + `while [ $# -gt 0 ]; do q=$1; n=$2; shift 2; o=; i=0
while [ $i -lt $n ]; do t=$1; shift; i=$((i+1))
case "$t" in $q) o+=1;; *) o+=0;; esac
done; printf '%s\n' "$o"; done`
}

func c18(c *Ctx) {
	c.Rule = "all strings up to length 4 over {* ? [ ] \\ ! @ + ( ) | - ^ a é 世} (thorough: 5, sharded) through QuoteMeta/HasMeta; " +
		"the two statements on a sample of them under six modes plus random longer strings; " +
		"non-trivial = the string contains a metacharacter or an escape; distinct by string"
	for _, l := range c.CorpusLines() {
		f := strings.Fields(l)
		if len(f) != 3 {
			continue
		}
		mode, err := strconv.Atoi(f[1])
		if err != nil {
			continue
		}
		c.Case("replay "+l, true, "replay")
		switch f[0] {
		case "quote":
			c18QuoteCase(c, unhx(f[2]), mode, l)
		case "single":
			c18SingleCase(c, unhx(f[2]), mode, l)
		}
	}
	maxLen := 4
	if c.Thorough() {
		maxLen = 5
	}
	var probes []c18Probe
	bashBudget := 300
	if c.Thorough() {
		bashBudget = 1500
	}
	idx := 0
	deepEvery := 23
	var rec func(prefix string, l int)
	emit := func(s string, l int) {
		idx++
		if c.Shards > 1 && idx%c.Shards != c.Shard {
			return
		}
		c.Op("quote "+hx(s), c18Quote(s))
		c.Op("hasmeta "+hx(s), c18HasMeta(s))
		nontrivial := strings.ContainsAny(s, "*?[\\")
		tags := []string{fmt.Sprintf("len=%d", l)}
		if c18ExtOpener(s) {
			tags = append(tags, "ext-opener")
		}
		c.Case(s, nontrivial, tags...)
		if l <= 2 || c.R.Intn(deepEvery) == 0 {
			mode := c18Modes[c.R.Intn(len(c18Modes))]
			c18QuoteCase(c, s, mode, "")
			c18SingleCase(c, s, c18Modes[c.R.Intn(len(c18Modes))], "")
			if len(probes) < bashBudget && l3ShellSafe(s) && c.R.Intn(6) == 0 {
				ext := c.R.Bool()
				if !(ext && c18ExtOpener(s)) {
					q := pattern.QuoteMeta(s, 0)
					strs := append(l3Enum(c18Alpha(s), 2), s)
					probes = append(probes, c18Probe{s, q, ext, strs})
				}
			}
		}
	}
	rec = func(prefix string, l int) {
		emit(prefix, l)
		if l == maxLen {
			return
		}
		for _, a := range c18Alphabet {
			rec(prefix+a, l+1)
		}
	}
	rec("", 0)

	// the second half of the property, exhaustively: every pattern over the alphabet of HasMeta
	// ([ ] \ * ? a é) up to length 4 (thorough: 5) that HasMeta calls metacharacter-free — unmatched
	// brackets followed by escapes (`[\*`, `[a\]`, `[\\`, `a[b\?c`) included — must match exactly its
	// unescaped text, under every mode without (and with) extended operators
	singleAlpha := []string{"[", "]", "\\", "*", "?", "a", "é"}
	singleMax := 4
	if c.Thorough() {
		singleMax = 5
	}
	sidx := 0
	var srec func(prefix string, l int)
	srec = func(prefix string, l int) {
		sidx++
		if c.Shards <= 1 || sidx%c.Shards == c.Shard {
			if !pattern.HasMeta(prefix, 0) {
				for _, mode := range c18Modes {
					if l <= 3 || mode&l3Ext == 0 {
						c18SingleCase(c, prefix, mode, "")
					}
				}
				c.Case("single:"+prefix, strings.ContainsAny(prefix, "[\\"), "single-exhaustive")
			}
		}
		if l == singleMax {
			return
		}
		for _, a := range singleAlpha {
			srec(prefix+a, l+1)
		}
	}
	srec("", 0)
	long := append([]string{".", "/", "A", " ", "\n", "{", "}", "$", "'", "\"", ":", "=", "é", "日本", "😀"}, c18Alphabet...)
	for i := 0; i < c.N; i++ {
		s := genFrom(c.R, long, 12)
		c.Op("quote "+hx(s), c18Quote(s))
		c.Op("hasmeta "+hx(s), c18HasMeta(s))
		c.Case(s, strings.ContainsAny(s, "*?[\\"), "random")
		mode := c18Modes[c.R.Intn(len(c18Modes))]
		c18QuoteCase(c, s, mode, "")
		c18SingleCase(c, s, mode, "")
		if len(probes) < bashBudget && i%4 == 0 && l3ShellSafe(s) {
			ext := c.R.Bool()
			if !(ext && c18ExtOpener(s)) {
				q := pattern.QuoteMeta(s, 0)
				probes = append(probes, c18Probe{s, q, ext, append(l3Enum(c18Alpha(s), 2), s)})
			}
		}
	}
	c18RunBash(c, probes)
}
