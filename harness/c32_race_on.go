//go:build (c32 || all) && race

package main

// c32RaceBuild reports whether this binary carries the race detector.
func c32RaceBuild() string { return "on" }
