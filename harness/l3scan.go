//go:build c17 || c18 || all

package main

// A structural scanner of shell patterns, used only to *classify* generated patterns: which
// lie in the region covered by the Lean theorem (`supported`, tied to the Lean definition by the
// `supported` op), and which lie in one of the documented regions where pattern.go is known to
// diverge from bash (known findings) or where bash itself is inconsistent.  It is a port of the
// scanning half of the Lean reference parser (ShVerif/Model/L3Glob.lean §5–§6); it never decides
// whether a string matches.

type l3Item struct {
	kind   int // 0 char, 1 range, 2 class
	lo, hi rune
	name   string
}

func l3Cut2(a, b rune, s []rune) (name []rune, ok bool) {
	for i := 0; i+1 < len(s); i++ {
		if s[i] == a && s[i+1] == b {
			return s[:i], true
		}
	}
	return nil, false
}

var l3ClassNames = map[string]bool{"alnum": true, "alpha": true, "ascii": true, "blank": true, "cntrl": true,
	"digit": true, "graph": true, "lower": true, "print": true, "punct": true, "space": true, "upper": true,
	"word": true, "xdigit": true}

// l3ScanClass: element starting after a '[': (is class-like, length, valid, name)
func l3ScanClass(s []rune) (isClass bool, n int, valid bool, name string) {
	if len(s) == 0 {
		return false, 0, false, ""
	}
	c := s[0]
	switch c {
	case ':':
		nm, ok := l3Cut2(':', ']', s[1:])
		if !ok {
			return true, 0, false, ""
		}
		return true, len(nm) + 3, l3ClassNames[string(nm)], string(nm)
	case '.', '=':
		nm, ok := l3Cut2(c, ']', s[1:])
		if !ok {
			return true, 0, false, ""
		}
		return true, len(nm) + 3, false, ""
	}
	return false, 0, false, ""
}

func l3ElemChar(s []rune) (c rune, esc bool, rest []rune, ok bool) {
	if len(s) == 0 {
		return 0, false, nil, false
	}
	if s[0] == '\\' {
		if len(s) < 2 {
			return 0, false, nil, false
		}
		return s[1], true, s[2:], true
	}
	return s[0], false, s[1:], true
}

func l3ClassHas(name string, x rune) bool {
	switch name {
	case "punct", "graph", "print", "ascii":
		return x == '/'
	}
	return false
}

type l3Bracket struct {
	closed    bool
	neg       bool
	items     []l3Item
	rest      []rune // after the closing ]
	slash     bool
	rangeErr  bool
	classErr  bool // a bad class element was met (counts even when unclosed)
	supported bool // brSupported
	dashQuirk bool // pattern.go's raw-neighbour check of some dash differs from the range rule,
	// an escaped or '[' range end, or a dash followed by a class opener
}

// l3ScanBracket scans from just after '['.
func l3ScanBracket(fn bool, s []rune) l3Bracket {
	var b l3Bracket
	body := s
	prevRaw := rune('[')
	if len(s) > 0 && (s[0] == '!' || s[0] == '^') {
		b.neg = true
		prevRaw = s[0]
		body = s[1:]
	}
	b.supported = true
	first := true
	r := body
	for {
		if len(r) == 0 {
			return b // unclosed
		}
		c := r[0]
		if c == ']' && !first {
			b.closed = true
			b.rest = r[1:]
			return b
		}
		if c == '[' {
			if isClass, n, valid, name := l3ScanClass(r[1:]); isClass {
				txt := r[1 : 1+n]
				for _, x := range txt {
					if fn && x == '/' {
						b.slash = true
						b.supported = false
					}
				}
				if valid {
					b.items = append(b.items, l3Item{kind: 2, name: name})
				} else {
					b.rangeErr = true
					b.classErr = true
				}
				if n > 0 {
					prevRaw = txt[n-1]
				} else {
					prevRaw = '['
				}
				r = r[1+n:]
				first = false
				continue
			}
		}
		lo, esc, r1, ok := l3ElemChar(r)
		if !ok {
			return b // lone backslash at the end: unclosed
		}
		if fn && lo == '/' {
			b.slash = true
			b.supported = false
		}
		loIsDash := c == '-' && !esc
		if loIsDash {
			// a dash that is not a range operator: pattern.go compares its raw neighbours
			next := rune(0)
			if len(r1) > 0 {
				next = r1[0]
			}
			if next != ']' {
				b.supported = false
				if prevRaw > next {
					b.dashQuirk = true
				}
			}
		}
		if len(r1) >= 1 && r1[0] == '-' && !(len(r1) >= 2 && r1[1] == ']') {
			r2 := r1[1:]
			if len(r2) == 0 {
				return b // "[a-" at the end: unclosed
			}
			if loIsDash {
				b.supported = false
			}
			if r2[0] == '\\' || r2[0] == '[' || r2[0] == '-' {
				b.supported = false
			}
			hi, hesc, r3, ok := l3ElemChar(r2)
			if !ok {
				return b
			}
			if hesc || hi == '[' {
				// escaped end: pattern.go compares lo with the backslash
				if hesc && (lo > '\\') != (lo > hi) {
					b.dashQuirk = true
				}
				if hi == '[' && len(r3) > 0 && (r3[0] == ':' || r3[0] == '.' || r3[0] == '=') {
					b.dashQuirk = true
				}
			}
			if hi == '-' && !hesc && len(r3) > 0 && r3[0] != ']' && '-' > r3[0] {
				b.dashQuirk = true // the end of the range is itself checked as a dash
			}
			if fn && hi == '/' {
				b.slash = true
				b.supported = false
			}
			if hi < lo {
				b.rangeErr = true
			}
			b.items = append(b.items, l3Item{kind: 1, lo: lo, hi: hi})
			prevRaw = hi
			r = r3
		} else {
			b.items = append(b.items, l3Item{kind: 0, lo: lo, hi: lo})
			prevRaw = lo
			r = r1
		}
		first = false
	}
}

func (b *l3Bracket) hasClass() bool {
	for _, it := range b.items {
		if it.kind == 2 {
			return true
		}
	}
	return false
}

// hasCaseClass: a class whose ASCII set is not closed under case folding.
func (b *l3Bracket) hasCaseClass() bool {
	for _, it := range b.items {
		if it.kind == 2 && (it.name == "upper" || it.name == "lower") {
			return true
		}
	}
	return false
}

func (b *l3Bracket) hasSlashMember() bool {
	if b.neg {
		return true
	}
	for _, it := range b.items {
		switch it.kind {
		case 0, 1:
			if it.lo <= '/' && '/' <= it.hi {
				return true
			}
		case 2:
			if l3ClassHas(it.name, '/') {
				return true
			}
		}
	}
	return false
}

// bracket verdict as the reference parser gives it
func (b *l3Bracket) verdict() string {
	if b.closed {
		if b.slash {
			return "notBracket"
		}
		if b.rangeErr {
			return "malformed"
		}
		return "ok"
	}
	if b.classErr {
		return "malformed"
	}
	return "notBracket"
}

// l3ScanGroup: from just after "op(": alternatives and the rest, bash style (every unescaped
// parenthesis outside a bracket expression nests; a bracket expression is skipped as a unit).
// status: 0 no closing parenthesis, 1 found, 2 a malformed bracket expression was met.
func l3ScanGroup(fn bool, s []rune) (alts [][]rune, rest []rune, status int, unclosedBracket bool) {
	alts, rest, status, unclosedBracket, _, _ = l3ScanGroupX(fn, s)
	return
}

// l3ScanGroupX also reports whether a closed bracket expression with a slash inside was passed
// (filename mode: the reference reads its `[` as an ordinary character, pattern.go emits the whole
// bracket literally).
func l3ScanGroupX(fn bool, s []rune) (alts [][]rune, rest []rune, status int, unclosedBracket, slashBracket, dashQuirk bool) {
	depth := 0
	var cur []rune
	r := s
	for len(r) > 0 {
		c := r[0]
		switch {
		case c == '\\':
			if len(r) < 2 {
				return nil, nil, 0, unclosedBracket, slashBracket, dashQuirk
			}
			cur = append(cur, c, r[1])
			r = r[2:]
			continue
		case c == '[':
			b := l3ScanBracket(fn, r[1:])
			if b.dashQuirk {
				dashQuirk = true
			}
			switch b.verdict() {
			case "ok":
				n := len(r) - len(b.rest)
				cur = append(cur, r[:n]...)
				r = b.rest
				continue
			case "malformed":
				return nil, nil, 2, unclosedBracket, slashBracket, dashQuirk
			}
			if !b.closed {
				unclosedBracket = true
			} else if b.slash {
				slashBracket = true
			}
		case c == '(':
			depth++
		case c == ')':
			if depth == 0 {
				alts = append(alts, cur)
				return alts, r[1:], 1, unclosedBracket, slashBracket, dashQuirk
			}
			depth--
		case c == '|' && depth == 0:
			alts = append(alts, cur)
			cur = nil
			r = r[1:]
			continue
		}
		cur = append(cur, c)
		r = r[1:]
	}
	return nil, nil, 0, unclosedBracket, slashBracket, dashQuirk
}

// l3Info collects what the classifier found in a pattern.
type l3Info struct {
	supported bool // the Lean `supported`

	// regions where pattern.go diverges from bash (known findings)
	dashQuirk         bool // bracket dash handled by raw neighbours
	unterminatedGroup bool
	bareParen         bool // bare ( inside a pattern-list
	negExt            int  // number of !( groups met at any depth
	negNested         bool
	leadingDot        bool // wildcard that may face a leading dot (filename mode without dotglob)
	slashMember       bool // filename mode: bracket whose set contains '/'
	slashBracket      bool // filename mode: slash inside a bracket expression
	starSwallow       bool // filename+ext mode: "**(": the look-ahead for ** eats the operator
	nocaseClass       bool // NoGlobCase: [[:upper:]] / [[:lower:]] are folded by (?i), not by bash

	// regions where bash itself is inconsistent
	unclosedBracket        bool
	unclosedBracketInGroup bool
	starBeforeAtPlus       bool
	slashInGroup           bool
	malformed              bool // the reference parser rejects the pattern
}

const (
	l3Start = iota
	l3Mid
	l3Unknown
)

func l3IsExtOp(c rune) bool { return c == '!' || c == '?' || c == '*' || c == '+' || c == '@' }

func l3PosAfter(c rune) int {
	if c == '/' {
		return l3Start
	}
	return l3Mid
}

func l3Analyze(p string, mode int) *l3Info {
	in := &l3Info{}
	in.supported = in.walk(mode, false, l3Start, 0, []rune(p), 0)
	return in
}

// walk mirrors the Lean `supp`; it returns that function's verdict and records the regions.
func (in *l3Info) walk(mode int, inGroup bool, pos int, prev rune, s []rune, depth int) bool {
	fn := mode&l3Files != 0
	ext := mode&l3Ext != 0
	dotSens := fn && mode&l3DotGlob == 0
	ok := true
	for len(s) > 0 {
		c := s[0]
		rest := s[1:]
		switch {
		case c == '\\':
			if len(rest) == 0 {
				in.malformed = true
				return ok
			}
			if dotSens && pos == l3Unknown && rest[0] == '.' {
				in.leadingDot = true // a literal dot after a `*` that may have matched nothing
				ok = false
			}
			pos, prev, s = l3PosAfter(rest[0]), rest[0], rest[1:]
		case ext && l3IsExtOp(c) && len(rest) > 0 && rest[0] == '(':
			if c == '!' {
				in.negExt++
				if depth > 0 {
					in.negNested = true
				}
				ok = false
			}
			alts, rest2, status, ub, sb, dq := l3ScanGroupX(fn, rest[1:])
			if dq {
				in.dashQuirk = true
			}
			if ub {
				in.unclosedBracketInGroup = true
			}
			if sb {
				in.slashBracket = true
			}
			if status == 2 {
				in.malformed = true
				return false
			}
			if status == 0 {
				in.unterminatedGroup = true
				// the reference reads the operator as an ordinary character
				ok = false
				pos, prev, s = l3PosAfter(c), c, rest
				continue
			}
			if c == '!' {
				ok = false
			}
			if dotSens && pos != l3Mid {
				in.leadingDot = true
				ok = false
			}
			for _, a := range alts {
				for _, x := range a {
					if fn && x == '/' {
						in.slashInGroup = true
						ok = false
					}
				}
				if !in.walk(mode, true, l3Mid, '(', a, depth+1) {
					ok = false
				}
			}
			if dotSens {
				pos = l3Unknown
			} else {
				pos = l3Mid
			}
			prev, s = ')', rest2
		case c == '?':
			if dotSens && pos != l3Mid {
				in.leadingDot = true
				ok = false
			}
			pos, prev, s = l3Mid, c, rest
		case c == '*':
			if !fn {
				if ext && len(rest) >= 2 && (rest[0] == '@' || rest[0] == '+') && rest[1] == '(' {
					in.starBeforeAtPlus = true
				}
				pos, prev, s = l3Mid, c, rest
				continue
			}
			if mode&l3NoStar == 0 && (prev == 0 || prev == '/') && len(rest) > 0 && rest[0] == '*' &&
				(len(rest) == 1 || rest[1] == '/') {
				if len(rest) == 1 {
					return ok
				}
				pos, prev, s = l3Start, '/', rest[2:]
				continue
			}
			after := l3Unknown
			if pos == l3Mid {
				after = l3Mid
			}
			if dotSens && pos == l3Unknown {
				in.leadingDot = true
				ok = false
			}
			if ext && len(rest) >= 2 && rest[0] == '*' && rest[1] == '(' {
				in.starSwallow = true
				ok = false
			}
			if ext && len(rest) >= 2 && (rest[0] == '@' || rest[0] == '+') && rest[1] == '(' {
				in.starBeforeAtPlus = true
			}
			if len(rest) > 0 && rest[0] == '*' {
				pos, prev, s = after, c, rest[1:]
			} else {
				pos, prev, s = after, c, rest
			}
		case c == '[':
			b := l3ScanBracket(fn, rest)
			if !b.supported {
				ok = false
			}
			if b.dashQuirk {
				in.dashQuirk = true
			}
			if !b.closed {
				in.unclosedBracket = true
			}
			switch b.verdict() {
			case "ok":
				if fn && b.hasSlashMember() {
					in.slashMember = true
					ok = false
				}
				if mode&l3NoCase != 0 && b.hasClass() {
					ok = false
					if b.hasCaseClass() {
						in.nocaseClass = true
					}
				}
				if dotSens && pos != l3Mid {
					in.leadingDot = true
					ok = false
				}
				pos, prev, s = l3Mid, ']', b.rest
			case "notBracket":
				if b.closed && b.slash {
					in.slashBracket = true
				}
				pos, prev, s = l3Mid, '[', rest
			default:
				in.malformed = true
				return ok
			}
		case inGroup && c == '(':
			in.bareParen = true
			ok = false
			pos, prev, s = l3Mid, c, rest
		default:
			if dotSens && pos == l3Unknown && c == '.' {
				in.leadingDot = true // `*.d` must not match `.d`
				ok = false
			}
			pos, prev, s = l3PosAfter(c), c, rest
		}
	}
	return ok
}
