//go:build c01 || all

package main

import (
	"fmt"
	"strings"

	"mvdan.cc/sh/v3/syntax"
)

// C01 — Formatting preserves program structure.
//
// Search leg (implementation only): Parse → [Simplify] → Print(opts) → Parse must succeed and
// give the same tree modulo `norm` (harness/l4.go); the same for every Stmt, Command and
// call-argument Word printed on its own.  Inputs: corpus witnesses, every string literal of the
// repo's own test tables in all five variants, grammar programs with layout mutations.
func init() { register("C01", c01) }

func c01(c *Ctx) {
	c.Rule = "inputs that parse in the variant; non-trivial = tree has ≥ 2 statements or a compound command; distinct by (lang, options, simplify, source)"
	st := newL4Stats()
	// 1. corpus witnesses (known findings and past failures): replayed verbatim
	for _, line := range c.CorpusLines() {
		mode, tc, ok := parseWitness(line)
		if !ok {
			continue
		}
		if fl := c01Replay(mode, tc); fl != nil {
			c.Fail(line, fl.String())
		}
		c.Case("corpus:"+line, true, "corpus")
	}
	run := func(tc l4Case, kind string, sub bool) {
		f, ok := tc.tree()
		if !ok {
			st.unparseable++
			return
		}
		sh := shapeOf(f)
		c.Case(tc.witness("file"), len(f.Stmts) >= 2 || len(sh.types) > 6, "lang="+tc.Lang.String(), "opts="+tc.Opts.class(), "src="+kind, "simplify="+b01(tc.Simplify))
		if id := c01Excluded(tc, f, sh); id != "" {
			st.excluded[id]++
			return
		}
		fl := c01File(tc, f)
		if fl == nil && sub {
			fl = c01Subnodes(tc, f, st)
		}
		if fl == nil {
			return
		}
		c01Report(c, tc, fl, st)
	}
	// 2. repo seeds × variants
	seeds := repoSeeds()
	nOpt := 2
	if c.Thorough() {
		nOpt = 6
	}
	for i, s := range seeds {
		if i%c.Shards != c.Shard {
			continue
		}
		for _, lang := range allLangs {
			base := l4Case{Lang: lang, Comments: true, Src: s}
			if _, ok := base.tree(); !ok {
				continue
			}
			run(base, "seed", true)
			for k := 0; k < nOpt; k++ {
				tc := base
				tc.Opts = randOpts(c.R, false)
				tc.Simplify = c.R.Chance(25)
				tc.Comments = c.R.Chance(70)
				run(tc, "seed", k == 0)
			}
		}
	}
	// 3. generated programs
	for i := 0; i < c.N; i++ {
		lang := allLangs[c.R.Intn(len(allLangs))]
		src, kind := l4Program(c.R, lang)
		tc := l4Case{Lang: lang, Comments: c.R.Chance(70), Src: src, Simplify: c.R.Chance(20)}
		if c.R.Chance(15) {
			tc.Opts = l4DefaultOpts
		} else {
			tc.Opts = randOpts(c.R, false)
		}
		run(tc, kind, c.R.Chance(50))
	}
	st.export(c)
}

type l4Fail struct {
	Kind   string // print-panic | print-error | no-refusal | reparse-error | reparse-panic | tree-diff | count
	Mode   string // file | stmt#k | cmd#k | word#k
	Detail string
}

func (f *l4Fail) String() string { return f.Mode + ": " + f.Kind + ": " + f.Detail }

type l4Stats struct {
	unparseable int
	excluded    map[string]int
	subnodes    int
	reported    map[string]bool
	failKinds   map[string]int
}

func newL4Stats() *l4Stats {
	return &l4Stats{excluded: map[string]int{}, reported: map[string]bool{}, failKinds: map[string]int{}}
}

func (st *l4Stats) export(c *Ctx) {
	c.Extra["unparseable_skipped"] = st.unparseable
	c.Extra["subnodes_printed"] = st.subnodes
	for k, v := range st.excluded {
		c.Extra["excluded:"+k] = v
	}
	for k, v := range st.failKinds {
		c.Extra["fail:"+k] = v
	}
}

// c01Print prints n with tc's options and checks the refusal rule.  done=true means the case is
// decided (either failed or the documented refusal happened).
func c01Print(tc l4Case, n syntax.Node, mode string) (out string, fl *l4Fail, done bool) {
	out, err, pan := tc.Opts.printNode(n)
	if pan != "" {
		return "", &l4Fail{"print-panic", mode, pan}, true
	}
	if tc.Opts.Minify && tc.Opts.Single {
		if err == nil {
			return "", &l4Fail{"no-refusal", mode, "Minify+SingleLine was not refused"}, true
		}
		return "", nil, true
	}
	if err != nil {
		return "", &l4Fail{"print-error", mode, err.Error()}, true
	}
	return out, nil, false
}

func clip(s string, n int) string {
	if len(s) > n {
		return s[:n] + "…"
	}
	return s
}

// c01File executes the round-trip statement on the whole file.
func c01File(tc l4Case, f *syntax.File) *l4Fail {
	cfg := normCfg{minify: tc.Opts.Minify}
	want := normDump(f, cfg)
	out, fl, done := c01Print(tc, f, "file")
	if done {
		return fl
	}
	f2, err, pan := tc.parse(out)
	if pan != "" {
		return &l4Fail{"reparse-panic", "file", fmt.Sprintf("%s; output %q", pan, clip(out, 300))}
	}
	if err != nil {
		return &l4Fail{"reparse-error", "file", fmt.Sprintf("%v; output %q", err, clip(out, 300))}
	}
	if got := normDump(f2, cfg); got != want {
		return &l4Fail{"tree-diff", "file", fmt.Sprintf("output %q; %s", clip(out, 300), firstDiff(want, got))}
	}
	return nil
}

type subnode struct {
	mode string
	node syntax.Node
}

// subnodesOf lists every Stmt, every Stmt.Cmd and every CallExpr argument word, in Walk order.
func subnodesOf(f *syntax.File) []subnode {
	var out []subnode
	ns, nc, nw := 0, 0, 0
	safely(func() {
		syntax.Walk(f, func(n syntax.Node) bool {
			switch n := n.(type) {
			case *syntax.Stmt:
				out = append(out, subnode{fmt.Sprintf("stmt#%d", ns), n})
				ns++
				if n.Cmd != nil {
					out = append(out, subnode{fmt.Sprintf("cmd#%d", nc), n.Cmd})
					nc++
				}
			case *syntax.CallExpr:
				for _, w := range n.Args {
					out = append(out, subnode{fmt.Sprintf("word#%d", nw), w})
					nw++
				}
			}
			return true
		})
	})
	return out
}

// c01Sub executes the statement for one sub-node printed on its own.
func c01Sub(tc l4Case, sn subnode) *l4Fail {
	cfg := normCfg{minify: tc.Opts.Minify}
	want := normDump(sn.node, cfg)
	out, fl, done := c01Print(tc, sn.node, sn.mode)
	if done {
		return fl
	}
	var got string
	if _, isWord := sn.node.(*syntax.Word); isWord {
		var ws []*syntax.Word
		var err error
		pan := safely(func() {
			err = syntax.NewParser(syntax.Variant(tc.Lang), syntax.KeepComments(tc.Comments)).Words(strings.NewReader(out), func(w *syntax.Word) bool {
				ws = append(ws, w)
				return true
			})
		})
		if pan != "" {
			return &l4Fail{"reparse-panic", sn.mode, fmt.Sprintf("%s; output %q", pan, clip(out, 300))}
		}
		if err != nil {
			return &l4Fail{"reparse-error", sn.mode, fmt.Sprintf("%v; output %q", err, clip(out, 300))}
		}
		if len(ws) != 1 {
			return &l4Fail{"count", sn.mode, fmt.Sprintf("%d words; output %q", len(ws), clip(out, 300))}
		}
		got = normDump(ws[0], cfg)
	} else {
		f2, err, pan := tc.parse(out)
		if pan != "" {
			return &l4Fail{"reparse-panic", sn.mode, fmt.Sprintf("%s; output %q", pan, clip(out, 300))}
		}
		if err != nil {
			return &l4Fail{"reparse-error", sn.mode, fmt.Sprintf("%v; output %q", err, clip(out, 300))}
		}
		if len(f2.Stmts) != 1 {
			return &l4Fail{"count", sn.mode, fmt.Sprintf("%d statements; output %q", len(f2.Stmts), clip(out, 300))}
		}
		if _, isStmt := sn.node.(*syntax.Stmt); isStmt {
			got = normDump(f2.Stmts[0], cfg)
		} else {
			s := f2.Stmts[0]
			if s.Negated || s.Background || s.Coprocess || s.Disown || len(s.Redirs) > 0 || s.Cmd == nil {
				return &l4Fail{"tree-diff", sn.mode, fmt.Sprintf("statement decorations appeared; output %q", clip(out, 300))}
			}
			got = normDump(s.Cmd, cfg)
		}
	}
	if got != want {
		return &l4Fail{"tree-diff", sn.mode, fmt.Sprintf("output %q; %s", clip(out, 300), firstDiff(want, got))}
	}
	return nil
}

func c01Subnodes(tc l4Case, f *syntax.File, st *l4Stats) *l4Fail {
	for _, sn := range subnodesOf(f) {
		if c01SubExcluded(tc, sn) != "" {
			continue
		}
		if st != nil {
			st.subnodes++
		}
		if fl := c01Sub(tc, sn); fl != nil {
			return fl
		}
	}
	return nil
}

// c01Replay re-executes a witness: mode "file", or "stmt#k" / "cmd#k" / "word#k".
func c01Replay(mode string, tc l4Case) *l4Fail {
	f, ok := tc.tree()
	if !ok {
		return nil
	}
	if mode == "file" {
		return c01File(tc, f)
	}
	for _, sn := range subnodesOf(f) {
		if sn.mode == mode {
			return c01Sub(tc, sn)
		}
	}
	return nil
}

// c01Report minimises a fresh failure and reports it.
func c01Report(c *Ctx, tc l4Case, fl *l4Fail, st *l4Stats) {
	kind := fl.Kind
	subKind := strings.SplitN(fl.Mode, "#", 2)[0]
	st.failKinds[kind+"/"+subKind+"/"+tc.Opts.class()]++
	if len(c.Failures) >= 150 {
		return
	}
	fails := func(t2 l4Case) *l4Fail {
		f, ok := t2.tree()
		if !ok {
			return nil
		}
		if id := c01Excluded(t2, f, shapeOf(f)); id != "" {
			return nil
		}
		if subKind == "file" {
			if r := c01File(t2, f); r != nil && r.Kind == kind {
				return r
			}
			return nil
		}
		for _, sn := range subnodesOf(f) {
			if !strings.HasPrefix(sn.mode, subKind+"#") || c01SubExcluded(t2, sn) != "" {
				continue
			}
			if r := c01Sub(t2, sn); r != nil && r.Kind == kind {
				return r
			}
		}
		return nil
	}
	t2 := tc
	t2.Src = ddmin(tc.Src, func(s string) bool { t := tc; t.Src = s; return fails(t) != nil }, 600)
	// simplify the option set: drop options that are not needed
	for _, drop := range []func(t *l4Case){
		func(t *l4Case) { t.Opts.Indent = 0 }, func(t *l4Case) { t.Opts.BinNext = false }, func(t *l4Case) { t.Opts.SwitchCase = false },
		func(t *l4Case) { t.Opts.SpaceRedir = false }, func(t *l4Case) { t.Opts.FuncNext = false }, func(t *l4Case) { t.Opts.KeepPad = false },
		func(t *l4Case) { t.Opts.Minify = false }, func(t *l4Case) { t.Opts.Single = false },
		func(t *l4Case) { t.Simplify = false }, func(t *l4Case) { t.Comments = false },
	} {
		t3 := t2
		drop(&t3)
		if t3 != t2 && fails(t3) != nil {
			t2 = t3
		}
	}
	// second shrink under the reduced options
	base := t2
	t2.Src = ddmin(base.Src, func(s string) bool { t := base; t.Src = s; return fails(t) != nil }, 300)
	r := fails(t2)
	if r == nil {
		r, t2 = fl, tc
	}
	w := t2.witness(r.Mode)
	if st.reported[w] {
		return
	}
	st.reported[w] = true
	c.Fail(w, fmt.Sprintf("[%s %s] source %q: %s", t2.Lang, t2.Opts, clip(t2.Src, 200), r.String()))
}

// ---------------------------------------------------------------------------------------------
// Recorded printer defects (known-findings.jsonl, property C01): exclusion predicates on
// (options, tree shape).  A case matching a predicate is skipped (counted under `excluded:<id>`).

func c01Excluded(tc l4Case, f *syntax.File, sh *shape) string {
	o := tc.Opts
	if o.Minify && o.Single {
		return "" // only the refusal is checked
	}
	// C01-comment-backslash-newline (root cause in the lexer): a comment ending in a backslash
	// swallows the newline, so the words of the next line join the command before the comment;
	// the printer moves the comment behind them and the line after *that* joins on re-parse.
	if commentEndsInBackslash(tc) {
		return "C01-comment-backslash-newline"
	}
	// C01-single-missing-semicolon: SingleLine joins statements with `;` only when the printer's
	// wroteSemi flag is false, but the flag is stale after a nested `&`, `{` or `;;`.
	between, beforeKw := wroteSemiLeaks(f)
	if o.Single && between {
		return "C01-single-missing-semicolon"
	}
	// C01-stale-wrotesemi-keyword: the same stale flag suppresses the `;` before do/then/done/fi/}
	// when the statement before the keyword ends in a word holding a nested `&` (`for i in $(a &); do`).
	if beforeKw {
		return "C01-stale-wrotesemi-keyword"
	}
	// C01-single-heredoc-test-let (root cause in the parser): a here-document body is not read
	// when the line carrying the `<<` operator ends in `]]` or a `let` expression; SingleLine
	// joins statements onto such lines.
	if o.Single && hasHeredoc(f) && (sh.has("TestClause") || sh.has("LetClause") || sh.has("CaseClause") || sh.has("Subshell") ||
		sh.has("CmdSubst") || sh.has("ProcSubst")) {
		// SingleLine defers the body to the next forced newline; when that newline falls inside a
		// construct the parser reads in a nested lexer state (( ), $( ), <( ), case, [[ ]], let) the
		// parser treats the here-document as buried and never reads the body (bash does).
		return "C01-single-heredoc-buried"
	}
	// C01-single-heredoc-in-heredoc: SingleLine prints a command substitution inside a
	// here-document body on one line, so a here-document inside it is flushed after the outer
	// delimiter.
	if o.Single && sh.any(func(n syntax.Node) bool {
		r, ok := n.(*syntax.Redirect)
		return ok && r.Hdoc != nil && hasHeredoc(r.Hdoc)
	}) {
		return "C01-single-heredoc-in-heredoc"
	}
	// C01-quoted-heredoc-backslash-newline: when the body of a here-document starts more than one
	// line below the printer's current line (escaped newline after the operator that the printer
	// drops; other bodies in between when a node is printed on its own), wordParts(quoted=true)
	// pads the gap with backslash-newlines *inside* the body — literal text if the delimiter is
	// quoted.  Over-approximated on the tree: body line > delimiter word line + 1.
	if sh.any(func(n syntax.Node) bool {
		r, ok := n.(*syntax.Redirect)
		return ok && r.Hdoc != nil && hdocDelimQuoted(r.Word) && r.Hdoc.Pos().Line() > r.Word.End().Line()+1
	}) {
		return "C01-quoted-heredoc-backslash-newline"
	}
	// C01-minify-last-case-op: Minify drops the operator of the last case item, so `;&` / `;;&`
	// there re-parse as `;;` (not a documented rewrite).
	if o.Minify && sh.any(func(n syntax.Node) bool {
		cc, ok := n.(*syntax.CaseClause)
		return ok && len(cc.Items) > 0 && cc.Items[len(cc.Items)-1].Op != syntax.Break
	}) {
		return "C01-minify-last-case-op"
	}
	// C01-mksh-case-braces: `case x { … }` is printed as `case x in … esac` (Braces lost; by design,
	// not in the documented list).
	if sh.any(func(n syntax.Node) bool { cc, ok := n.(*syntax.CaseClause); return ok && cc.Braces }) {
		return "C01-mksh-case-braces"
	}
	// C01-procsubst-word-split: inside a word, a process substitution after a part that leaves
	// wantSpace=spaceRequired (anything but a literal or single quotes; literals do not clear it)
	// gets a space in front.
	if sh.any(func(n syntax.Node) bool {
		w, ok := n.(*syntax.Word)
		if !ok {
			return false
		}
		for i, p := range w.Parts {
			if _, ok := p.(*syntax.ProcSubst); ok && i > 0 {
				for _, q := range w.Parts[:i] {
					switch q.(type) {
					case *syntax.Lit, *syntax.SglQuoted:
					default:
						return true
					}
				}
			}
		}
		return false
	}) || sh.any(func(n syntax.Node) bool {
		// a redirection's word starts with wantSpace=spaceRequired, which literals do not clear
		r, ok := n.(*syntax.Redirect)
		if !ok || r.Word == nil {
			return false
		}
		for i, p := range r.Word.Parts {
			if _, ok := p.(*syntax.ProcSubst); ok && i > 0 {
				return true
			}
		}
		return false
	}) {
		return "C01-procsubst-word-split"
	}
	// C01-heredoc-pipe-test-let (root cause in the parser, see C01-single-heredoc-buried): a
	// pending here-document keeps `| [[ … ]]` / `&& let …` on the operator's line, and the parser
	// does not read a body when that line ends in `]]` or a let expression.
	if sh.any(func(n syntax.Node) bool {
		b, ok := n.(*syntax.BinaryCmd)
		return ok && hasHeredoc(b.X) && (containsType(b.Y, "TestClause") || containsType(b.Y, "LetClause"))
	}) {
		return "C01-heredoc-pipe-test-let"
	}
	// C01-dashhdoc-escaped-newline: an escaped newline inside the body of an unquoted <<-
	// here-document is re-created by the printer, and with tab indentation the continuation line
	// is indented with tabs that are not stripped (they are not at the start of a logical line).
	if o.Indent == 0 && !o.Minify && !o.Single && sh.any(func(n syntax.Node) bool {
		r, ok := n.(*syntax.Redirect)
		if !ok || r.Op != syntax.DashHdoc || r.Hdoc == nil {
			return false
		}
		for i := 0; i+1 < len(r.Hdoc.Parts); i++ {
			_, ok1 := r.Hdoc.Parts[i].(*syntax.Lit)
			_, ok2 := r.Hdoc.Parts[i+1].(*syntax.Lit)
			if ok1 && ok2 {
				return true
			}
		}
		return false
	}) {
		return "C01-dashhdoc-escaped-newline"
	}
	// C01-dashhdoc-inner-tab: with tab indentation (Indent 0, no Minify) the body of a <<-
	// here-document is written through extraIndenter, which escapes only the leading tabs; a tab
	// further inside a line reaches text/tabwriter unescaped and is turned into padding spaces.
	if o.Indent == 0 && !o.Minify && sh.any(func(n syntax.Node) bool {
		r, ok := n.(*syntax.Redirect)
		if !ok || r.Op != syntax.DashHdoc || r.Hdoc == nil {
			return false
		}
		ls := true
		for _, p := range r.Hdoc.Parts {
			l, ok := p.(*syntax.Lit)
			if !ok {
				ls = false
				continue
			}
			for i := 0; i < len(l.Value); i++ {
				switch b := l.Value[i]; {
				case b == '\t' && !ls:
					return true
				case b == '\t':
				default:
					ls = b == '\n'
				}
			}
		}
		return false
	}) {
		return "C01-dashhdoc-inner-tab"
	}
	// C01-heredoc-then-multiline-subst: a here-document is pending and a command/process
	// substitution later on the same line gets a newline inside (it spans lines, holds two
	// statements, holds a function under FunctionNextLine, or — Minify — rightParen asks for one
	// whenever a here-document is pending): the pending body is flushed inside the substitution.
	if hasHeredoc(f) && !o.Single && sh.any(func(n syntax.Node) bool {
		r, ok := n.(*syntax.Redirect)
		if !ok || (r.Op != syntax.Hdoc && r.Op != syntax.DashHdoc) {
			return false
		}
		return sh.any(func(m syntax.Node) bool {
			var left, right syntax.Pos
			var nst int
			switch c := m.(type) {
			case *syntax.CmdSubst:
				left, right, nst = c.Left, c.Right, len(c.Stmts)
			case *syntax.ProcSubst:
				left, right, nst = c.OpPos, c.Rparen, len(c.Stmts)
			default:
				return false
			}
			return left.After(r.OpPos) && left.Line() == r.OpPos.Line() &&
				(right.Line() > left.Line() || nst > 1 || o.Minify || (o.FuncNext && containsType(m, "FuncDecl")))
		})
	}) {
		return "C01-heredoc-then-multiline-subst"
	}
	// C01-zsh-minify-short-subscript: Minify turns `${x}[b]` into `$x[b]`, which zsh reads as a
	// subscript (the printer only guards against name characters following).
	if o.Minify && tc.Lang == syntax.LangZsh && sh.any(func(n syntax.Node) bool {
		var parts []syntax.WordPart
		switch x := n.(type) {
		case *syntax.Word:
			parts = x.Parts
		case *syntax.DblQuoted:
			parts = x.Parts
		}
		for i, p := range parts {
			if pe, ok := p.(*syntax.ParamExp); ok && !pe.Short && paramSimple(pe) && i+1 < len(parts) {
				if l, ok := parts[i+1].(*syntax.Lit); ok && strings.HasPrefix(l.Value, "[") {
					return true
				}
			}
		}
		return false
	}) {
		return "C01-zsh-minify-short-subscript"
	}
	// C01-zsh-redirect-paren-word: zsh `> (0)` (redirection to a word starting with a parenthesis)
	// is printed `>(0)`, a process substitution.
	if tc.Lang == syntax.LangZsh && !o.SpaceRedir && sh.any(func(n syntax.Node) bool {
		r, ok := n.(*syntax.Redirect)
		if !ok || r.Word == nil || len(r.Word.Parts) == 0 || (r.Op != syntax.RdrOut && r.Op != syntax.RdrIn) {
			return false
		}
		l, ok := r.Word.Parts[0].(*syntax.Lit)
		return ok && strings.HasPrefix(l.Value, "(")
	}) {
		return "C01-zsh-redirect-paren-word"
	}
	// C01-minify-empty-block: Minify prints an empty block (mksh, zsh) as `{}`, a word.
	if o.Minify && sh.any(func(n syntax.Node) bool {
		b, ok := n.(*syntax.Block)
		return ok && len(b.Stmts) == 0
	}) {
		return "C01-minify-empty-block"
	}
	// C01-tabwriter-vt-ff: a vertical tab or form feed in a literal, quoted string or comment is
	// written unescaped through text/tabwriter, which treats both as cell/flush controls and
	// drops them.
	if strings.ContainsAny(tc.Src, "\v\f") {
		return "C01-tabwriter-vt-ff"
	}
	// C01-arith-sign-glue: `- -a`, `+ +a`, `- --a` print as `--a`, `++a`, `---a`; compact
	// printing (Minify, ${a:x:y}) also glues `a - -b` into `a--b`.
	if anyArithGlue(sh, o.Minify) {
		return "C01-arith-sign-glue"
	}
	// C01-dollar-backquote: a literal ending in `$` (or zsh `$#`) followed by a backquoted
	// substitution prints as `$$(` / `$#$(`, which re-parses as the parameter `$$` / `${#$}`.
	if sh.any(func(n syntax.Node) bool {
		var parts []syntax.WordPart
		switch x := n.(type) {
		case *syntax.Word:
			parts = x.Parts
		case *syntax.DblQuoted:
			parts = x.Parts
		}
		for i, p := range parts {
			if cs, ok := p.(*syntax.CmdSubst); ok && cs.Backquotes && i > 0 {
				if l, ok := parts[i-1].(*syntax.Lit); ok && strings.HasSuffix(l.Value, "$") {
					return true
				}
				if pe, ok := parts[i-1].(*syntax.ParamExp); ok && tc.Lang == syntax.LangZsh && pe.Short && pe.Param != nil && pe.Param.Value == "#" {
					return true
				}
			}
		}
		return false
	}) {
		return "C01-dollar-backquote"
	}
	// C01-funcdecl-leading-redirect: a redirection written before a function declaration is
	// printed after the body and re-parses as a redirection of the body.
	if sh.any(func(n syntax.Node) bool {
		st, ok := n.(*syntax.Stmt)
		if !ok || len(st.Redirs) == 0 {
			return false
		}
		_, isFn := st.Cmd.(*syntax.FuncDecl)
		return isFn
	}) {
		return "C01-funcdecl-leading-redirect"
	}
	// C01-coproc-name-assign (root cause in the parser): `coproc w a=` / `coproc a=` — the word
	// first taken as the coproc name is pushed back as a call argument although an assignment
	// follows or the word itself has assignment form.
	if sh.any(func(n syntax.Node) bool {
		cc, ok := n.(*syntax.CoprocClause)
		if !ok || cc.Name != nil || cc.Stmt == nil {
			return false
		}
		ce, ok := cc.Stmt.Cmd.(*syntax.CallExpr)
		if !ok || len(ce.Args) == 0 {
			return false
		}
		return len(ce.Assigns) > 0 || looksLikeAssign(ce.Args[0])
	}) {
		return "C01-coproc-name-assign"
	}
	return ""
}

// c01SubExcluded: exclusions that only concern a node printed on its own.
func c01SubExcluded(tc l4Case, sn subnode) string {
	// C01-zsh-dollar-hash-eof (root cause in the parser): zsh `$#` directly before the end of
	// input is read as a literal `$`; nodes printed on their own have no trailing newline.
	if tc.Lang == syntax.LangZsh {
		if out, err, pan := tc.Opts.printNode(sn.node); err == nil && pan == "" && strings.HasSuffix(out, "$#") {
			return "C01-zsh-dollar-hash-eof"
		}
	}
	// C01-command-first-newline: Print(Command) leaves Printer.firstLine set, so the first newline
	// the layout asks for is dropped (`case x in` NEWLINE `esac` prints `case x inesac`).  The
	// class is exactly: printing the command differs from printing the bare statement holding it.
	if cmd, ok := sn.node.(syntax.Command); ok {
		a, err1, p1 := tc.Opts.printNode(cmd)
		b, err2, p2 := tc.Opts.printNode(&syntax.Stmt{Cmd: cmd, Position: cmd.Pos()})
		if err1 == nil && err2 == nil && p1 == "" && p2 == "" && a != b {
			return "C01-command-first-newline"
		}
	}
	return ""
}
