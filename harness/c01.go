//go:build c01 || all

package main

import (
	"fmt"
	"os"
	"strings"

	"mvdan.cc/sh/v3/syntax"
)

// C01 — Formatting preserves program structure.
//
// Search leg (implementation only): Parse → [Simplify] → Print(opts) → Parse must succeed and
// give the same tree modulo `norm` (harness/l4.go); the same for every Stmt, Command and
// call-argument Word printed on its own.  Inputs: corpus witnesses, every string literal of the
// repo's own test tables in all five variants, grammar programs with layout mutations.
func init() { register("C01", c01) }

func c01(c *Ctx) {
	c.Rule = "inputs that parse in the variant; non-trivial = tree has ≥ 2 statements or a compound command; distinct by (lang, options, simplify, source)"
	st := newL4Stats()
	// 1. corpus witnesses (known findings and past failures): replayed verbatim
	for _, line := range c.CorpusLines() {
		mode, tc, ok := parseWitness(line)
		if !ok {
			continue
		}
		if fl := c01Replay(mode, tc); fl != nil {
			c.Fail(line, fl.String())
			// self-check of the exclusion table: a replayed witness must be inside some exclusion,
			// otherwise the random search would report it again under another spelling
			if id := c01WitnessExcluded(mode, tc); id == "" {
				if prev, ok := c.Extra["corpus_witness_outside_exclusions"].(string); ok {
					c.Extra["corpus_witness_outside_exclusions"] = prev + " | " + line
				} else {
					c.Extra["corpus_witness_outside_exclusions"] = line
				}
			} else {
				st.excluded["corpus:"+id]++
			}
		}
		c.Case("corpus:"+line, true, "corpus")
	}
	var tieCand []l4Case
	run := func(tc l4Case, kind string, sub bool) {
		f, ok := tc.tree()
		if !ok {
			st.unparseable++
			return
		}
		if (len(tieCand) < 800 || c.Thorough() && len(tieCand) < 6000) && len(tc.Src) < 200 && !tc.Simplify && tc.Opts == l4DefaultOpts {
			tieCand = append(tieCand, tc)
		}
		sh := shapeOf(f)
		c.Case(tc.witness("file"), len(f.Stmts) >= 2 || len(sh.types) > 6, "lang="+tc.Lang.String(), "opts="+tc.Opts.class(), "src="+kind, "simplify="+b01(tc.Simplify))
		if id := c01Excluded(tc, f, sh); id != "" {
			st.excluded[id]++
			return
		}
		fl := c01File(tc, f)
		if fl == nil && sub {
			fl = c01Subnodes(tc, f, st)
		}
		if fl == nil {
			return
		}
		c01Report(c, tc, fl, st)
	}
	if os.Getenv("VERIF_L4_CORPUS_ONLY") != "" {
		st.export(c)
		return
	}
	// 2. repo seeds × variants
	seeds := repoSeeds()
	nOpt := 1
	if c.Thorough() {
		nOpt = 6
	}
	for i, s := range seeds {
		if i%c.Shards != c.Shard {
			continue
		}
		if !c.Thorough() && (i/c.Shards+int(c.Seed))%2 != 0 {
			continue // the quick tier replays every other seed string; VERIF_SEED alternates the half
		}
		for _, lang := range allLangs {
			base := l4Case{Lang: lang, Comments: true, Src: s}
			if _, ok := base.tree(); !ok {
				continue
			}
			run(base, "seed", true)
			for k := 0; k < nOpt; k++ {
				tc := base
				tc.Opts = randOpts(c.R, false)
				tc.Simplify = c.R.Chance(25)
				tc.Comments = c.R.Chance(70)
				run(tc, "seed", k == 0 && c.Thorough())
			}
		}
	}
	// 3. generated programs
	for i := 0; i < c.N; i++ {
		lang := allLangs[c.R.Intn(len(allLangs))]
		src, kind := l4Program(c.R, lang)
		tc := l4Case{Lang: lang, Comments: c.R.Chance(70), Src: src, Simplify: c.R.Chance(20)}
		if c.R.Chance(15) {
			tc.Opts = l4DefaultOpts
		} else {
			tc.Opts = randOpts(c.R, false)
		}
		run(tc, kind, c.R.Chance(50))
	}
	// correspondence with the Lean L4 model (fragment F0)
	l4Tie(c, c.N/4+50, tieCand, true)
	st.export(c)
}

// c01Print prints n with tc's options and checks the refusal rule.  done=true means the case is
// decided (either failed or the documented refusal happened).
func c01Print(tc l4Case, n syntax.Node, mode string) (out string, fl *l4Fail, done bool) {
	out, err, pan := tc.Opts.printNode(n)
	if pan != "" {
		return "", &l4Fail{"print-panic", mode, pan}, true
	}
	if tc.Opts.Minify && tc.Opts.Single {
		if err == nil {
			return "", &l4Fail{"no-refusal", mode, "Minify+SingleLine was not refused"}, true
		}
		return "", nil, true
	}
	if err != nil {
		return "", &l4Fail{"print-error", mode, err.Error()}, true
	}
	return out, nil, false
}

// c01File executes the round-trip statement on the whole file.
func c01File(tc l4Case, f *syntax.File) *l4Fail {
	cfg := normCfg{minify: tc.Opts.Minify}
	want := normDump(f, cfg)
	out, fl, done := c01Print(tc, f, "file")
	if done {
		return fl
	}
	f2, err, pan := tc.parse(out)
	if pan != "" {
		return &l4Fail{"reparse-panic", "file", fmt.Sprintf("%s; output %q", pan, clip(out, 300))}
	}
	if err != nil {
		return &l4Fail{"reparse-error", "file", fmt.Sprintf("%v; output %q", err, clip(out, 300))}
	}
	if got := normDump(f2, cfg); got != want {
		return &l4Fail{"tree-diff", "file", fmt.Sprintf("output %q; %s", clip(out, 300), firstDiff(want, got))}
	}
	return nil
}

// c01Sub executes the statement for one sub-node printed on its own.
func c01Sub(tc l4Case, sn subnode) *l4Fail {
	cfg := normCfg{minify: tc.Opts.Minify}
	want := normDump(sn.node, cfg)
	out, fl, done := c01Print(tc, sn.node, sn.mode)
	if done {
		return fl
	}
	var got string
	if _, isWord := sn.node.(*syntax.Word); isWord {
		var ws []*syntax.Word
		var err error
		pan := safely(func() {
			err = syntax.NewParser(syntax.Variant(tc.Lang), syntax.KeepComments(tc.Comments)).Words(strings.NewReader(out), func(w *syntax.Word) bool {
				ws = append(ws, w)
				return true
			})
		})
		if pan != "" {
			return &l4Fail{"reparse-panic", sn.mode, fmt.Sprintf("%s; output %q", pan, clip(out, 300))}
		}
		if err != nil {
			return &l4Fail{"reparse-error", sn.mode, fmt.Sprintf("%v; output %q", err, clip(out, 300))}
		}
		if len(ws) != 1 {
			return &l4Fail{"count", sn.mode, fmt.Sprintf("%d words; output %q", len(ws), clip(out, 300))}
		}
		got = normDump(ws[0], cfg)
	} else {
		f2, err, pan := tc.parse(out)
		if pan != "" {
			return &l4Fail{"reparse-panic", sn.mode, fmt.Sprintf("%s; output %q", pan, clip(out, 300))}
		}
		if err != nil {
			return &l4Fail{"reparse-error", sn.mode, fmt.Sprintf("%v; output %q", err, clip(out, 300))}
		}
		if len(f2.Stmts) != 1 {
			return &l4Fail{"count", sn.mode, fmt.Sprintf("%d statements; output %q", len(f2.Stmts), clip(out, 300))}
		}
		if _, isStmt := sn.node.(*syntax.Stmt); isStmt {
			got = normDump(f2.Stmts[0], cfg)
		} else {
			s := f2.Stmts[0]
			if s.Negated || s.Background || s.Coprocess || s.Disown || len(s.Redirs) > 0 || s.Cmd == nil {
				return &l4Fail{"tree-diff", sn.mode, fmt.Sprintf("statement decorations appeared; output %q", clip(out, 300))}
			}
			got = normDump(s.Cmd, cfg)
		}
	}
	if got != want {
		return &l4Fail{"tree-diff", sn.mode, fmt.Sprintf("output %q; %s", clip(out, 300), firstDiff(want, got))}
	}
	return nil
}

func c01Subnodes(tc l4Case, f *syntax.File, st *l4Stats) *l4Fail {
	for _, sn := range subnodesOf(f) {
		if c01SubExcluded(tc, sn) != "" {
			continue
		}
		if st != nil {
			st.subnodes++
		}
		if fl := c01Sub(tc, sn); fl != nil {
			return fl
		}
	}
	return nil
}

// c01Replay re-executes a witness: mode "file", or "stmt#k" / "cmd#k" / "word#k".
func c01Replay(mode string, tc l4Case) *l4Fail {
	f, ok := tc.tree()
	if !ok {
		return nil
	}
	if mode == "file" {
		return c01File(tc, f)
	}
	for _, sn := range subnodesOf(f) {
		if sn.mode == mode {
			return c01Sub(tc, sn)
		}
	}
	return nil
}

// c01Report minimises a fresh failure and reports it.
func c01Report(c *Ctx, tc l4Case, fl *l4Fail, st *l4Stats) {
	kind := fl.Kind
	subKind := strings.SplitN(fl.Mode, "#", 2)[0]
	st.failKinds[kind+"/"+subKind+"/"+tc.Opts.class()]++
	if len(c.Failures) >= 150 {
		return
	}
	fails := func(t2 l4Case) *l4Fail {
		f, ok := t2.tree()
		if !ok {
			return nil
		}
		if id := c01Excluded(t2, f, shapeOf(f)); id != "" {
			return nil
		}
		if subKind == "file" {
			if r := c01File(t2, f); r != nil && r.Kind == kind {
				return r
			}
			return nil
		}
		for _, sn := range subnodesOf(f) {
			if !strings.HasPrefix(sn.mode, subKind+"#") || c01SubExcluded(t2, sn) != "" {
				continue
			}
			if r := c01Sub(t2, sn); r != nil && r.Kind == kind {
				return r
			}
		}
		return nil
	}
	t2 := tc
	t2.Src = ddmin(tc.Src, func(s string) bool { t := tc; t.Src = s; return fails(t) != nil }, 600)
	// simplify the option set: drop options that are not needed
	for _, drop := range []func(t *l4Case){
		func(t *l4Case) { t.Opts.Indent = 0 }, func(t *l4Case) { t.Opts.BinNext = false }, func(t *l4Case) { t.Opts.SwitchCase = false },
		func(t *l4Case) { t.Opts.SpaceRedir = false }, func(t *l4Case) { t.Opts.FuncNext = false }, func(t *l4Case) { t.Opts.KeepPad = false },
		func(t *l4Case) { t.Opts.Minify = false }, func(t *l4Case) { t.Opts.Single = false },
		func(t *l4Case) { t.Simplify = false }, func(t *l4Case) { t.Comments = false },
	} {
		t3 := t2
		drop(&t3)
		if t3 != t2 && fails(t3) != nil {
			t2 = t3
		}
	}
	// second shrink under the reduced options
	base := t2
	t2.Src = ddmin(base.Src, func(s string) bool { t := base; t.Src = s; return fails(t) != nil }, 300)
	r := fails(t2)
	if r == nil {
		r, t2 = fl, tc
	}
	w := t2.witness(r.Mode)
	if st.reported[w] {
		return
	}
	st.reported[w] = true
	c.Fail(w, fmt.Sprintf("[%s %s] source %q: %s", t2.Lang, t2.Opts, clip(t2.Src, 200), r.String()))
}

// c01SubExcluded: exclusions that only concern a node printed on its own.
func c01SubExcluded(tc l4Case, sn subnode) string {
	// C01-zsh-dollar-hash-eof (root cause in the parser): zsh `$#` directly before the end of
	// input is read as a literal `$`; nodes printed on their own have no trailing newline.
	if tc.Lang == syntax.LangZsh {
		if out, err, pan := tc.Opts.printNode(sn.node); err == nil && pan == "" && strings.HasSuffix(out, "$#") {
			return "C01-zsh-dollar-hash-eof"
		}
	}
	return ""
}

func c01WitnessExcluded(mode string, tc l4Case) string {
	f, ok := tc.tree()
	if !ok {
		return ""
	}
	if id := c01Excluded(tc, f, shapeOf(f)); id != "" {
		return id
	}
	for _, sn := range subnodesOf(f) {
		if sn.mode == mode {
			return c01SubExcluded(tc, sn)
		}
	}
	return ""
}
