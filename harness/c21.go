//go:build c21 || all

package main

import (
	"fmt"
	"os"
	"regexp"
	"sort"
	"strconv"
	"strings"
	"time"
	"unicode"
	"unicode/utf8"

	"mvdan.cc/sh/v3/expand"
	"mvdan.cc/sh/v3/pattern"
	"mvdan.cc/sh/v3/syntax"
)

// C21 — Parameter expansion matches bash.
//
// Streams (tie, model = code):
//
//	fields  expand.Fields of the word `${…}` / `"${…}"` (source text parsed by the Bash parser) over a
//	        map-backed environment = ShVerif.C21.fields
//	lit     expand.Literal of the same word = ShVerif.C21.paramExp
//	rm      removePattern (hook) = the model's removal with Go's regexp as the matcher parameter
//	        (tables of which prefixes/suffixes match); rm3: the same with the L3 matcher
//	casetab unicode.ToUpper/ToLower on the modelled range
//
// Streams (spec, property = code): spectab, specsub, specrm, specrepl, speccase.
// Search leg (independent oracle = bash): scripts printing the fields, interp vs bash.
func init() { register("C21", c21) }

// ---------------------------------------------------------------------------------------------
// states

type c21Var struct {
	kind    byte // 'u' unset, 's' string, 'i' indexed, 'a' associative
	flags   string
	str     string
	list    []string
	nilList bool
	idx     []int // nil: dense
	keys    []string
}

type c21State struct {
	argNoUnset bool // expand operator words under set -u, like the case itself
	ifsSet     bool
	ifs        string
	params     []string
	names      []string // regular variables, in script order
	vars       map[string]c21Var
}

type c21Case struct {
	st      c21State
	src     string // the `${…}` source
	quoted  bool
	nounset bool
	ast     *syntax.ParamExp // malformed stream: a node built directly, not parsed
}

func c21Flags(f string) string {
	if f == "" {
		return "-"
	}
	return f
}

func (v c21Var) tokens() string {
	switch v.kind {
	case 's':
		return "s " + c21Flags(v.flags) + " " + hx(v.str)
	case 'i':
		if v.nilList {
			return "i " + c21Flags(v.flags) + " N"
		}
		s := "i " + c21Flags(v.flags) + " " + strconv.Itoa(len(v.list))
		for _, e := range v.list {
			s += " " + hx(e)
		}
		if v.idx == nil {
			return s + " D"
		}
		s += " S " + strconv.Itoa(len(v.idx))
		for _, k := range v.idx {
			s += " " + strconv.Itoa(k)
		}
		return s
	case 'a':
		s := "a " + c21Flags(v.flags) + " " + strconv.Itoa(len(v.keys))
		for i, k := range v.keys {
			s += " " + hx(k) + " " + hx(v.list[i])
		}
		return s
	}
	return "u"
}

func (v c21Var) variable() expand.Variable {
	vr := expand.Variable{ReadOnly: strings.Contains(v.flags, "r"), Exported: strings.Contains(v.flags, "x")}
	switch v.kind {
	case 's':
		vr.Set, vr.Kind, vr.Str = true, expand.String, v.str
	case 'i':
		vr.Set, vr.Kind = true, expand.Indexed
		if !v.nilList {
			vr.List = append([]string{}, v.list...)
		}
		if v.idx != nil {
			vr.Indexes = append([]int{}, v.idx...)
		}
	case 'a':
		vr.Set, vr.Kind = true, expand.Associative
		vr.Map = map[string]string{}
		for i, k := range v.keys {
			vr.Map[k] = v.list[i]
		}
	default:
		return expand.Variable{}
	}
	return vr
}

// c21VarOf renders a Go variable in the token form of the driver's showVar.
func c21VarOf(vr expand.Variable) string {
	fl := ""
	if vr.ReadOnly {
		fl += "r"
	}
	if vr.Exported {
		fl += "x"
	}
	switch vr.Kind {
	case expand.String:
		return "s " + c21Flags(fl) + " " + hx(vr.Str)
	case expand.Indexed:
		if vr.List == nil {
			return "i " + c21Flags(fl) + " N"
		}
		s := "i " + c21Flags(fl) + " " + strconv.Itoa(len(vr.List))
		for _, e := range vr.List {
			s += " " + hx(e)
		}
		if vr.Indexes == nil {
			return s + " D"
		}
		s += " S " + strconv.Itoa(len(vr.Indexes))
		for _, k := range vr.Indexes {
			s += " " + strconv.Itoa(k)
		}
		return s
	case expand.Associative:
		keys := make([]string, 0, len(vr.Map))
		for k := range vr.Map {
			keys = append(keys, k)
		}
		sort.Strings(keys)
		s := "a " + c21Flags(fl) + " " + strconv.Itoa(len(keys))
		for _, k := range keys {
			s += " " + hx(k) + " " + hx(vr.Map[k])
		}
		return s
	}
	return "u"
}

// envEntries lists (name, variable tokens) of the whole environment, specials first, as the model
// receives it.
func (st c21State) envTokens() (int, string) {
	var sb strings.Builder
	n := 0
	add := func(name string, v c21Var) {
		sb.WriteString(" " + hx(name) + " " + v.tokens())
		n++
	}
	if st.ifsSet {
		add("IFS", c21Var{kind: 's', str: st.ifs})
	}
	ps := c21Var{kind: 'i', list: st.params}
	add("@", ps)
	add("*", ps)
	add("#", c21Var{kind: 's', str: strconv.Itoa(len(st.params))})
	add("0", c21Var{kind: 's', str: "sh"})
	for i, p := range st.params {
		if i < 9 {
			add(strconv.Itoa(i+1), c21Var{kind: 's', str: p})
		}
	}
	for _, name := range st.names {
		if v := st.vars[name]; v.kind != 'u' {
			add(name, v)
		}
	}
	return n, sb.String()
}

type c21Env struct {
	m     map[string]expand.Variable
	names []string // what Each yields
}

func (e *c21Env) Get(name string) expand.Variable { return e.m[name] }
func (e *c21Env) Each(f func(string, expand.Variable) bool) {
	for _, n := range e.names {
		if v, ok := e.m[n]; ok {
			if !f(n, v) {
				return
			}
		}
	}
}
func (e *c21Env) Set(name string, vr expand.Variable) error {
	if _, ok := e.m[name]; !ok {
		e.names = append(e.names, name)
	}
	e.m[name] = vr
	return nil
}

func (st c21State) env() *c21Env {
	e := &c21Env{m: map[string]expand.Variable{}}
	if st.ifsSet {
		e.m["IFS"] = expand.Variable{Set: true, Kind: expand.String, Str: st.ifs}
		e.names = append(e.names, "IFS")
	}
	ps := append([]string{}, st.params...)
	e.m["@"] = expand.Variable{Set: true, Kind: expand.Indexed, List: ps}
	e.m["*"] = expand.Variable{Set: true, Kind: expand.Indexed, List: ps}
	e.m["#"] = expand.Variable{Set: true, Kind: expand.String, Str: strconv.Itoa(len(ps))}
	e.m["0"] = expand.Variable{Set: true, Kind: expand.String, Str: "sh"}
	for i, p := range ps {
		if i < 9 {
			e.m[strconv.Itoa(i+1)] = expand.Variable{Set: true, Kind: expand.String, Str: p}
		}
	}
	for _, name := range st.names {
		if v := st.vars[name]; v.kind != 'u' {
			e.m[name] = v.variable()
			e.names = append(e.names, name)
		}
	}
	return e
}

// ---------------------------------------------------------------------------------------------
// the parsed expansion

type c21PE struct {
	name          string
	idxKind       byte // '-', '@', '*', 'w' (literal word), 'e' (other expression)
	idxText       string
	excl          bool
	length        bool
	names         int
	kind          byte // 'N', 'S', 'R', 'X'
	hasOff        bool
	off           int
	hasLen        bool
	ln            int
	all           bool
	anchor        byte   // 'n', 'p', 's'
	orig          string // expand.Pattern of Repl.Orig
	with          string
	op            string
	arg           string
	argQuoted     bool // the argument word has a quoted part
	origSrcSlash  bool // replace pattern source starts with '/'
	withAmp       bool // an unquoted part of the replacement yields a '&'
	withBackslash bool // an unquoted literal part of the replacement has a backslash
}

func (p *c21PE) tokens() string {
	idx := "-"
	switch p.idxKind {
	case '@', '*':
		idx = string(p.idxKind)
	case 'w', 'e':
		idx = string(p.idxKind) + hx(p.idxText)
	}
	b := func(x bool) string {
		if x {
			return "1"
		}
		return "0"
	}
	s := hx(p.name) + " " + idx + " " + b(p.excl) + " " + b(p.length) + " " + strconv.Itoa(p.names)
	oi := func(has bool, v int) string {
		if !has {
			return "-"
		}
		return strconv.Itoa(v)
	}
	switch p.kind {
	case 'S':
		s += " S " + oi(p.hasOff, p.off) + " " + oi(p.hasLen, p.ln)
	case 'R':
		s += " R " + b(p.all) + " " + string(p.anchor) + " " + hx(p.orig) + " " + hx(p.with)
	case 'X':
		s += " X " + p.op + " " + hx(p.arg)
	default:
		s += " N"
	}
	return s
}

var c21OpNames = map[syntax.ParExpOperator]string{
	syntax.AlternateUnset: "+", syntax.AlternateUnsetOrNull: ":+",
	syntax.DefaultUnset: "-", syntax.DefaultUnsetOrNull: ":-",
	syntax.ErrorUnset: "?", syntax.ErrorUnsetOrNull: ":?",
	syntax.AssignUnset: "=", syntax.AssignUnsetOrNull: ":=",
	syntax.RemSmallPrefix: "#", syntax.RemLargePrefix: "##",
	syntax.RemSmallSuffix: "%", syntax.RemLargeSuffix: "%%",
	syntax.UpperFirst: "^", syntax.UpperAll: "^^",
	syntax.LowerFirst: ",", syntax.LowerAll: ",,",
	syntax.OtherParamOps: "@",
}

// c21Arith evaluates the literal integer shapes the generator writes.
func c21Arith(x syntax.ArithmExpr) (int, string, bool) {
	switch x := x.(type) {
	case *syntax.Word:
		l := x.Lit()
		if l == "" {
			return 0, "", false
		}
		n, err := strconv.Atoi(l)
		if err != nil {
			return 0, l, true // a name: evaluates to 0 when unset (the generator keeps such names unset)
		}
		return n, l, true
	case *syntax.ParenArithm:
		return c21Arith(x.X)
	case *syntax.UnaryArithm:
		if x.Op == syntax.Minus && !x.Post {
			n, t, ok := c21Arith(x.X)
			return -n, "-" + t, ok
		}
	}
	return 0, "", false
}

func c21WordQuoted(w *syntax.Word) bool {
	if w == nil {
		return false
	}
	for _, p := range w.Parts {
		switch p.(type) {
		case *syntax.SglQuoted, *syntax.DblQuoted:
			return true
		}
	}
	return false
}

// c21Parse parses `p <word>` and returns the word and the decoded parameter expansion.
func c21Parse(src string, quoted bool, st *c21State) (*syntax.Word, *c21PE, string) {
	text := src
	if quoted {
		text = `"` + src + `"`
	}
	f, err := syntax.NewParser(syntax.Variant(syntax.LangBash)).Parse(strings.NewReader("p "+text+"\n"), "")
	if err != nil {
		return nil, nil, "parse-error"
	}
	if len(f.Stmts) != 1 {
		return nil, nil, "parse-shape"
	}
	call, ok := f.Stmts[0].Cmd.(*syntax.CallExpr)
	if !ok || len(call.Args) != 2 || len(call.Args[1].Parts) != 1 {
		return nil, nil, "parse-shape"
	}
	w := call.Args[1]
	var pe *syntax.ParamExp
	if quoted {
		dq, ok := w.Parts[0].(*syntax.DblQuoted)
		if !ok || len(dq.Parts) != 1 {
			return nil, nil, "parse-shape"
		}
		pe, _ = dq.Parts[0].(*syntax.ParamExp)
	} else {
		pe, _ = w.Parts[0].(*syntax.ParamExp)
	}
	if pe == nil {
		return nil, nil, "parse-shape"
	}
	d, perr := c21Decode(pe, src, st)
	return w, d, perr
}

// c21Decode reads the fields of a ParamExp node into the form the model receives.
func c21Decode(pe *syntax.ParamExp, src string, st *c21State) (*c21PE, string) {
	if pe.Param == nil || pe.Width || pe.IsSet || pe.NestedParam != nil || len(pe.Modifiers) != 0 || pe.Flags != nil {
		return nil, "parse-shape"
	}
	d := &c21PE{name: pe.Param.Value, idxKind: '-', excl: pe.Excl, length: pe.Length, kind: 'N', anchor: 'n'}
	switch pe.Names {
	case syntax.NamesPrefix:
		d.names = 1
	case syntax.NamesPrefixWords:
		d.names = 2
	}
	if pe.Index != nil {
		if w, ok := pe.Index.(*syntax.Word); ok {
			l := w.Lit()
			switch {
			case l == "@" || l == "*":
				d.idxKind = l[0]
			case l != "":
				d.idxKind, d.idxText = 'w', l
			default:
				return nil, "index-shape"
			}
		} else {
			_, t, ok := c21Arith(pe.Index)
			if !ok {
				return nil, "index-shape"
			}
			d.idxKind, d.idxText = 'e', t
		}
	}
	// operator words are expanded before the model sees them, in the case's own environment
	// (they may read variables: ${x/p/$w})
	cfg0 := &expand.Config{Env: &c21Env{m: map[string]expand.Variable{}}}
	if st != nil {
		cfg0.Env = st.env()
		// under `set -u` an operator word that reads an unset parameter (${x/p/$1}) is an error of
		// that word's expansion, raised before the operator runs: such a case is outside the model
		// ("arg-error" below), the words being handed to the model already expanded
		cfg0.NoUnset = st.argNoUnset
	}
	switch {
	case pe.Slice != nil:
		d.kind = 'S'
		if pe.Slice.Offset != nil {
			n, _, ok := c21Arith(pe.Slice.Offset)
			if !ok {
				return nil, "slice-shape"
			}
			d.hasOff, d.off = true, n
		}
		if pe.Slice.Length != nil {
			n, _, ok := c21Arith(pe.Slice.Length)
			if !ok {
				return nil, "slice-shape"
			}
			d.hasLen, d.ln = true, n
		}
		if pe.Repl != nil || pe.Exp != nil {
			return nil, "parse-shape"
		}
	case pe.Repl != nil:
		d.kind = 'R'
		d.all = pe.Repl.All
		var err error
		if d.orig, err = expand.Pattern(cfg0, pe.Repl.Orig); err != nil {
			return nil, "arg-error"
		}
		if d.with, err = expand.VerifC22LiteralKeepEscapes(cfg0, pe.Repl.With); err != nil { // as replaceElems does
			return nil, "arg-error"
		}
		if pe.Repl.Orig != nil && len(pe.Repl.Orig.Parts) > 0 {
			if l, ok := pe.Repl.Orig.Parts[0].(*syntax.Lit); ok {
				if strings.HasPrefix(l.Value, "#") {
					d.anchor = 'p'
				} else if strings.HasPrefix(l.Value, "%") {
					d.anchor = 's'
				}
			}
		}
		d.argQuoted = c21WordQuoted(pe.Repl.Orig) || c21WordQuoted(pe.Repl.With)
		if pe.Repl.With != nil {
			for _, part := range pe.Repl.With.Parts {
				switch part := part.(type) {
				case *syntax.Lit:
					if strings.Contains(part.Value, "&") {
						d.withAmp = true
					}
					if strings.Contains(part.Value, "\\") {
						d.withBackslash = true
					}
				case *syntax.ParamExp:
					if v, err := expand.Literal(cfg0, &syntax.Word{Parts: []syntax.WordPart{part}}); err == nil && strings.Contains(v, "&") {
						d.withAmp = true
					}
				}
			}
		}
		if i := strings.IndexByte(src, '/'); i >= 0 {
			rest := src[i+1:]
			if d.all {
				rest = strings.TrimPrefix(rest, "/")
			}
			d.origSrcSlash = strings.HasPrefix(rest, "/")
		}
		if pe.Exp != nil {
			return nil, "parse-shape"
		}
	case pe.Exp != nil:
		d.kind = 'X'
		name, ok := c21OpNames[pe.Exp.Op]
		if !ok {
			return nil, "op-shape"
		}
		d.op = name
		var err error
		switch pe.Exp.Op {
		case syntax.RemSmallPrefix, syntax.RemLargePrefix, syntax.RemSmallSuffix, syntax.RemLargeSuffix,
			syntax.UpperFirst, syntax.UpperAll, syntax.LowerFirst, syntax.LowerAll:
			d.arg, err = expand.Pattern(cfg0, pe.Exp.Word) // Config.expArg
		default:
			d.arg, err = expand.VerifC22LiteralKeepEscapes(cfg0, pe.Exp.Word)
		}
		if err != nil {
			return nil, "arg-error"
		}
		d.argQuoted = c21WordQuoted(pe.Exp.Word)
	}
	return d, ""
}

// ---------------------------------------------------------------------------------------------
// running the implementation

func c21ErrKind(err error) string {
	if u, ok := err.(expand.UnsetParameterError); ok {
		if u.Message == "unbound variable" {
			return "err unbound"
		}
		return "err unset " + hx(u.Message)
	}
	switch err.Error() {
	case "invalid indirect expansion":
		return "err indirect"
	case "negative array index":
		return "err negindex"
	case "unsupported":
		return "err unsupported"
	case "unsupported associative array subscript":
		return "err assocsubscript"
	}
	if _, ok := err.(syntax.QuoteError); ok {
		return "err quote"
	}
	if _, ok := err.(*syntax.QuoteError); ok {
		return "err quote"
	}
	if n, ok := strings.CutSuffix(err.Error(), ": substring expression < 0"); ok {
		return "err substr " + n
	}
	return "err other:" + hx(err.Error())
}

func c21IsAssign(d *c21PE) bool { return d.kind == 'X' && (d.op == "=" || d.op == ":=") }

func c21UnorderedKeys(st c21State, d *c21PE, quoted bool) bool {
	return quoted && d.excl && d.names == 0 && d.idxKind == '@' && st.vars[d.name].kind == 'a'
}

// c21Fields runs expand.Fields (literal=false) or expand.Literal on the word.
func c21Run(cs c21Case, w *syntax.Word, d *c21PE, literal bool) string {
	var out string
	p := safely(func() {
		env := cs.st.env()
		cfg := &expand.Config{Env: env, NoUnset: cs.nounset}
		tail := ""
		// what another holder of the variable (the parent shell of a subshell, which shares the
		// Variable values) would still see after an assigning expansion: the slices and the map that
		// were in the environment before must not be written to
		before := env.m[d.name]
		wantList := append([]string{}, before.List...)
		wantIdx := append([]int{}, before.Indexes...)
		wantMap := map[string]string{}
		for k, v := range before.Map {
			wantMap[k] = v
		}
		if literal {
			s, err := expand.Literal(cfg, w)
			if err != nil {
				out = c21ErrKind(err)
				return
			}
			out = "ok " + hx(s)
		} else {
			fs, err := expand.Fields(cfg, w)
			if err != nil {
				out = c21ErrKind(err)
				return
			}
			if c21UnorderedKeys(cs.st, d, cs.quoted) {
				sort.Strings(fs)
			}
			out = strings.TrimSpace("ok " + strconv.Itoa(len(fs)) + " " + hxs(fs))
		}
		if c21IsAssign(d) {
			tail = " | " + c21VarOf(env.Get(d.name))
			shared := "P0"
			for i := range wantList {
				if before.List[i] != wantList[i] {
					shared = "P1" // the old list was written in place
				}
			}
			for i := range wantIdx {
				if before.Indexes[i] != wantIdx[i] {
					shared = "P1"
				}
			}
			if len(before.Map) != len(wantMap) {
				shared = "P1"
			}
			for k, v := range wantMap {
				if bv, ok := before.Map[k]; !ok || bv != v {
					shared = "P1"
				}
			}
			tail += " " + shared
		}
		out += tail
	})
	if p != "" {
		return "panic"
	}
	return out
}

func (cs c21Case) opArgs(d *c21PE) string {
	n, env := cs.st.envTokens()
	nu := "0"
	if cs.nounset {
		nu = "1"
	}
	return nu + " " + strconv.Itoa(n) + env + " " + d.tokens()
}

// ---------------------------------------------------------------------------------------------
// witness encoding (corpus lines, known findings): `sh <q> <nounset> <ifs|U> <nparams> <p>* <nvars> (<name> <var>)* <src>`

func (cs c21Case) witness() string {
	b := func(x bool) string {
		if x {
			return "1"
		}
		return "0"
	}
	s := b(cs.quoted) + " " + b(cs.nounset) + " "
	if cs.st.ifsSet {
		s += hx(cs.st.ifs)
	} else {
		s += "U"
	}
	s += " " + strconv.Itoa(len(cs.st.params))
	for _, p := range cs.st.params {
		s += " " + hx(p)
	}
	s += " " + strconv.Itoa(len(cs.st.names))
	for _, n := range cs.st.names {
		s += " " + hx(n) + " " + cs.st.vars[n].tokens()
	}
	return s + " " + hx(cs.src)
}

func c21ParseVar(f []string) (c21Var, []string, bool) {
	if len(f) == 0 {
		return c21Var{}, nil, false
	}
	fl := func(s string) string {
		if s == "-" {
			return ""
		}
		return s
	}
	switch f[0] {
	case "u":
		return c21Var{kind: 'u'}, f[1:], true
	case "s":
		if len(f) < 3 {
			return c21Var{}, nil, false
		}
		return c21Var{kind: 's', flags: fl(f[1]), str: unhx(f[2])}, f[3:], true
	case "i":
		if len(f) < 3 {
			return c21Var{}, nil, false
		}
		v := c21Var{kind: 'i', flags: fl(f[1])}
		if f[2] == "N" {
			v.nilList = true
			return v, f[3:], true
		}
		n, err := strconv.Atoi(f[2])
		if err != nil || len(f) < 3+n+1 {
			return c21Var{}, nil, false
		}
		v.list = []string{}
		for _, h := range f[3 : 3+n] {
			v.list = append(v.list, unhx(h))
		}
		rest := f[3+n:]
		if rest[0] == "D" {
			return v, rest[1:], true
		}
		if rest[0] != "S" || len(rest) < 2 {
			return c21Var{}, nil, false
		}
		k, err := strconv.Atoi(rest[1])
		if err != nil || len(rest) < 2+k {
			return c21Var{}, nil, false
		}
		v.idx = []int{}
		for _, t := range rest[2 : 2+k] {
			x, _ := strconv.Atoi(t)
			v.idx = append(v.idx, x)
		}
		return v, rest[2+k:], true
	case "a":
		if len(f) < 3 {
			return c21Var{}, nil, false
		}
		n, err := strconv.Atoi(f[2])
		if err != nil || len(f) < 3+2*n {
			return c21Var{}, nil, false
		}
		v := c21Var{kind: 'a', flags: fl(f[1]), list: []string{}, keys: []string{}}
		for i := 0; i < n; i++ {
			v.keys = append(v.keys, unhx(f[3+2*i]))
			v.list = append(v.list, unhx(f[4+2*i]))
		}
		return v, f[3+2*n:], true
	}
	return c21Var{}, nil, false
}

func c21ParseWitness(f []string) (cs c21Case, ok bool) {
	defer func() {
		if recover() != nil {
			ok = false
		}
	}()
	if len(f) < 6 {
		return cs, false
	}
	cs.quoted = f[0] == "1"
	cs.nounset = f[1] == "1"
	if f[2] != "U" {
		cs.st.ifsSet, cs.st.ifs = true, unhx(f[2])
	}
	np, err := strconv.Atoi(f[3])
	if err != nil {
		return cs, false
	}
	f = f[4:]
	cs.st.params = []string{}
	for i := 0; i < np; i++ {
		cs.st.params = append(cs.st.params, unhx(f[i]))
	}
	f = f[np:]
	nv, err := strconv.Atoi(f[0])
	if err != nil {
		return cs, false
	}
	f = f[1:]
	cs.st.vars = map[string]c21Var{}
	for i := 0; i < nv; i++ {
		name := unhx(f[0])
		v, rest, ok := c21ParseVar(f[1:])
		if !ok {
			return cs, false
		}
		cs.st.names = append(cs.st.names, name)
		cs.st.vars[name] = v
		f = rest
	}
	if len(f) != 1 {
		return cs, false
	}
	cs.src = unhx(f[0])
	return cs, true
}

// ---------------------------------------------------------------------------------------------
// scripts for the shell oracle

func c21SQ(s string) string { return "'" + strings.ReplaceAll(s, "'", `'\''`) + "'" }

func (v c21Var) scriptDecl(name string) string {
	var s string
	switch v.kind {
	case 'u':
		return "unset " + name + "\n"
	case 's':
		s = name + "=" + c21SQ(v.str) + "\n"
	case 'i':
		var sb strings.Builder
		sb.WriteString(name + "=(")
		for i, e := range v.list {
			if i > 0 {
				sb.WriteByte(' ')
			}
			if v.idx != nil {
				sb.WriteString("[" + strconv.Itoa(v.idx[i]) + "]=")
			}
			sb.WriteString(c21SQ(e))
		}
		sb.WriteString(")\n")
		s = sb.String()
	case 'a':
		var sb strings.Builder
		sb.WriteString("declare -A " + name + "=(")
		for i, k := range v.keys {
			if i > 0 {
				sb.WriteByte(' ')
			}
			sb.WriteString("[" + k + "]=" + c21SQ(v.list[i]))
		}
		sb.WriteString(")\n")
		s = sb.String()
	}
	if strings.Contains(v.flags, "x") {
		s += "export " + name + "\n"
	}
	if strings.Contains(v.flags, "r") {
		s += "readonly " + name + "\n"
	}
	return s
}

const c21Prelude = "set -f\np() { printf '%d' \"$#\"; printf '<%s>' \"$@\"; echo; }\n"

func (cs c21Case) script(d *c21PE) string {
	var sb strings.Builder
	sb.WriteString(c21Prelude)
	for _, n := range cs.st.names {
		sb.WriteString(cs.st.vars[n].scriptDecl(n))
	}
	sb.WriteString("set --")
	for _, p := range cs.st.params {
		sb.WriteString(" " + c21SQ(p))
	}
	sb.WriteString("\n")
	if cs.nounset {
		sb.WriteString("set -u\n")
	}
	if cs.st.ifsSet {
		sb.WriteString("IFS=" + c21SQ(cs.st.ifs) + "\n")
	} else {
		sb.WriteString("unset IFS\n")
	}
	word := cs.src
	if cs.quoted {
		word = `"` + cs.src + `"`
	}
	if d != nil && d.kind == 'X' && d.op == "@" && d.arg == "Q" {
		// the documented @Q difference (strings that need no quoting stay unquoted) is normalised by
		// evaluating the quoted text back, in assignment context
		sb.WriteString("q=" + word + "\nunset IFS\neval \"p $q\"\n")
	} else {
		sb.WriteString("p " + word + "\n")
	}
	if d != nil && c21IsAssign(d) {
		sb.WriteString("unset IFS\np \"${" + d.name + "-U}\"\n")
		if k := cs.st.vars[d.name].kind; k == 'i' || k == 'u' {
			sb.WriteString("p \"${" + d.name + "[@]}\"\n")
		}
	}
	return sb.String()
}

func c21Bash(c *Ctx, script string) (ShellResult, bool) {
	var bs ShellResult
	for try := 0; try < 3; try++ {
		bs = runShell(c, "bash", script)
		if bs.Err == "" && !bs.TimedOut && bs.Status != 126 && bs.Status != -1 {
			return bs, true
		}
		time.Sleep(time.Duration(50*(try+1)) * time.Millisecond)
	}
	return bs, false
}

// c21Normalise makes the outputs comparable where bash's order is a hash order.
func c21Normalise(cs c21Case, d *c21PE, out string) string {
	if d == nil || cs.st.vars[d.name].kind != 'a' || (d.idxKind != '@' && d.idxKind != '*') || c21IsAssign(d) {
		return out
	}
	l := strings.TrimSuffix(out, "\n")
	i := strings.IndexByte(l, '<')
	if i < 0 || !strings.HasSuffix(l, ">") {
		return out
	}
	fs := strings.Split(l[i+1:len(l)-1], "><")
	sort.Strings(fs)
	return l[:i] + "<" + strings.Join(fs, "><") + ">\n"
}

// ---------------------------------------------------------------------------------------------
// multi-step programs: an assigning expansion runs in a child context (or in the parent, and a child
// looks), then the parent's state is expanded

var c21ProgCtx = []string{"sub", "cmdsub", "pipe", "procsub", "parent"}

func (cs c21Case) progDump() string {
	switch cs.st.vars["x"].kind {
	case 'i':
		return "p \"${x[@]}\"; p \"${!x[@]}\"; p \"${x[1]:-d}\" \"${#x[1]}\" \"${x[*]}\" \"${x-U}\"\n"
	case 'a':
		return "p \"${x[k]-U}\" \"${x[0]-U}\" \"${x[a]-U}\" \"${x[zz]-U}\" \"${#x[@]}\"\n"
	}
	return "p \"${x-U}\"; p \"${x[@]}\"\n"
}

func (cs c21Case) progScript(ctx string) string {
	var sb strings.Builder
	sb.WriteString(c21Prelude)
	for _, n := range cs.st.names {
		sb.WriteString(cs.st.vars[n].scriptDecl(n))
	}
	word := `"` + cs.src + `"`
	dump := cs.progDump()
	switch ctx {
	case "sub":
		sb.WriteString("( : " + word + " )\n")
	case "cmdsub":
		sb.WriteString(": \"$( : " + word + " )\"\n")
	case "pipe":
		sb.WriteString(": " + word + " | :\n")
	case "procsub":
		sb.WriteString(": <( : " + word + " )\n")
	case "parent":
		sb.WriteString(": " + word + "\n( " + strings.TrimSuffix(dump, "\n") + " )\n")
	}
	sb.WriteString(dump)
	sb.WriteString(": " + word + "\n")
	sb.WriteString(dump)
	return sb.String()
}

func c21ProgSearch(c *Ctx, cs c21Case, ctx string) c21ShRes {
	script := cs.progScript(ctx)
	run := func() (ShellResult, ShellResult, string) {
		bs, ok := c21Bash(c, script)
		if !ok {
			return bs, ShellResult{}, "oracle-unavailable"
		}
		in := runInterp(c, syntax.LangBash, script)
		if in.TimedOut {
			in = runInterp(c, syntax.LangBash, script)
			if in.TimedOut {
				return bs, in, "interp-timeout"
			}
		}
		return bs, in, ""
	}
	differ := func(bs, in ShellResult) bool {
		return in.Panic != "" || (bs.Status != 0) != (in.Status != 0 || in.Err != "") || in.Stdout != bs.Stdout
	}
	bs, in, skip := run()
	if skip == "" && differ(bs, in) {
		bs, in, skip = run()
	}
	if skip != "" {
		return c21ShRes{skipped: skip}
	}
	if !differ(bs, in) {
		return c21ShRes{}
	}
	return c21ShRes{fail: true, what: fmt.Sprintf("program (%s):\n%s interp gives %q status=%d %s%s, bash gives %q status=%d",
		ctx, strings.TrimPrefix(script, c21Prelude), in.Stdout, in.Status, in.Err, in.Panic, bs.Stdout, bs.Status)}
}

type c21ShRes struct {
	skipped string
	fail    bool
	what    string
}

func c21Search(c *Ctx, cs c21Case) c21ShRes {
	_, d, perr := c21Parse(cs.src, cs.quoted, &cs.st)
	script := cs.script(d)
	run := func() (ShellResult, ShellResult, string) {
		bs, ok := c21Bash(c, script)
		if !ok {
			return bs, ShellResult{}, "oracle-unavailable"
		}
		in := runInterp(c, syntax.LangBash, script)
		if in.TimedOut {
			in = runInterp(c, syntax.LangBash, script)
			if in.TimedOut {
				return bs, in, "interp-timeout"
			}
		}
		return bs, in, ""
	}
	differ := func(bs, in ShellResult) bool {
		if in.Panic != "" {
			return true
		}
		bfail := bs.Status != 0
		ifail := in.Status != 0 || in.Err != ""
		return bfail != ifail || c21Normalise(cs, d, in.Stdout) != c21Normalise(cs, d, bs.Stdout)
	}
	bs, in, skip := run()
	if skip != "" {
		return c21ShRes{skipped: skip}
	}
	if strings.ContainsAny(bs.Stdout, "\x01\x7f") {
		// bash 5.2 leaks its internal CTLESC/CTLNUL quoting bytes in some expansions with an empty IFS
		return c21ShRes{skipped: "bash-ctlesc-artifact"}
	}
	if differ(bs, in) {
		// once more, alone in time: never report a load-induced flake
		bs, in, skip = run()
		if skip != "" {
			return c21ShRes{skipped: skip}
		}
	}
	if !differ(bs, in) {
		return c21ShRes{}
	}
	what := fmt.Sprintf("%s: interp gives %q status=%d %s%s, bash gives %q status=%d", c21Describe(cs), in.Stdout, in.Status, in.Err, in.Panic, bs.Stdout, bs.Status)
	if perr != "" {
		what += " (" + perr + ")"
	}
	return c21ShRes{fail: true, what: what}
}

func c21Describe(cs c21Case) string {
	var sb strings.Builder
	for _, n := range cs.st.names {
		sb.WriteString(strings.TrimSuffix(strings.ReplaceAll(cs.st.vars[n].scriptDecl(n), "\n", "; "), " "))
		sb.WriteByte(' ')
	}
	if len(cs.st.params) > 0 {
		sb.WriteString("set --")
		for _, p := range cs.st.params {
			sb.WriteString(" " + c21SQ(p))
		}
		sb.WriteString("; ")
	}
	if cs.st.ifsSet {
		if cs.st.ifs != " \t\n" {
			sb.WriteString("IFS=" + strconv.Quote(cs.st.ifs) + "; ")
		}
	} else {
		sb.WriteString("unset IFS; ")
	}
	if cs.nounset {
		sb.WriteString("set -u; ")
	}
	w := cs.src
	if cs.quoted {
		w = `"` + w + `"`
	}
	sb.WriteString("printf '<%s>' " + w)
	return sb.String()
}

// ---------------------------------------------------------------------------------------------
// generators

var c21ValAlpha = []string{"a", "b", "a", "b", "A", "B", "é", "É", " ", " ", ":", "*", "?", "[", "]", "\\", "/", ".", "-", "!", "^", "\t", "\n", "x", "ǅ", "#", "%"}
var c21ValPlain = []string{"a", "b", "A", "B", "a", "b", "é", "x"}
var c21PatAlpha = []string{"*", "?", "[", "]", "!", "^", "-", "\\", "/", ".", "a", "b", "A", "a", "b", "*", "?"}
var c21IfsChoices = []string{" \t\n", " \t\n", " ", "", ":", ": ", "b", "é:", "\n", " b"}

func c21GenValue(r *Rand) string {
	switch r.Intn(10) {
	case 0:
		return ""
	case 1, 2, 3:
		return genFrom(r, c21ValPlain, 6)
	case 4:
		return r.Pick([]string{"abcabc", "a b", " a  b ", "a:b", "*", "a*b", "héllo", "ab/ab/ab", "A.b", "[a]", "a\nb", "x y z", "aaa", "Ab", "éa"})
	}
	return genFrom(r, c21ValAlpha, 8)
}

func c21GenList(r *Rand, max int) []string {
	n := r.Intn(max + 1)
	l := make([]string, n)
	for i := range l {
		l[i] = c21GenValue(r)
	}
	return l
}

func c21GenVar(r *Rand, kinds string) c21Var {
	switch kinds[r.Intn(len(kinds))] {
	case 's':
		return c21Var{kind: 's', str: c21GenValue(r)}
	case 'e':
		return c21Var{kind: 's', str: ""}
	case 'i':
		return c21Var{kind: 'i', list: c21GenList(r, 4)}
	case 'S': // sparse
		l := c21GenList(r, 4)
		idx := make([]int, len(l))
		k := 0
		for i := range idx {
			k += r.Intn(3)
			idx[i] = k
			k++
		}
		dense := true
		for i, x := range idx {
			if x != i {
				dense = false
			}
		}
		if dense {
			return c21Var{kind: 'i', list: l}
		}
		return c21Var{kind: 'i', list: l, idx: idx}
	case 'a':
		n := r.Intn(4)
		keys := []string{"k", "k2", "0", "1", "a"}
		for i := len(keys) - 1; i > 0; i-- {
			j := r.Intn(i + 1)
			keys[i], keys[j] = keys[j], keys[i]
		}
		v := c21Var{kind: 'a', keys: []string{}, list: []string{}}
		for i := 0; i < n; i++ {
			v.keys = append(v.keys, keys[i])
			v.list = append(v.list, c21GenValue(r))
		}
		return v
	}
	return c21Var{kind: 'u'}
}

func c21GenState(r *Rand) c21State {
	st := c21State{vars: map[string]c21Var{}}
	switch r.Intn(10) {
	case 0:
		// IFS unset
	case 1, 2, 3, 4:
		st.ifsSet, st.ifs = true, " \t\n"
	default:
		st.ifsSet, st.ifs = true, r.Pick(c21IfsChoices)
	}
	st.params = c21GenList(r, 3)
	st.names = []string{"x", "y", "r", "xa", "w"}
	// w: a value to be used as replacement text — what a regexp template or bash's patsub_replacement
	// would read specially must come out verbatim ('&' from a quoted expansion)
	st.vars["w"] = c21Var{kind: 's', str: r.Pick(c21ReplTexts)}
	st.vars["x"] = c21GenVar(r, "usseiiSSaa")
	st.vars["y"] = c21GenVar(r, "uss")
	switch r.Intn(8) {
	case 0:
		st.vars["r"] = c21Var{kind: 'u'}
	case 1:
		st.vars["r"] = c21Var{kind: 's', str: ""}
	case 2, 3:
		st.vars["r"] = c21Var{kind: 's', str: "y"}
	case 4:
		st.vars["r"] = c21Var{kind: 's', str: "zz"}
	default:
		st.vars["r"] = c21Var{kind: 's', str: "x"}
	}
	st.vars["xa"] = c21GenVar(r, "us")
	return st
}

func c21GenPat(r *Rand) string {
	switch r.Intn(12) {
	case 0:
		return ""
	case 1:
		return r.Pick([]string{"*", "?", "a*", "*b", "[ab]", "[!a]", "a", "b", "ab", "??", "*a*", "[a-b]", "[^a]*", "\\*", "[]a]", "?*", "[A-\\.]"})
	case 2:
		return genFrom(r, []string{"a", "b", "A"}, 3)
	}
	s := genFrom(r, c21PatAlpha, 5)
	// a trailing backslash would escape the closing brace
	for strings.HasSuffix(s, "\\") {
		s += "a"
	}
	return s
}

// values with the characters that the literal part of a star pattern may have to match verbatim
var c21StarVals = []string{"a*b*c", "C:\\dir\\file.txt", "a.b.c", "what?no", "a b c", "x[1]y[2]", "a]b]c", "a\\b\\c", "*.*.*", "?a?b", "a. b. c", " a  b ", "[a][b]", "a*?b*?c"}

// c21GenStarLit draws a removal pattern made of one star next to (or inside) a literal whose special
// characters are escaped or quoted: as source text (src) and as removePattern receives it (pat, after
// expand.Pattern: quoted characters escaped with a backslash).
func c21GenStarLit(r *Rand) (src, pat string) {
	specials := []string{"*", "?", "[", "]", "\\", ".", " ", "*", "?", "\\", "."}
	plain := []string{"a", "b", "c", "/", ":"}
	n := 1 + r.Intn(3)
	var lsrc, lpat strings.Builder
	piece := func() {
		if r.Chance(70) {
			c := r.Pick(specials)
			esc := c == "*" || c == "?" || c == "[" || c == "\\" // what pattern.QuoteMeta escapes
			switch r.Intn(3) {
			case 0: // backslash escape
				lsrc.WriteString("\\" + c)
				lpat.WriteString("\\" + c)
			case 1: // double quotes (a backslash inside them is written twice)
				if c == "\\" {
					lsrc.WriteString("\"\\\\\"")
				} else {
					lsrc.WriteString("\"" + c + "\"")
				}
				if esc {
					lpat.WriteString("\\")
				}
				lpat.WriteString(c)
			default: // single quotes
				lsrc.WriteString("'" + c + "'")
				if esc {
					lpat.WriteString("\\")
				}
				lpat.WriteString(c)
			}
		} else {
			c := r.Pick(plain)
			lsrc.WriteString(c)
			lpat.WriteString(c)
		}
	}
	var a, b, ap, bp string
	for i := 0; i < n; i++ {
		piece()
	}
	a, ap = lsrc.String(), lpat.String()
	lsrc.Reset()
	lpat.Reset()
	switch r.Intn(4) {
	case 0:
		return "*" + a, "*" + ap
	case 1:
		return a + "*", ap + "*"
	case 2:
		piece()
		b, bp = lsrc.String(), lpat.String()
		return a + "*" + b, ap + "*" + bp
	}
	return "*" + a + "*", "*" + ap + "*"
}

// c21PatSrc writes a pattern as source text; slashEsc: inside ${x/…/…} an unescaped slash ends the pattern.
func c21PatSrc(r *Rand, pat string, slashEsc bool, allowQuote bool) string {
	var sb strings.Builder
	rs := []rune(pat)
	for i := 0; i < len(rs); i++ {
		c := rs[i]
		switch {
		case c == '\\' && i+1 < len(rs):
			sb.WriteRune(c)
			i++
			sb.WriteRune(rs[i])
		case c == '/' && slashEsc:
			sb.WriteString("\\/")
		case allowQuote && !strings.Contains(pat, "[") && strings.ContainsRune("*?abA.", c) && r.Chance(8):
			sb.WriteString(`"` + string(c) + `"`)
		default:
			sb.WriteRune(c)
		}
	}
	return sb.String()
}

var c21ReplTexts = []string{"$1", "US$5", "${n}", "$$", "$name", "$1$", "$", "\\1", "\\", "a\\b", "&", "\\&", "[&]", "$0x", "${1}b", "X"}

// c21GenWith draws the source of a replacement word: literals, quoted text and variable values.
func c21GenWith(r *Rand) string {
	switch r.Intn(10) {
	case 0, 1, 2:
		return r.Pick([]string{"X", "", "XY", "*", "a", "é"})
	case 3:
		return r.Pick([]string{"$w", "${w}", "\"$w\"", "$w$w", "<$w>", "$1", "\"$1\""})
	case 4:
		return "$w"
	case 5:
		return "'" + r.Pick(c21ReplTexts) + "'"
	case 6:
		return r.Pick([]string{"&", "[&]", "&&", "\\&", "\"&\"", "'&'", "a&b"})
	case 7:
		return r.Pick([]string{"\\\\", "a\\b", "\\$1", "\\$w"})
	}
	return r.Pick([]string{"X", "$w", "'$1'", "\"$w\""})
}

var c21CasePats = []string{"ab", "a*", "??", "[ab]c", "*b", "bc", "a?", "?*", "abc", "b*", "[ab][bc]", "AB", "A*", "[AB]C", "*B", "é?", "a\\*", "\"a\"*", "**", "?"}

// values in which such patterns match substrings
var c21CaseVals = []string{"abcabc", "abab", "aabc", "ABCABC", "ABAB", "bcbc", "abc", "AbcAbc", "éabéab", "a*a*", "cab cab"}

var c21Words = []string{"w", "", "ab", "a:b", "W w", "*", "A", "é", "a b"}

// c21GenForm draws the `${…}` source text for the state.
func c21GenForm(r *Rand, st c21State) string {
	// the parameter
	name := "x"
	switch r.Intn(12) {
	case 0, 1:
		name = "@"
	case 2:
		name = "*"
	case 3:
		name = "y"
	case 4:
		name = r.Pick([]string{"1", "2", "#", "xa", "r"})
	}
	index := ""
	if name == "x" || name == "y" {
		switch r.Intn(10) {
		case 0, 1, 2:
			index = "@"
		case 3, 4:
			index = "*"
		case 5:
			index = r.Pick([]string{"0", "1", "2", "5", "-1", "-2", "-9"})
		case 6:
			index = r.Pick([]string{"k", "k2", "0", "1", "a", "zz"})
		}
	}
	param := name
	if index != "" {
		param += "[" + index + "]"
	}
	switch r.Intn(20) {
	case 0:
		return "${" + param + "}"
	case 1:
		return "${#" + param + "}"
	case 2:
		// indirection and name listing
		switch r.Intn(6) {
		case 0:
			return "${!" + r.Pick([]string{"x", "xa", "zz", "y"}) + r.Pick([]string{"*", "@"}) + "}"
		case 1:
			return "${!" + param + "}"
		case 2:
			return "${!x[" + r.Pick([]string{"@", "*"}) + "]}"
		case 3:
			return "${!r" + r.Pick([]string{":1", "#?", "/a/X", "^^", ":-w", "@U", ":+w"}) + "}"
		default:
			return "${!" + r.Pick([]string{"r", "r", "r", "y", "xa", "1", "#", "@"}) + "}"
		}
	case 3, 4, 5:
		off := r.Pick([]string{"0", "1", "2", "3", "9", " -1", " -2", " -9", "(-1)", ""})
		s := "${" + param + ":" + off
		if r.Chance(50) {
			s += ":" + r.Pick([]string{"0", "1", "2", "9", "-1", "-2", "-9", " -1"})
		}
		return s + "}"
	case 6, 7, 8:
		pat := c21GenPat(r)
		src := c21PatSrc(r, pat, true, true)
		if r.Chance(8) {
			src = r.Pick([]string{"#", "%"}) + src
		}
		sep := "/"
		if r.Chance(50) {
			sep = "//"
		}
		s := "${" + param + sep + src
		if r.Chance(85) {
			s += "/" + c21GenWith(r)
		}
		return s + "}"
	case 9, 10, 11:
		op := r.Pick([]string{"#", "##", "%", "%%"})
		if r.Chance(40) {
			src, _ := c21GenStarLit(r)
			return "${" + param + op + src + "}"
		}
		return "${" + param + op + c21PatSrc(r, c21GenPat(r), false, true) + "}"
	case 12, 13:
		op := r.Pick([]string{"^", "^^", ",", ",,"})
		pat := ""
		switch r.Intn(10) {
		case 0, 1, 2:
			pat = r.Pick([]string{"?", "*", "[ab]", "a", "[!a]", "[A-Z]", "é", "[a-b]", "[[:alpha:]]", "A", "É"})
		case 3, 4, 5, 6:
			// patterns of more than one character: each character is tested on its own, so a
			// pattern that needs two characters converts nothing and `a*` converts the a's only
			pat = r.Pick(c21CasePats)
		}
		return "${" + param + op + pat + "}"
	case 14:
		return "${" + param + "@" + r.Pick([]string{"Q", "U", "L", "u", "a", "U", "L", "u", "A", "P", "K"}) + "}"
	}
	op := r.Pick([]string{":-", "-", ":=", "=", ":?", "?", ":+", "+"})
	return "${" + param + op + r.Pick(c21Words) + "}"
}

func c21LitWord(s string) *syntax.Word {
	return &syntax.Word{Parts: []syntax.WordPart{&syntax.Lit{Value: s}}}
}

// c21GenAst: the malformed stream — ParamExp nodes no parser produces (flag combinations such as
// Length with an operator, Excl with Names and an index) over variables whose representation breaks
// the invariants (Indexes longer/shorter than List or unsorted, nil lists).
func c21GenAst(r *Rand) c21Case {
	st := c21GenState(r)
	if r.Chance(50) {
		l := c21GenList(r, 3)
		n := r.Intn(4)
		idx := make([]int, n)
		for i := range idx {
			idx[i] = r.Intn(6)
		}
		st.vars["x"] = c21Var{kind: 'i', list: l, idx: idx}
		if r.Chance(15) {
			st.vars["x"] = c21Var{kind: 'i', nilList: true}
		}
	}
	pe := &syntax.ParamExp{Param: &syntax.Lit{Value: r.Pick([]string{"x", "x", "x", "y", "@", "*", "r", "1"})}}
	switch r.Intn(6) {
	case 0, 1:
		pe.Index = c21LitWord(r.Pick([]string{"@", "*"}))
	case 2:
		pe.Index = c21LitWord(r.Pick([]string{"0", "1", "2", "5", "k", "a"}))
	case 3:
		pe.Index = &syntax.UnaryArithm{Op: syntax.Minus, X: c21LitWord(r.Pick([]string{"1", "2", "9"}))}
	}
	pe.Excl = r.Chance(25)
	pe.Length = r.Chance(20)
	if r.Chance(10) {
		pe.Names = syntax.NamesPrefix
		if r.Bool() {
			pe.Names = syntax.NamesPrefixWords
		}
	}
	switch r.Intn(5) {
	case 0:
		pe.Slice = &syntax.Slice{}
		if r.Chance(80) {
			n := r.Intn(7) - 3
			if n < 0 {
				pe.Slice.Offset = &syntax.UnaryArithm{Op: syntax.Minus, X: c21LitWord(strconv.Itoa(-n))}
			} else {
				pe.Slice.Offset = c21LitWord(strconv.Itoa(n))
			}
		}
		if r.Chance(50) {
			n := r.Intn(7) - 3
			if n < 0 {
				pe.Slice.Length = &syntax.UnaryArithm{Op: syntax.Minus, X: c21LitWord(strconv.Itoa(-n))}
			} else {
				pe.Slice.Length = c21LitWord(strconv.Itoa(n))
			}
		}
	case 1:
		pe.Repl = &syntax.Replace{All: r.Bool(), Orig: c21LitWord(c21GenPat(r)), With: c21LitWord(r.Pick([]string{"X", "", "XY"}))}
		if pe.Repl.Orig.Parts[0].(*syntax.Lit).Value == "" {
			pe.Repl.Orig = nil
		}
	case 2, 3:
		ops := []syntax.ParExpOperator{syntax.AlternateUnset, syntax.AlternateUnsetOrNull, syntax.DefaultUnset, syntax.DefaultUnsetOrNull,
			syntax.ErrorUnset, syntax.ErrorUnsetOrNull, syntax.AssignUnset, syntax.AssignUnsetOrNull,
			syntax.RemSmallPrefix, syntax.RemLargePrefix, syntax.RemSmallSuffix, syntax.RemLargeSuffix,
			syntax.UpperFirst, syntax.UpperAll, syntax.LowerFirst, syntax.LowerAll, syntax.OtherParamOps}
		op := ops[r.Intn(len(ops))]
		arg := c21GenPat(r)
		if op == syntax.OtherParamOps {
			arg = r.Pick([]string{"Q", "U", "L", "u", "a", "A", "P", "K", "k"})
		}
		pe.Exp = &syntax.Expansion{Op: op, Word: c21LitWord(arg)}
	}
	return c21Case{st: st, quoted: r.Bool(), nounset: r.Chance(5), ast: pe}
}

func c21IsCaseSrc(src string) bool {
	i := strings.IndexAny(src, "^,")
	return i > 2 && !strings.ContainsAny(src[:i], "/#%:@-=?+")
}

// c21IsRemoveSrc: a # ## % %% form (not ${#x}) whose pattern has a backslash or a quote.
func c21IsRemoveSrc(src string) bool {
	i := strings.IndexAny(src[3:], "#%")
	if i < 0 {
		return false
	}
	i += 3
	return !strings.ContainsAny(src[:i], "/:@-=?+^,") && strings.ContainsAny(src[i:], "\\\"'")
}

// c21GenAssignCase: `=` / `:=` on scalars, array elements (set, null, missing, beyond the end, in holes
// of sparse arrays) and associative elements.
func c21GenAssignCase(r *Rand) c21Case {
	st := c21GenState(r)
	vals := []string{"", "", "v", "", "a b"}
	switch r.Intn(4) {
	case 0:
		st.vars["x"] = c21GenVar(r, "ues")
	case 1:
		n := 1 + r.Intn(4)
		l := make([]string, n)
		for i := range l {
			l[i] = r.Pick(vals)
		}
		st.vars["x"] = c21Var{kind: 'i', list: l}
	case 2:
		n := 1 + r.Intn(3)
		l := make([]string, n)
		idx := make([]int, n)
		k := r.Intn(2)
		for i := range l {
			l[i] = r.Pick(vals)
			idx[i] = k
			k += 1 + r.Intn(3)
		}
		v := c21Var{kind: 'i', list: l, idx: idx}
		dense := true
		for i, x := range idx {
			if x != i {
				dense = false
			}
		}
		if dense {
			v.idx = nil
		}
		st.vars["x"] = v
	default:
		v := c21Var{kind: 'a', keys: []string{}, list: []string{}}
		for _, k := range []string{"k", "0", "a"} {
			if r.Chance(60) {
				v.keys = append(v.keys, k)
				v.list = append(v.list, r.Pick(vals))
			}
		}
		st.vars["x"] = v
	}
	param := "x"
	switch st.vars["x"].kind {
	case 'i':
		if r.Chance(85) {
			param = "x[" + r.Pick([]string{"0", "1", "2", "3", "5", "-1"}) + "]"
		}
	case 'a':
		if r.Chance(85) {
			param = "x[" + r.Pick([]string{"k", "0", "a", "zz"}) + "]"
		}
	}
	op := r.Pick([]string{":=", ":=", "="})
	return c21Case{st: st, src: "${" + param + op + r.Pick([]string{"filled", "w", "a b", ""}) + "}", quoted: r.Chance(60)}
}

func c21GenCase(r *Rand) c21Case {
	if r.Chance(5) {
		return c21GenAssignCase(r)
	}
	st := c21GenState(r)
	src := c21GenForm(r, st)
	if len(src) > 4 && c21IsRemoveSrc(src) && r.Chance(65) {
		// removal with escaped/quoted literal parts: values that contain those characters
		pick := func() string { return r.Pick(c21StarVals) }
		v := st.vars["x"]
		switch v.kind {
		case 's':
			v.str = pick()
		case 'i', 'a':
			v.list = append([]string{}, v.list...)
			for i := range v.list {
				if r.Chance(70) {
					v.list[i] = pick()
				}
			}
		}
		st.vars["x"] = v
		st.params = append([]string{}, st.params...)
		for i := range st.params {
			if r.Chance(70) {
				st.params[i] = pick()
			}
		}
		if y := st.vars["y"]; y.kind == 's' {
			y.str = pick()
			st.vars["y"] = y
		}
	}
	if c21IsCaseSrc(src) && r.Chance(65) {
		// case conversion: values in which multi-character patterns match substrings, on the
		// scalar, the array elements and the positional parameters
		pick := func() string { return r.Pick(c21CaseVals) }
		v := st.vars["x"]
		switch v.kind {
		case 's':
			v.str = pick()
		case 'i', 'a':
			v.list = append([]string{}, v.list...)
			for i := range v.list {
				if r.Chance(70) {
					v.list[i] = pick()
				}
			}
		}
		st.vars["x"] = v
		st.params = append([]string{}, st.params...)
		for i := range st.params {
			if r.Chance(70) {
				st.params[i] = pick()
			}
		}
		if y := st.vars["y"]; y.kind == 's' {
			y.str = pick()
			st.vars["y"] = y
		}
	}
	return c21Case{st: st, src: src, quoted: r.Chance(50), nounset: r.Chance(4)}
}

// ---------------------------------------------------------------------------------------------
// tie: one case

func c21RunCase(c *Ctx, cs c21Case) (*c21PE, bool) {
	cs.st.argNoUnset = cs.nounset
	w, d, perr := c21Parse(cs.src, cs.quoted, &cs.st)
	if cs.ast != nil {
		d, perr = c21Decode(cs.ast, "", &cs.st)
		w = &syntax.Word{Parts: []syntax.WordPart{cs.ast}}
		if cs.quoted {
			w = &syntax.Word{Parts: []syntax.WordPart{&syntax.DblQuoted{Parts: []syntax.WordPart{cs.ast}}}}
		}
	}
	if perr != "" {
		c.Case("parse\x00"+cs.src, false, "skip:"+perr)
		return nil, false
	}
	q := "0"
	if cs.quoted {
		q = "1"
	}
	args := cs.opArgs(d)
	got := c21Run(cs, w, d, false)
	c.Op("fields "+q+" "+args, got)
	lit := c21Run(cs, w, d, true)
	c.Op("lit "+args, lit)
	tk, _ := c21Target(cs, d)
	tags := []string{"kind=" + string(d.kind), "var=" + string(tk)}
	if d.kind == 'X' {
		tags = append(tags, "op="+d.op)
	}
	if d.idxKind != '-' {
		tags = append(tags, "idx="+string(d.idxKind))
	}
	if cs.quoted {
		tags = append(tags, "quoted")
	}
	if d.excl {
		tags = append(tags, "excl")
	}
	switch {
	case got == "panic":
		tags = append(tags, "res=panic")
	case strings.HasPrefix(got, "err"):
		tags = append(tags, "res=err")
	}
	nontrivial := d.kind != 'N' || d.idxKind != '-' || d.excl || d.length
	if cs.ast != nil {
		tags = append(tags, "stream=ast")
		c.Case("a\x00"+cs.witness()+args, nontrivial, tags...)
		return d, true
	}
	c.Case("f\x00"+cs.witness(), nontrivial, tags...)
	return d, true
}

// ---------------------------------------------------------------------------------------------
// unit streams

func c21Bits(rx *regexp.Regexp, s string, prefixes bool) string {
	rs := []rune(s)
	var sb strings.Builder
	for k := 0; k <= len(rs); k++ {
		var u string
		if prefixes {
			u = string(rs[:k])
		} else {
			u = string(rs[k:])
		}
		if rx.MatchString(u) {
			sb.WriteByte('1')
		} else {
			sb.WriteByte('0')
		}
	}
	return sb.String()
}

func c21Remove(c *Ctx, s, pat string, fromEnd, shortest bool) {
	b := func(x bool) string {
		if x {
			return "1"
		}
		return "0"
	}
	var got string
	if p := safely(func() { got = hx(expand.VerifRemovePattern(s, pat, fromEnd, shortest)) }); p != "" {
		got = "panic"
	}
	c.Op("rm3 "+hx(s)+" "+hx(pat)+" "+b(fromEnd)+" "+b(shortest), got)
	expr, err := pattern.Regexp(pat, 0)
	status, pre, suf := "ok", "-", "-"
	if err != nil {
		status = "err"
	} else {
		rx, cerr := regexp.Compile("^(?:" + expr + ")$")
		if cerr != nil {
			return // MustCompile panics in removePattern: covered by rm3
		}
		pre, suf = c21Bits(rx, s, true), c21Bits(rx, s, false)
	}
	c.Op("rm "+hx(s)+" "+b(fromEnd)+" "+b(shortest)+" "+status+" "+pre+" "+suf, got)
	// the property's own reading (shortest/longest matching prefix/suffix)
	if got != "panic" && err == nil {
		c.Op("specrm "+hx(s)+" "+hx(pat)+" "+b(fromEnd)+" "+b(shortest), got)
	}
	c.Case("rm\x00"+s+"\x00"+pat+b(fromEnd)+b(shortest), got != hx(s), "unit=rm")
}

func c21LitOf(c *Ctx, src string, st c21State) (string, bool) {
	w, _, perr := c21Parse(src, true, &st)
	if perr != "" {
		return "", false
	}
	var out string
	ok := true
	p := safely(func() {
		s, err := expand.Literal(&expand.Config{Env: st.env()}, w)
		if err != nil {
			ok = false
			return
		}
		out = s
	})
	return out, ok && p == ""
}

func c21ScalarState(v string) c21State {
	return c21State{ifsSet: false, params: []string{}, names: []string{"x"}, vars: map[string]c21Var{"x": {kind: 's', str: v}}}
}

// c21Units: specification streams on scalars.
func c21Units(c *Ctx, r *Rand) {
	s := c21GenValue(r)
	st := c21ScalarState(s)
	switch r.Intn(4) {
	case 0: // substring
		offs := []string{"", "0", "1", "2", "5", "9", "-1", "-2", "-5", "-9"}
		lens := []string{"", "0", "1", "3", "9", "-1", "-2", "-9"}
		o, l := r.Pick(offs), r.Pick(lens)
		n := utf8.RuneCountInString(s)
		_ = n
		src := "${x:"
		if o != "" {
			src += "(" + o + ")"
		}
		if l != "" {
			src += ":(" + l + ")"
		}
		src += "}"
		w, _, perr := c21Parse(src, true, &st)
		if perr != "" {
			return
		}
		res := "?"
		if p := safely(func() {
			v, err := expand.Literal(&expand.Config{Env: st.env()}, w)
			switch {
			case err == nil:
				res = "ok " + hx(v)
			case strings.HasSuffix(err.Error(), ": substring expression < 0"):
				res = "error"
			default:
				res = c21ErrKind(err)
			}
		}); p != "" {
			res = "panic"
		}
		tok := func(x string) string {
			if x == "" {
				return "-"
			}
			return x
		}
		c.Op("specsub "+hx(s)+" "+tok(o)+" "+tok(l), res)
		c.Case("sub\x00"+s+o+":"+l, true, "unit=sub")
	case 1: // replace, unanchored
		pat := c21GenPat(r)
		if pat == "" || strings.HasPrefix(pat, "#") || strings.HasPrefix(pat, "%") {
			return
		}
		if _, err := pattern.Regexp(pat, 0); err != nil {
			return
		}
		with := r.Pick([]string{"X", "", "XY", "$1", "US$5", "${n}", "$$", "\\1", "&", "$name"})
		all := r.Chance(50)
		sep := "/"
		if all {
			sep = "//"
		}
		withSrc := with
		if strings.ContainsAny(with, "$\\&{") {
			withSrc = "'" + with + "'"
		}
		src := "${x" + sep + c21PatSrc(r, pat, true, false) + "/" + withSrc + "}"
		_, d, perr := c21Parse(src, true, &st)
		if perr != "" || d.kind != 'R' || d.orig != pat || d.with != with {
			return
		}
		got, ok := c21LitOf(c, src, st)
		if !ok {
			return
		}
		b := "0"
		if all {
			b = "1"
		}
		c.Op("specrepl n "+b+" "+hx(pat)+" "+hx(with)+" "+hx(s), hx(got))
		c.Case("repl\x00"+s+"\x00"+src, got != s, "unit=repl")
	case 2: // case conversion: per character, the pattern must match that single character
		op := r.Pick([]string{"^", "^^", ",", ",,"})
		pat := ""
		switch r.Intn(10) {
		case 0, 1, 2:
			pat = r.Pick([]string{"?", "*", "[ab]", "a", "[!a]", "[A-Z]", "é", "[a-b]", "A", "É", "[é]"})
		case 3, 4, 5, 6, 7:
			pat = r.Pick([]string{"ab", "a*", "??", "[ab]c", "*b", "bc", "a?", "?*", "abc", "b*", "[ab][bc]", "AB", "A*", "[AB]C", "*B", "é?", "**"})
			if r.Chance(70) {
				s = r.Pick(c21CaseVals)
				st = c21ScalarState(s)
			}
		}
		src := "${x" + op + pat + "}"
		got, ok := c21LitOf(c, src, st)
		if !ok {
			return
		}
		c.Op("speccase "+op+" "+hx(pat)+" "+hx(s), hx(got))
		c.Case("case\x00"+s+"\x00"+src, got != s, "unit=case")
	case 3:
		if r.Chance(50) {
			// one star next to / inside a literal with escaped special characters
			_, pat := c21GenStarLit(r)
			if r.Chance(75) {
				s = r.Pick(c21StarVals)
			}
			c21Remove(c, s, pat, r.Bool(), r.Bool())
			return
		}
		c21Remove(c, s, c21GenPat(r), r.Bool(), r.Bool())
	}
}

func c21CaseTab(c *Ctx, lo, hi int) {
	parts := make([]string, 0, hi-lo+1)
	for n := lo; n <= hi; n++ {
		parts = append(parts, strconv.Itoa(int(unicode.ToUpper(rune(n))))+":"+strconv.Itoa(int(unicode.ToLower(rune(n)))))
	}
	c.Op("casetab "+strconv.Itoa(lo)+" "+strconv.Itoa(hi), strings.Join(parts, " "))
}

// c21SpecTable: the eight forms × {unset, null, set} on a scalar, observed through expand.Literal.
func c21SpecTable(c *Ctx) {
	for _, op := range []string{":-", "-", ":=", "=", ":?", "?", ":+", "+"} {
		for _, stn := range []string{"unset", "null", "set"} {
			st := c21State{params: []string{}, names: []string{"x"}, vars: map[string]c21Var{}}
			switch stn {
			case "unset":
				st.vars["x"] = c21Var{kind: 'u'}
			case "null":
				st.vars["x"] = c21Var{kind: 's', str: ""}
			case "set":
				st.vars["x"] = c21Var{kind: 's', str: "v"}
			}
			w, _, perr := c21Parse("${x"+op+"w}", true, nil)
			if perr != "" {
				continue
			}
			env := st.env()
			outcome := "?"
			p := safely(func() {
				s, err := expand.Literal(&expand.Config{Env: env}, w)
				after := env.Get("x")
				assigned := after.Set && after.Str == "w" && stn != "set"
				switch {
				case err != nil:
					if _, ok := err.(expand.UnsetParameterError); ok {
						outcome = "error"
					}
				case assigned && s == "w":
					outcome = "assign"
				case s == "w":
					outcome = "word"
				case s == "v" && stn == "set":
					outcome = "param"
				case s == "":
					outcome = "null"
				}
			})
			if p != "" {
				outcome = "panic"
			}
			c.Op("spectab "+op+" "+stn, outcome)
		}
	}
}

// ---------------------------------------------------------------------------------------------

func c21(c *Ctx) {
	c.Rule = "states: IFS ∈ {unset, default, space, empty, ':', ': ', 'b', 'é:', newline, ' b'}; 0–3 positional parameters; x ∈ {unset, empty, string, dense/sparse indexed array, associative array}, " +
		"y, xa scalars/unset, r a reference name; values ≤ 8 runes over letters (incl. é É ǅ), IFS and glob characters; forms: plain, ${#…}, ${!…} (indirect, keys, prefix names), " +
		"${…:o:l} with negative values, ${…/p/r} ${…//p/r} (also #/% anchored), # ## % %%, ^ ^^ , ,,, @Q @U @L @u @a @A @P @K, the eight :- - := = :? ? :+ + forms; " +
		"parameters x, x[@], x[*], x[i], x[key], @, *, 1, #; each unquoted and in double quotes; patterns over * ? [ ] ! ^ - \\ / . a b A; non-trivial = any operator, subscript, ! or #"
	type shCase struct {
		cs      c21Case
		witness string
		ctx     string // "" = one expansion; else a multi-step program in that child context
	}
	var shCases []shCase
	c21CaseTab(c, 0, 255)
	c21CaseTab(c, 452, 454)
	c21SpecTable(c)
	for _, l := range c.CorpusLines() {
		f := strings.Fields(l)
		if len(f) < 2 {
			continue
		}
		switch f[0] {
		case "sh":
			if cs, ok := c21ParseWitness(f[1:]); ok {
				shCases = append(shCases, shCase{cs, l, ""})
				c21RunCase(c, cs)
			}
		case "f":
			if cs, ok := c21ParseWitness(f[1:]); ok {
				c21RunCase(c, cs)
			}
		case "pg":
			if len(f) > 3 {
				if cs, ok := c21ParseWitness(f[2:]); ok {
					shCases = append(shCases, shCase{cs, l, f[1]})
					c21RunCase(c, cs)
				}
			}
		case "rm":
			if len(f) == 5 {
				c21Remove(c, unhx(f[1]), unhx(f[2]), f[3] == "1", f[4] == "1")
			}
		}
	}
	for i := 0; i < c.N; i++ {
		if i%3 == 2 {
			c21Units(c, c.R)
			continue
		}
		if i%10 == 4 {
			c21RunCase(c, c21GenAst(c.R))
			continue
		}
		c21RunCase(c, c21GenCase(c.R))
	}
	nsh := c21NSh
	if c.Thorough() {
		nsh = 16000 / max(1, c.Shards)
	}
	if c.N == 0 {
		nsh = 0
	}
	rs := c.R.Fork("search")
	for i := 0; i < nsh; i++ {
		var cs c21Case
		ok := false
		for try := 0; try < 50 && !ok; try++ {
			cs = c21GenCase(rs)
			cs.nounset = false
			_, d, perr := c21Parse(cs.src, cs.quoted, &cs.st)
			if perr != "" {
				continue
			}
			if why := c21Excluded(cs, d); why != "" {
				c.Hist["search-excluded:"+why]++
				continue
			}
			ok = true
		}
		if ok {
			shCases = append(shCases, shCase{cs, "sh " + cs.witness(), ""})
		}
	}
	// multi-step programs with an assigning expansion in a child context
	npg := nsh / 6
	rp := c.R.Fork("prog")
	for i := 0; i < npg; i++ {
		for try := 0; try < 30; try++ {
			cs := c21GenAssignCase(rp)
			cs.quoted = true
			_, d, perr := c21Parse(cs.src, true, &cs.st)
			if perr != "" || c21Excluded(cs, d) != "" {
				continue
			}
			ctx := rp.Pick(c21ProgCtx)
			shCases = append(shCases, shCase{cs, "pg " + ctx + " " + cs.witness(), ctx})
			break
		}
	}
	workers := 4
	if c.Thorough() {
		workers = 2
	}
	results := parallelMap(len(shCases), workers, func(i int) c21ShRes {
		if shCases[i].ctx != "" {
			return c21ProgSearch(c, shCases[i].cs, shCases[i].ctx)
		}
		return c21Search(c, shCases[i].cs)
	})
	for i, sc := range shCases {
		r := results[i]
		if r.skipped != "" {
			c.Case("sh\x00"+sc.witness, false, r.skipped)
			continue
		}
		if sc.ctx != "" {
			c.Case("pg\x00"+sc.witness, true, "bash-compared", "program", "ctx="+sc.ctx)
		} else {
			c.Case("sh\x00"+sc.witness, true, "bash-compared")
		}
		if r.fail {
			c.Fail(sc.witness, r.what)
		}
	}
}

// ---------------------------------------------------------------------------------------------
// exclusions of the search leg: the regions of the recorded findings (known-findings.jsonl) and the
// regions that belong to other properties or to documented differences

// c21Target classifies the parameter: 's' set scalar, 'u' unset, 'i' indexed array, 'a' associative
// array, 'p' the positional list; elems are the list elements (the one value for a scalar).
func c21Target(cs c21Case, d *c21PE) (byte, []string) {
	switch d.name {
	case "@", "*":
		return 'p', cs.st.params
	case "#":
		return 's', []string{strconv.Itoa(len(cs.st.params))}
	}
	if n, err := strconv.Atoi(d.name); err == nil {
		if n >= 1 && n <= len(cs.st.params) {
			return 's', []string{cs.st.params[n-1]}
		}
		if n == 0 {
			return 's', []string{"sh"}
		}
		return 'u', nil
	}
	v, ok := cs.st.vars[d.name]
	if !ok {
		return 'u', nil
	}
	switch v.kind {
	case 's':
		return 's', []string{v.str}
	case 'i', 'a':
		return v.kind, v.list
	}
	return 'u', nil
}

// c21ElemValue: the value a scalar-context reference (`$x`, `${x[i]}`, `${x[key]}`) denotes.
func c21ElemValue(cs c21Case, d *c21PE) (string, bool) {
	kind, elems := c21Target(cs, d)
	switch kind {
	case 's':
		if d.idxKind == 'w' || d.idxKind == 'e' {
			if n, err := strconv.Atoi(d.idxText); err == nil && n != 0 && n != -1 {
				return "", false
			}
		}
		return elems[0], true
	case 'i', 'a':
		v := cs.st.vars[d.name]
		key := "0"
		if d.idxKind == 'w' || d.idxKind == 'e' {
			key = d.idxText
		}
		if kind == 'a' {
			for i, k := range v.keys {
				if k == key {
					return v.list[i], true
				}
			}
			return "", false
		}
		n, err := strconv.Atoi(key)
		if err != nil {
			n = 0
		}
		maxIdx := len(v.list) - 1
		if len(v.idx) > 0 {
			maxIdx = v.idx[len(v.idx)-1]
		}
		if n < 0 {
			n += maxIdx + 1
		}
		for i := range v.list {
			k := i
			if v.idx != nil {
				k = v.idx[i]
			}
			if k == n {
				return v.list[i], true
			}
		}
	}
	return "", false
}

var c21BracketOK = []string{"[ab]", "[!a]", "[a-b]", "[^a]", "[]a]", "[A-Z]", "[[:alpha:]]", "[é]", "[^a]"}

// c21PatternClean: the pattern stays clear of what property C17 records about bracket expressions.
func c21PatternClean(pat string) bool {
	// escaped characters are literals
	var sb strings.Builder
	for i := 0; i < len(pat); i++ {
		if pat[i] == '\\' && i+1 < len(pat) {
			i++
			continue
		}
		sb.WriteByte(pat[i])
	}
	pat = sb.String()
	for _, b := range c21BracketOK {
		pat = strings.ReplaceAll(pat, b, "")
	}
	if i := strings.IndexByte(pat, '['); i >= 0 && strings.Contains(pat[i:], "]") {
		return false
	}
	return true
}

func c21IsTestOp(op string) bool {
	switch op {
	case ":-", "-", ":=", "=", ":?", "?", ":+", "+":
		return true
	}
	return false
}

func c21ValidName(s string) bool {
	if s == "" {
		return false
	}
	for i, r := range s {
		if !(r == '_' || r >= 'a' && r <= 'z' || r >= 'A' && r <= 'Z' || i > 0 && r >= '0' && r <= '9') {
			return false
		}
	}
	return true
}

// c21Excluded names the reason a case is kept out of the bash comparison ("" = compared).
// Reasons starting with "C21-" are the ids of recorded findings; the others are domains of other
// properties or documented differences.
func c21Excluded(cs c21Case, d *c21PE) string {
	kind, elems := c21Target(cs, d)
	isList := d.name == "@" || d.name == "*" || d.idxKind == '@' || d.idxKind == '*'
	listVar := kind == 'i' || kind == 'a' || kind == 'p'
	testOp := d.kind == 'X' && c21IsTestOp(d.op)
	assign := d.kind == 'X' && (d.op == "=" || d.op == ":=")
	remove := d.kind == 'X' && (d.op == "#" || d.op == "##" || d.op == "%" || d.op == "%%")
	caseOp := d.kind == 'X' && (d.op == "^" || d.op == "^^" || d.op == "," || d.op == ",,")
	ifs := " \t\n"
	if cs.st.ifsSet {
		ifs = cs.st.ifs
	}
	ifsNonWs := strings.Trim(ifs, " \t\n") != ""

	// --- documented differences and other properties' domains
	if d.kind == 'X' && d.op == "@" {
		switch d.arg {
		case "A", "K", "k", "P", "E":
			return "transform-not-compared" // @K @k @P are TODOs in param.go, @A embeds the @Q difference, @E is not modelled
		case "a":
			if d.name == "@" || d.name == "*" || d.idxKind == '@' || d.idxKind == '*' {
				return "transform-not-compared" // "${s[@]@a}" of a scalar without attributes is no field at all in bash
			}
		}
	}
	if d.idxKind == 'e' && kind == 'i' {
		// out-of-range negative subscript: interp stops with an error (documented #JUSTERR)
		v := cs.st.vars[d.name]
		maxIdx := len(v.list) - 1
		if v.idx != nil && len(v.idx) > 0 {
			maxIdx = v.idx[len(v.idx)-1]
		}
		n, _ := strconv.Atoi(d.idxText)
		if n+maxIdx+1 < 0 {
			return "negative-subscript-out-of-range"
		}
	}
	if (d.name == "@" || d.name == "*") && d.kind == 'S' && (!d.hasOff || d.off == 0 || (d.off < 0 && -d.off > len(cs.st.params))) {
		return "dollar-zero" // $0 is "gosh" in-process and "sh" for bash -c
	}
	if d.name == "0" {
		return "dollar-zero"
	}
	if d.name == "-" {
		return "dollar-dash" // ${#-} is the length of $-, whose flags differ by design (no h, B in interp)
	}
	if d.name == "#" && (d.kind != 'N' || d.excl || d.length) {
		return "hash-param-grammar" // bash reads ${#^^x}, ${#:1} … as bad substitutions
	}
	for _, r := range ifs {
		if r >= utf8.RuneSelf {
			return "bash-multibyte-ifs" // bash 5.2 splits at the bytes of a multi-byte IFS character
		}
	}
	var pats []string
	if remove || caseOp {
		pats = append(pats, d.arg)
	}
	if d.kind == 'R' {
		pats = append(pats, d.orig)
	}
	for _, p := range pats {
		if !c21PatternClean(p) {
			return "c17-bracket-domain"
		}
		if _, err := pattern.Regexp(p, 0); err != nil {
			return "c17-pattern-error"
		}
		if strings.Contains(p, "[[:") {
			for _, e := range elems {
				for _, r := range e {
					if r >= utf8.RuneSelf {
						return "c17-class-nonascii" // Go's POSIX classes are ASCII, bash's follow the locale
					}
				}
			}
		}
	}
	// --- recorded findings
	if d.kind == 'R' && d.anchor != 'n' {
		return "C21-anchored-replace"
	}
	if d.kind == 'R' && d.withBackslash {
		return "C21-operator-word-backslash" // operator words are expanded with literalKeepEscapes and keep their backslashes
	}
	if d.kind == 'R' && d.withAmp {
		return "C21-patsub-ampersand"
	}
	if d.kind == 'R' && d.origSrcSlash {
		return "C21-replace-leading-slash"
	}
	if assign && (kind == 'p' || d.name == "#" || (d.name[0] >= '0' && d.name[0] <= '9')) {
		return "C21-assign-special"
	}
	if assign && (d.idxKind == '@' || d.idxKind == '*') {
		return "C21-assign-at-subscript"
	}
	if kind == 'a' && d.idxKind == 'e' {
		return "C21-assoc-negative-subscript"
	}
	if kind == 's' && d.idxKind == 'e' {
		return "scalar-negative-subscript" // bash: `bad array subscript`, then irregular (unset for the test operators)
	}
	if d.excl && d.names == 0 {
		if d.idxKind == '@' || d.idxKind == '*' {
			if kind == 's' || kind == 'u' {
				return "C21-keys-of-scalar"
			}
		} else {
			// ${!r}, ${!a[i]}: an indirection through the (element) value
			if d.kind != 'N' {
				return "C21-indirect-then-op"
			}
			if kind == 'p' {
				return "indirect-positional-list"
			}
			if kind == 'u' && d.name[0] >= '0' && d.name[0] <= '9' {
				return "C21-indirect-unset-positional"
			}
			val, set := c21ElemValue(cs, d)
			if !set && kind != 'u' {
				return "indirect-unset-element" // bash: invalid indirect expansion; interp: empty (the variable is set)
			}
			if set && !c21ValidName(val) {
				if _, err := strconv.Atoi(val); err != nil || val == "0" {
					return "C21-indirect-invalid-name"
				}
			}
		}
	}
	if d.kind == 'S' && isList && kind == 'a' {
		return "assoc-slice-unspecified" // bash slices an associative array in hash order
	}
	if d.kind == 'S' && d.hasLen && d.ln < 0 {
		if isList && listVar {
			return "C21-negative-length"
		}
		if val, _ := c21ElemValue(cs, d); !isList {
			n := utf8.RuneCountInString(val)
			start := 0
			if d.hasOff {
				switch {
				case d.off >= 0:
					start = min(d.off, n)
				case n+d.off >= 0:
					start = n + d.off
				default:
					start = n
				}
			}
			if n+d.ln < start {
				return "C21-negative-length"
			}
		}
	}
	if d.kind == 'S' && isList && (kind == 's' || kind == 'u') {
		return "scalar-list-slice" // bash's own reading of ${s[@]:o:l} on a scalar is irregular
	}
	if cs.quoted && isList && testOp && kind != 's' {
		return "C21-quoted-list-test-op"
	}
	if isList && listVar && d.kind == 'X' && d.op == "@" {
		return "C21-list-transform"
	}
	if !cs.quoted && isList && listVar && len(elems) >= 2 && (d.kind == 'R' || d.kind == 'X' || (d.excl && d.names == 0)) && cs.st.ifsSet {
		star := d.name == "*" || d.idxKind == '*'
		// joined with a space (the first IFS character for *) and split again: elements merge when
		// IFS has no space, and empty elements vanish where bash delimits them with a
		// non-white-space IFS character
		if (!star && !strings.Contains(ifs, " ")) || (star && ifs == "") || ifsNonWs {
			return "C21-unquoted-list-op-ifs"
		}
	}
	if !cs.quoted && d.excl && d.names == 2 && cs.st.ifsSet && !strings.Contains(ifs, " ") {
		return "C21-unquoted-list-op-ifs"
	}
	if kind == 'a' && !cs.quoted && isList && ifsNonWs && len(elems) >= 2 {
		return "assoc-order" // where the delimiters fall depends on bash's hash order
	}
	if kind == 'a' && cs.quoted && d.idxKind == '*' && len(elems) >= 2 {
		return "assoc-order" // bash joins in hash order
	}
	return ""
}

var c21NSh = func() int {
	if s := os.Getenv("C21_NSH"); s != "" {
		n, _ := strconv.Atoi(s)
		return n
	}
	return 260
}()
