//go:build c06 || all

package main

import (
	"bytes"
	"fmt"
	"io"
	"strings"
	"time"

	"mvdan.cc/sh/v3/syntax"
	"mvdan.cc/sh/v3/syntax/typedjson"
)

// C06 — Parsing and printing never crash or hang.
// Search leg: every entry point × variant × option set under recover() with a time budget, then
// Print / Simplify / Walk / typedjson.Encode on whatever tree came back.
func init() { register("C06", c06) }

type c06Opts struct {
	lang    syntax.LangVariant
	keep    bool
	stopAt  string
	recover int
}

func (o c06Opts) String() string {
	return fmt.Sprintf("%s,keep=%v,stop=%q,rec=%d", langName(o.lang), o.keep, o.stopAt, o.recover)
}

func (o c06Opts) parser() *syntax.Parser {
	opts := []syntax.ParserOption{syntax.Variant(o.lang), syntax.KeepComments(o.keep)}
	if o.stopAt != "" {
		opts = append(opts, syntax.StopAt(o.stopAt))
	}
	if o.recover > 0 {
		opts = append(opts, syntax.RecoverErrors(o.recover))
	}
	return syntax.NewParser(opts...)
}

var c06PrintOpts = [][]syntax.PrinterOption{
	nil,
	{syntax.Indent(2), syntax.BinaryNextLine(true), syntax.SwitchCaseIndent(true)},
	{syntax.Minify(true)},
	{syntax.SingleLine(true), syntax.SpaceRedirects(true), syntax.FunctionNextLine(true)},
	{syntax.KeepPadding(true)},
}

// c06Post runs the tree consumers; returns a description of the first panic.
func c06Post(n syntax.Node, r *Rand) string {
	if n == nil {
		return ""
	}
	if p := safely(func() { syntax.Walk(n, func(syntax.Node) bool { return true }) }); p != "" {
		return "Walk: " + p
	}
	if p := safely(func() { typedjson.Encode(io.Discard, n) }); p != "" {
		return "typedjson.Encode: " + p
	}
	po := c06PrintOpts[r.Intn(len(c06PrintOpts))]
	if p := safely(func() { syntax.NewPrinter(po...).Print(io.Discard, n) }); p != "" {
		return "Print: " + p
	}
	if p := safely(func() { syntax.Simplify(n) }); p != "" {
		return "Simplify: " + p
	}
	if p := safely(func() { syntax.NewPrinter().Print(io.Discard, n) }); p != "" {
		return "Print after Simplify: " + p
	}
	return ""
}

// c06One runs one entry point; returns "" or a failure description.
func c06One(entry int, o c06Opts, src string, r *Rand) string {
	var msg string
	p := safely(func() {
		ps := o.parser()
		rd := strings.NewReader(src)
		switch entry {
		case 0:
			f, err := ps.Parse(rd, "")
			if f != nil && err == nil {
				msg = c06Post(f, r)
			}
		case 1:
			for s, err := range ps.StmtsSeq(rd) {
				if err != nil {
					break
				}
				if m := c06Post(s, r); m != "" {
					msg = m
					break
				}
			}
		case 2:
			for w, err := range ps.WordsSeq(rd) {
				if err != nil {
					break
				}
				if m := c06Post(w, r); m != "" {
					msg = m
					break
				}
			}
		case 3:
			for stmts, err := range ps.InteractiveSeq(rd) {
				if err != nil {
					break
				}
				for _, s := range stmts {
					if m := c06Post(s, r); m != "" {
						msg = m
					}
				}
			}
		case 4:
			w, err := ps.Document(rd)
			if w != nil && err == nil {
				msg = c06Post(w, r)
			}
		case 5:
			e, err := ps.Arithmetic(rd)
			if e != nil && err == nil {
				msg = c06Post(e, r)
			}
		}
	})
	if p != "" {
		return "panic: " + p
	}
	return msg
}

var c06Entries = []string{"Parse", "StmtsSeq", "WordsSeq", "InteractiveSeq", "Document", "Arithmetic"}

func c06Mutate(r *Rand, s string, seeds []string) string {
	b := []byte(s)
	for k, n := 0, 1+r.Intn(3); k < n; k++ {
		if len(b) == 0 {
			b = append(b, byte(r.Intn(256)))
			continue
		}
		i := r.Intn(len(b))
		switch r.Intn(7) {
		case 0:
			b = append(b[:i], b[i+1:]...)
		case 1:
			b = append(b[:i], append([]byte{byte(r.Intn(256))}, b[i:]...)...)
		case 2:
			meta := "'\"`$(){}[]<>|&;\\\n#!*?~= \t\x00\r"
			b[i] = meta[r.Intn(len(meta))]
		case 3:
			j := r.Intn(len(b))
			b[i], b[j] = b[j], b[i]
		case 4:
			j := i + r.Intn(len(b)-i)
			b = append(b[:j], append(append([]byte{}, b[i:j]...), b[j:]...)...)
		case 5:
			o := seeds[r.Intn(len(seeds))]
			if len(o) > 0 {
				j := r.Intn(len(o))
				b = append(b[:i], []byte(o[j:])...)
			}
		case 6:
			toks := []string{"$(", "${", "$((", "((", "[[", "<<EOF\n", "<<-'E'\n", "`", "\"", "'", "case x in", "esac", "fi", "done", "}", ")", "))", "]]", "\\\n", "$'", "@(", "<(", "{a,b}", "&&", "|&", ";;&", "function ", "select ", "coproc ", "time ", "! ", "a=(", "${a[", "${a:", "${a/", "#"}
			b = append(b[:i], append([]byte(toks[r.Intn(len(toks))]), b[i:]...)...)
		}
		if len(b) > 4096 {
			b = b[:4096]
		}
	}
	return string(b)
}

func c06(c *Ctx) {
	c.Rule = "inputs: random bytes, the repository's test inputs, grammar-generated programs, byte/token mutations and splices of those, deep nesting; each run through all six entry points × a sampled (variant, KeepComments, StopAt, RecoverErrors) option set under recover() with a time budget, then Walk/typedjson.Encode/Print(option set)/Simplify on every returned tree; " +
		"non-trivial = at least one entry point returned a tree; distinct by (input, options)"
	seeds := repoSeeds()
	type job struct {
		src string
		o   c06Opts
		r   *Rand
	}
	var jobs []job
	mkOpts := func(r *Rand) c06Opts {
		o := c06Opts{lang: allLangs[r.Intn(len(allLangs))], keep: r.Bool()}
		if r.Chance(25) {
			o.stopAt = r.Pick([]string{"$$", "EOF", "}", "fi", "a"})
		}
		if r.Chance(40) {
			o.recover = 1 + r.Intn(5)
		}
		return o
	}
	for _, l := range c.CorpusLines() {
		f := strings.Fields(l)
		for _, lang := range allLangs {
			for _, rec := range []int{0, 1, 4} {
				jobs = append(jobs, job{unhx(f[len(f)-1]), c06Opts{lang: lang, keep: rec == 1, recover: rec}, c.R.Fork(l)})
			}
		}
	}
	deep := []string{strings.Repeat("(", 300), strings.Repeat("$(", 200), strings.Repeat("{ ", 300), strings.Repeat("((", 200), strings.Repeat("`", 151),
		strings.Repeat("${a:-", 200), strings.Repeat("$((", 150), strings.Repeat("[[ ( ", 100), strings.Repeat("if ", 300), strings.Repeat("case x in a) ", 100),
		strings.Repeat("a=(", 150), strings.Repeat("\"$(", 150), strings.Repeat("<<E\n", 100), strings.Repeat("! ", 500), strings.Repeat("a|", 500)}
	for _, dsrc := range deep {
		jobs = append(jobs, job{dsrc, mkOpts(c.R), c.R.Fork(dsrc)})
	}
	for i := 0; i < c.N; i++ {
		r := c.R
		var src string
		switch k := r.Intn(10); {
		case k < 2:
			n := r.Intn(40)
			b := make([]byte, n)
			for j := range b {
				b[j] = byte(r.Intn(256))
			}
			src = string(b)
		case k < 4:
			src = seeds[r.Intn(len(seeds))]
		case k < 5:
			src = newProgGen(r, r.Bool()).Program(1 + r.Intn(3))
		case k < 9:
			src = c06Mutate(r, seeds[r.Intn(len(seeds))], seeds)
		default:
			src = c06Mutate(r, newProgGen(r, true).Program(1+r.Intn(2)), seeds)
		}
		jobs = append(jobs, job{src, mkOpts(r), r.Fork(fmt.Sprint(i))})
	}
	type res struct {
		fails    []Failure
		tree     bool
		slow     time.Duration
		suspects []int
	}
	results := parallelMap(len(jobs), 12, func(i int) res {
		j := jobs[i]
		var out res
		for e := range c06Entries {
			t0 := time.Now()
			done := make(chan string, 1)
			go func() { done <- c06One(e, j.o, j.src, j.r) }()
			budget := 5*time.Second + 2*time.Duration(len(j.src))*time.Millisecond
			select {
			case msg := <-done:
				if msg != "" {
					out.fails = append(out.fails, Failure{Witness: fmt.Sprintf("%s %s %s", c06Entries[e], j.o, hx(j.src)), What: msg})
				}
			case <-time.After(budget):
				// possibly only machine load: re-run alone after the parallel phase
				out.suspects = append(out.suspects, e)
			}
			if d := time.Since(t0); d > out.slow {
				out.slow = d
			}
		}
		f, _, _ := parseIn(j.src, j.o.lang)
		out.tree = f != nil && len(f.Stmts) > 0
		return out
	})
	for i := range results {
		j := jobs[i]
		for _, e := range results[i].suspects {
			c.Hist["retried-alone-after-timeout"]++
			done := make(chan string, 1)
			go func() { done <- c06One(e, j.o, j.src, j.r) }()
			budget := 60 * time.Second
			select {
			case msg := <-done:
				if msg != "" {
					results[i].fails = append(results[i].fails, Failure{Witness: fmt.Sprintf("%s %s %s", c06Entries[e], j.o, hx(j.src)), What: msg})
				}
			case <-time.After(budget):
				results[i].fails = append(results[i].fails, Failure{Witness: fmt.Sprintf("%s %s %s", c06Entries[e], j.o, hx(j.src)), What: fmt.Sprintf("did not return within %v even when run alone (hang)", budget)})
			}
		}
	}
	var slowest time.Duration
	for i, r := range results {
		j := jobs[i]
		c.Case(j.o.String()+"\x00"+j.src, r.tree, "lang="+langName(j.o.lang), fmt.Sprintf("recover=%v", j.o.recover > 0), fmt.Sprintf("len<%d", bucket(len(j.src))))
		for _, f := range r.fails {
			c.Fail(f.Witness, f.What)
		}
		if r.slow > slowest {
			slowest = r.slow
		}
	}
	c.Extra["slowest_case_ms"] = slowest.Milliseconds()
	// linearity probe: time per byte must not grow with size
	probes := []string{"echo foo bar \"$a\" 'b' $(c) ${d:-e}; ", "if a; then b; fi\n", "a | b && c || d &\n", "x=$((1+2*3)); [[ a == b ]]; f() { :; }\n"}
	var sb bytes.Buffer
	worst := 0.0
	for _, unit := range probes {
		per := []float64{}
		for _, reps := range []int{2000, 8000} {
			src := strings.Repeat(unit, reps)
			var d time.Duration
			var err error
			var pn string
			for k := 0; k < 3; k++ {
				t0 := time.Now()
				_, err, pn = parseIn(src, syntax.LangBash)
				if dd := time.Since(t0); k == 0 || dd < d {
					d = dd
				}
			}
			if pn != "" || err != nil {
				c.Fail("linear "+hx(unit), fmt.Sprintf("repeated valid unit failed to parse: %v %s", err, pn))
			}
			per = append(per, float64(d.Nanoseconds())/float64(len(src)))
		}
		ratio := per[1] / per[0]
		fmt.Fprintf(&sb, "%.0f→%.0f ns/B (x%.2f); ", per[0], per[1], ratio)
		if ratio > worst {
			worst = ratio
		}
		if ratio > 6 && per[1] > 5000 {
			c.Fail("linear "+hx(unit), fmt.Sprintf("time per byte grows with input size: %.0f → %.0f ns/byte", per[0], per[1]))
		}
	}
	c.Extra["linearity"] = sb.String()
}
