//go:build c06 || all

package main

import (
	"bytes"
	"fmt"
	"io"
	"os"
	"os/exec"
	"reflect"
	"runtime/debug"
	"strconv"
	"strings"
	"sync"
	"sync/atomic"
	"time"
	"unicode/utf8"

	"mvdan.cc/sh/v3/syntax"
	"mvdan.cc/sh/v3/syntax/typedjson"
)

// C06 — Parsing and printing never crash or hang.
// Search leg: every entry point × variant × option set under recover() with a time budget, then
// Pos/End of every node, Walk, typedjson.Encode, Print (several option sets), Simplify on whatever
// tree came back; a linearity probe on inputs grown to 256 KiB / 1 MiB; a deep-nesting probe in a
// subprocess (a Go stack overflow is fatal and cannot be recovered).
// Tie: the tree well-formedness predicate of Model/C06.lean (`wf` ops) against the real Pos()/End()
// methods, on parser-produced nodes and on nodes made ill-formed on purpose.
func init() {
	if spec := os.Getenv("VERIF_C06_DEEP"); spec != "" {
		c06DeepChild(spec)
		os.Exit(0)
	}
	if spec := os.Getenv("VERIF_C06_ONE"); spec != "" {
		c06OneChild(spec)
		os.Exit(0)
	}
	register("C06", c06)
}

type c06Opts struct {
	lang     syntax.LangVariant
	keep     bool
	stopAt   string
	recover  int
	allPrint bool // run every printer option set on the returned trees, not a sample (not part of the witness)
}

func (o c06Opts) String() string {
	return fmt.Sprintf("%s,keep=%v,stop=%q,rec=%d", langName(o.lang), o.keep, o.stopAt, o.recover)
}

func (o c06Opts) parser() *syntax.Parser {
	opts := []syntax.ParserOption{syntax.Variant(o.lang), syntax.KeepComments(o.keep)}
	if o.stopAt != "" {
		opts = append(opts, syntax.StopAt(o.stopAt))
	}
	if o.recover > 0 {
		opts = append(opts, syntax.RecoverErrors(o.recover))
	}
	return syntax.NewParser(opts...)
}

var c06PrintOpts = [][]syntax.PrinterOption{
	nil,
	{syntax.Indent(2), syntax.BinaryNextLine(true), syntax.SwitchCaseIndent(true)},
	{syntax.Minify(true)},
	{syntax.SingleLine(true), syntax.SpaceRedirects(true), syntax.FunctionNextLine(true)},
	{syntax.KeepPadding(true)},
	{syntax.Indent(8), syntax.SpaceRedirects(true), syntax.KeepPadding(true), syntax.BinaryNextLine(true)},
	{syntax.Minify(true), syntax.SingleLine(true)},
	{syntax.FunctionNextLine(true), syntax.SwitchCaseIndent(true), syntax.Indent(1)},
}

type c06Op struct{ op, impl string }

var c06SlotsMu sync.Mutex

func c06HasFailure(c *Ctx, w string) bool {
	for _, f := range c.Failures {
		if f.Witness == w {
			return true
		}
	}
	return false
}

// c06WFReq is the harness's copy of wfReq (lean/ShVerif/Model/C06.lean); the `wf` tie compares the
// Lean predicate with the real Pos()/End() on the same nodes, and c06Post compares this copy with
// them too, so the three cannot drift apart unnoticed.
var c06WFReq = map[string][]string{"Word": {"Parts"}, "CallExpr": {"Assigns", "Args"}, "CaseItem": {"Patterns"}, "LetClause": {"Exprs"}, "BraceExp": {"Elems"}}

func c06WF(ty string, lens []string) bool {
	fields, ok := c06WFReq[ty]
	if !ok {
		return true
	}
	for _, f := range fields {
		for _, l := range lens {
			if strings.HasPrefix(l, f+"=") && l != f+"=0" {
				return true
			}
		}
	}
	return false
}

// c06ListLens renders the lengths of the node's own list-of-node fields: "Parts=2 …".
func c06ListLens(n syntax.Node) (ty string, lens []string, slots []slotInfo) {
	v := reflect.ValueOf(n)
	if v.Kind() == reflect.Pointer {
		v = v.Elem()
	}
	ty = v.Type().Name()
	c06SlotsMu.Lock() // slotsOfType fills an unsynchronised cache; workers call this concurrently
	all := slotsOfType(v.Type())
	c06SlotsMu.Unlock()
	for _, s := range all {
		if !s.IsList || len(s.index) != 1 {
			continue
		}
		lens = append(lens, fmt.Sprintf("%s=%d", s.Path, v.Field(s.index[0]).Len()))
		slots = append(slots, s)
	}
	return
}

func c06PosEnd(n syntax.Node) string {
	return safely(func() {
		_ = n.Pos()
		_ = n.End()
	})
}

// c06Mutant copies the node and empties the list fields selected by mask.
func c06Mutant(n syntax.Node, slots []slotInfo, mask int) (syntax.Node, []string) {
	v := reflect.ValueOf(n).Elem()
	cp := reflect.New(v.Type())
	cp.Elem().Set(v)
	var lens []string
	for i, s := range slots {
		f := cp.Elem().Field(s.index[0])
		if mask&(1<<i) != 0 {
			f.Set(reflect.Zero(f.Type()))
		}
		lens = append(lens, fmt.Sprintf("%s=%d", s.Path, f.Len()))
	}
	return cp.Interface().(syntax.Node), lens
}

// c06Post runs the tree consumers; returns a description of the first panic.  ops receives
// a few `wf` tie lines sampled from the tree.
func c06Post(n syntax.Node, r *Rand, ops *[]c06Op, allPrint bool) string {
	if n == nil || reflect.ValueOf(n).IsNil() {
		return ""
	}
	var nodes []syntax.Node
	if p := safely(func() {
		syntax.Walk(n, func(x syntax.Node) bool {
			if x != nil {
				nodes = append(nodes, x)
			}
			return true
		})
	}); p != "" {
		return "Walk: " + p
	}
	// Pos()/End() of every node; on very large trees (a left-deep pipeline makes Pos() itself linear,
	// typedjson costs ~a millisecond per node) a sample of the nodes and sub-trees instead
	big := len(nodes) > 2000
	for i, x := range nodes {
		if big && i > 200 && !r.Chance(5) {
			continue
		}
		if _, isComment := x.(*syntax.Comment); isComment {
			continue // Walk hands out the address of a loop copy
		}
		ty, lens, _ := c06ListLens(x)
		if !c06WF(ty, lens) {
			return fmt.Sprintf("ill-formed node %s{%s}: the tree well-formedness predicate (Model/C06.lean wfReq) does not hold", ty, strings.Join(lens, " "))
		}
		if p := c06PosEnd(x); p != "" {
			return fmt.Sprintf("Pos/End of %s{%s}: %s", ty, strings.Join(lens, " "), p)
		}
	}
	// tie: the WF predicate against the real Pos()/End(), on real and on mutilated nodes
	if ops != nil && len(nodes) > 0 {
		for k := 0; k < 3 && len(*ops) < 24; k++ {
			x := nodes[r.Intn(len(nodes))]
			if _, isComment := x.(*syntax.Comment); isComment {
				continue
			}
			ty, lens, slots := c06ListLens(x)
			if len(slots) == 0 {
				continue
			}
			*ops = append(*ops, c06Op{strings.TrimSpace("wf " + ty + " " + strings.Join(lens, " ")), "true"})
			m, mlens := c06Mutant(x, slots, 1+r.Intn(1<<len(slots)-1))
			real := c06PosEnd(m) == ""
			if real != c06WF(ty, mlens) {
				return fmt.Sprintf("the harness's copy of the WF predicate disagrees with Pos()/End() on %s{%s}", ty, strings.Join(mlens, " "))
			}
			*ops = append(*ops, c06Op{strings.TrimSpace("wf " + ty + " " + strings.Join(mlens, " ")), fmt.Sprint(real)})
		}
	}
	encodeRoots := []syntax.Node{n}
	if big {
		encodeRoots = encodeRoots[:0]
		for k := 0; k < 40; k++ {
			if x := nodes[len(nodes)-1-r.Intn(len(nodes)/2)]; x != nil {
				if _, isComment := x.(*syntax.Comment); !isComment {
					encodeRoots = append(encodeRoots, x)
				}
			}
		}
	}
	for _, x := range encodeRoots {
		if p := safely(func() { typedjson.Encode(io.Discard, x) }); p != "" {
			return "typedjson.Encode: " + p
		}
	}
	for k := 0; k < 2 || (allPrint && k < len(c06PrintOpts)); k++ {
		pi := r.Intn(len(c06PrintOpts))
		if allPrint {
			pi = k
		}
		if p, where := c06Safely(func() { syntax.NewPrinter(c06PrintOpts[pi]...).Print(io.Discard, n) }); p != "" {
			return fmt.Sprintf("Print(option set %d) in %s: %s", pi, where, p)
		}
	}
	if p := safely(func() { syntax.Simplify(n) }); p != "" {
		return "Simplify: " + p
	}
	if p := safely(func() { syntax.NewPrinter().Print(io.Discard, n) }); p != "" {
		return "Print after Simplify: " + p
	}
	if p := safely(func() { syntax.Walk(n, func(x syntax.Node) bool { return x == nil || r.Chance(80) }) }); p != "" {
		return "Walk (pruning) after Simplify: " + p
	}
	return ""
}

// c06Safely is safely() plus the innermost function of mvdan.cc/sh/v3/syntax on the panicking stack.
func c06Safely(f func()) (panicked, where string) {
	defer func() {
		if r := recover(); r != nil {
			panicked = fmt.Sprint(r)
			for _, l := range strings.Split(string(debug.Stack()), "\n") {
				if strings.HasPrefix(l, "mvdan.cc/sh/v3/syntax") && !strings.Contains(l, "safely") {
					l = strings.TrimPrefix(l, "mvdan.cc/sh/v3/syntax")
					l = strings.TrimPrefix(l, "/typedjson")
					if i := strings.LastIndex(l, "("); i > 0 {
						l = l[:i]
					}
					where = strings.TrimPrefix(l, ".")
					break
				}
			}
		}
	}()
	f()
	return "", ""
}

// c06One runs one entry point; returns "" or a failure description.
func c06One(entry int, o c06Opts, src string, r *Rand, ops *[]c06Op) (msg string, gotTree bool) {
	p, where := c06Safely(func() {
		ps := o.parser()
		rd := strings.NewReader(src)
		switch entry {
		case 0:
			// Parse hands back the partial tree together with an error: it is a tree it returned
			f, err := ps.Parse(rd, "")
			if f != nil {
				gotTree = err == nil && len(f.Stmts) > 0
				msg = c06Post(f, r, ops, o.allPrint)
				if msg != "" && err != nil {
					msg += " [on the partial tree returned with the error: " + err.Error() + "]"
				}
			}
		case 1:
			for s, err := range ps.StmtsSeq(rd) {
				if err != nil {
					break
				}
				gotTree = true
				if m := c06Post(s, r, ops, o.allPrint); m != "" {
					msg = m
					break
				}
			}
		case 2:
			for w, err := range ps.WordsSeq(rd) {
				if err != nil {
					break
				}
				gotTree = true
				if m := c06Post(w, r, ops, o.allPrint); m != "" {
					msg = m
					break
				}
			}
		case 3:
			for stmts, err := range ps.InteractiveSeq(rd) {
				if err != nil {
					break
				}
				for _, s := range stmts {
					gotTree = true
					if m := c06Post(s, r, ops, o.allPrint); m != "" {
						msg = m
					}
				}
			}
		case 4:
			w, err := ps.Document(rd)
			if w != nil && err == nil {
				gotTree = true
				msg = c06Post(w, r, ops, o.allPrint)
			}
		case 5:
			e, err := ps.Arithmetic(rd)
			if e != nil && err == nil {
				gotTree = true
				msg = c06Post(e, r, ops, o.allPrint)
			}
		}
	})
	if p != "" {
		return "panic in " + where + ": " + p, gotTree
	}
	return msg, gotTree
}

// c06Class maps a failure to the class witness of an open known finding, or "".
// No in-process class is open: the three found while this package was built (RecoverErrors leaving
// the arithmetic lexer state with a stale p.eqlOffs; RecoverErrors returning a CaseItem without
// patterns; StopAt with a multi-byte stop word at the buffer edge) are fixed (637e874, cb62b3c)
// and replayed from corpus/C06-fixed.txt.  The one open finding, the stack overflow on deep
// nesting, is reported by the subprocess probe under its own class witness.
func c06Class(o c06Opts, src, what string) string {
	return ""
}

var c06Entries = []string{"Parse", "StmtsSeq", "WordsSeq", "InteractiveSeq", "Document", "Arithmetic"}

const c06Meta = "'\"`$(){}[]<>|&;\\\n#!*?~= \t\x00\r"

var c06Toks = []string{"$(", "${", "$((", "((", "[[", "<<EOF\n", "<<-'E'\n", "`", "\"", "'", "case x in", "esac", "fi", "done", "}", ")", "))", "]]", "\\\n", "$'", "@(", "<(", "{a,b}", "&&", "|&", ";;&", "function ", "select ", "coproc ", "time ", "! ", "a=(", "${a[", "${a:", "${a/", "#",
	"$[", "$\"", ">(", "=(", "<->", "${(f)", "${=", "${a@", "${!", "${#", "for ((", "; do", "then", "elif", "else", "in", "@test ", "declare ", "let ", "[ ", " ]", "<<<", ">&", "&>", "2>", ">|", "&!", "&|", ";&", ";|", "\xff", "\xc3", "é", "\r\n", "\\\r\n", "$$", "EOF"}

func c06Mutate(r *Rand, s string, seeds []string) string {
	b := []byte(s)
	for k, n := 0, 1+r.Intn(3); k < n; k++ {
		if len(b) == 0 {
			b = append(b, byte(r.Intn(256)))
			continue
		}
		i := r.Intn(len(b))
		switch r.Intn(9) {
		case 0: // delete a byte
			b = append(b[:i], b[i+1:]...)
		case 1: // insert a random byte
			b = append(b[:i], append([]byte{byte(r.Intn(256))}, b[i:]...)...)
		case 2: // overwrite with a metacharacter
			b[i] = c06Meta[r.Intn(len(c06Meta))]
		case 3: // swap two bytes
			j := r.Intn(len(b))
			b[i], b[j] = b[j], b[i]
		case 4: // duplicate a range
			j := i + r.Intn(len(b)-i)
			b = append(b[:j], append(append([]byte{}, b[i:j]...), b[j:]...)...)
		case 5: // splice: the tail of another seed
			o := seeds[r.Intn(len(seeds))]
			if len(o) > 0 {
				j := r.Intn(len(o))
				b = append(b[:i], []byte(o[j:])...)
			}
		case 6: // insert a token
			b = append(b[:i], append([]byte(c06Toks[r.Intn(len(c06Toks))]), b[i:]...)...)
		case 7: // delete a range
			j := i + r.Intn(len(b)-i)
			b = append(b[:i], b[j:]...)
		case 8: // truncate
			b = b[:i]
		}
		if len(b) > 4096 {
			b = b[:4096]
		}
	}
	return string(b)
}

// c06TokenMutate works on whitespace-separated tokens: delete, duplicate, swap, replace.
func c06TokenMutate(r *Rand, s string) string {
	toks := strings.FieldsFunc(s, func(c rune) bool { return c == ' ' })
	if len(toks) < 2 {
		return s + c06Toks[r.Intn(len(c06Toks))]
	}
	for k, n := 0, 1+r.Intn(2); k < n && len(toks) > 1; k++ {
		i, j := r.Intn(len(toks)), r.Intn(len(toks))
		switch r.Intn(4) {
		case 0:
			toks = append(toks[:i], toks[i+1:]...)
		case 1:
			toks = append(toks[:i], append([]string{toks[j]}, toks[i:]...)...)
		case 2:
			toks[i], toks[j] = toks[j], toks[i]
		case 3:
			toks[i] = c06Toks[r.Intn(len(c06Toks))]
		}
	}
	return strings.Join(toks, " ")
}

var c06DeepUnits = []string{"(", "$(", "{ ", "((", "`", "${a:-", "$((", "[[ ( ", "if ", "case x in a) ", "a=(", "\"$(", "<<E\n", "! ", "a|", "$[", "<(", "${a[", "f() ", "while ", "a && ", "{ (", "\"${a:-\"", "$(($(", "for i in $(", "@(", "${a/", "function f { ", "time ", "coproc "}

// c06Deep: nesting depth up to a few hundred (deeper nesting is the subprocess probe's business).
func c06Deep(r *Rand) string {
	u := c06DeepUnits[r.Intn(len(c06DeepUnits))]
	n := 1 + r.Intn(300)
	s := strings.Repeat(u, n)
	if r.Bool() {
		s += "x"
		closers := map[string]string{"(": ")", "$(": ")", "{ ": "; }", "((": "))", "${a:-": "}", "$((": "))", "\"$(": ")\"", "$[": "]", "<(": ")", "${a[": "]}", "{ (": "); }", "@(": ")", "${a/": "}"}
		if c, ok := closers[u]; ok {
			s += strings.Repeat(c, n-r.Intn(2))
		}
	}
	return s
}

// Look-ahead sites of the lexer (peek, peekTwo, zshNumRange, the backquote/backslash test in rune,
// stopAt, here-document delimiters, multi-byte runes at the buffer edge …) decide from the bytes
// that happen to be buffered (1 KiB) and refill when they run out.  A long run of one byte class
// right after the trigger makes them cross the buffer one or more times: (prefix, repeated unit).
var c06LookAhead = []struct{ pre, unit, post string }{
	{"echo <", "1", " x"}, {"echo <", "1", "-2> x"}, {"echo <1", "-", "> x"}, {"echo <", "1", "> x"}, {"ls <-", "9", "> x"},
	{"echo `a ", "\\", "` x"}, {"echo \"`a ", "\\", "\"` x\""}, {"echo `", "\\`", "` x"}, {"echo ", "\\", "a x"},
	{"echo ${", "a", "} x"}, {"echo ${a", "[", "1]} x"}, {"echo ${", "#", "a} x"}, {"echo ${", "=", "a} x"}, {"echo ${a:", "1", "} x"},
	{"echo ${a", ":", "-b} x"}, {"echo ${a/", "x", "/y} x"}, {"echo ${(", "f", ")a} x"}, {"echo $", "{", "a} x"}, {"echo $", "$", " x"},
	{"echo a ", "#", " c\nx"}, {"echo a#", "#", " x"}, {"", "#", "\necho x"}, {"echo $", "#", " x"},
	{"echo '", "\\\n", "' x"}, {"echo \"", "\\\n", "\" x"}, {"echo a", "\\\n", "b x"}, {"echo $'", "\\'", "' x"}, {"echo a", "\\\r\n", "b x"},
	{"echo $((", "(", "1 x"}, {"echo $((", "1", ")) x"}, {"echo $((", " ", "1)) x"}, {"((", "1+", "1)); x"}, {"echo $((1", "<", "2)) x"}, {"echo $[", "1", "] x"},
	{"echo ${a[", "1", "]} x"}, {"echo ${a[", "[", "]} x"}, {"a[", "1", "]=x; y"}, {"a=(", "[", "1]=x) y"},
	{"echo @(", "a", ") x"}, {"echo ?(", "(", ") x"}, {"echo +(", "|", ") x"}, {"echo !", "(", "a) x"}, {"echo a", "*", "(b) x"},
	{"cat <<", "E", "\nbody\nE\nx"}, {"cat <<-", "\t", "E\nbody\nE\nx"}, {"cat <<'", "E", "'\nbody\nE\nx"}, {"cat <<", "<", " x"}, {"cat <<E\n", "\t", "E\nx"},
	{"echo ", "a", " x"}, {"", "a", "=b x"}, {"a", "=", " x"}, {"echo ", "é", " x"}, {"echo ", "\xf0\x9f\x98\x80", " x"}, {"echo ", "\xff", " x"}, {"echo ", "\xc3", " x"},
	{"echo ", "\x00", "a x"}, {"echo a", "\r", "\nx"}, {"echo ", "\t", "a x"}, {"", "\n", "x"}, {"echo ", "$a", " x"}, {"echo \"", "$", "\" x"},
	{"echo ", "{a,b}", " x"}, {"echo {", "1", "..3} x"}, {"", "{", "a} x"}, {"echo ", "~", " x"}, {"x ", ">", "y"}, {"x ", "&", "y"}, {"x ", "|", "y"}, {"x ", ";", "y"},
	{"[[ a =~ ", "(", "b) ]]"}, {"[[ a == ", "\\", "b ]]"}, {"[[ ", "!", " a ]]"}, {"echo ", "'a'", " x"}, {"echo ", "\"a\"", " x"}, {"f", "(", ") { :; }"},
	{"echo $", "(", "a) x"}, {"echo <(", "<", "a) x"}, {"coproc ", "a", " { :; }"}, {"time ", "-", "p x"}, {"function ", "f", " { :; }"}, {"for ((", ";", ")); do :; done"},
}

func c06RunLens() []int { return []int{1100, 2100, 5000} }

// Stop words (StopAt accepts at most four bytes without whitespace) and the words placed at the
// edge of the 1 KiB read buffer: the stop-word test in Parser.next looks ahead and may refill.
var c06StopWords = []string{"éé", "é", "$$", "EOF", "ab", "€", "}}"}

func c06StopEdgeInput(stop string, k, variant int) string {
	first := stop[:1]
	if r, w := utf8.DecodeRuneInString(stop); r != utf8.RuneError {
		first = stop[:w]
	}
	word := []string{first, stop, stop + "x", first + "x", stop[:len(stop)-1]}[variant%5]
	return strings.Repeat("a", k) + " " + word + " x\necho more\n"
}

// Printer-sensitive shapes: here-document bodies and double quotes whose parts are separated by
// escaped newlines (an escaped newline leaves an empty literal behind), expansions glued to
// literals, empty parts.  They are printed with every option set.
var c06PrinterShapes = []string{
	"cat <<E\n${a}\\\n$b\nE\n", "cat <<E\n${a}\\\n\nE\n", "cat <<E\n$a\\\n${b}c\nE\n", "cat <<-E\n\t${a}\\\n\t$b\n\tE\n",
	"${a}\\\n$b", "${a}\\\n", "\\\n${a}\\\n", "echo \"${a}\\\n$b\"\n", "echo \"${a}\\\n\"\n", "echo ${a}\\\nb ${c}\\\n\n",
	"cat <<E\n${a}$b${c}d${e}_${f}[1]\nE\n", "echo ${a}b ${a}_ ${a}1 ${a}[ ${a}- ${10} ${1}0 \"${a}\"b ${a}\"b\"\n", "cat <<E\n\\\n\\\n\nE\n",
	"cat <<E\n`a\\\n`\nE\n", "cat <<E\n$(a\\\n)${b}\\\n\nE\n", "echo \"\"'' $'' $\"\" \"$a\"\"\"\n", "a=${b}\\\nc d\n", "echo ${a:-${b}\\\n}c\n",
}

var c06HdocPieces = []string{"${a}", "$b", "\\\n", "$(c)", "`d`", "text", "\\$", "\\\\", "\t", " ", "${e:-f}", "$((1))", "\n", "${10}", "$1", "_", "[", "x", "\"", "'", "${g}h", "\\\r\n"}

func c06HdocSoup(r *Rand) string {
	var body strings.Builder
	for i, n := 0, 1+r.Intn(8); i < n; i++ {
		body.WriteString(c06HdocPieces[r.Intn(len(c06HdocPieces))])
	}
	switch r.Intn(4) {
	case 0:
		return body.String() // for Parser.Document (and whatever the other entry points make of it)
	case 1:
		return "cat <<-E\n\t" + body.String() + "\n\tE\n"
	case 2:
		return "echo \"" + strings.ReplaceAll(body.String(), "\"", "") + "\"\n"
	default:
		return "cat <<E\n" + body.String() + "\nE\n"
	}
}

// c06LookAheadInput: optional padding so that the trigger sits at a chosen offset modulo the
// buffer size, the trigger, the run, and more input after it.
func c06LookAheadInput(k, n, pad int) string {
	t := c06LookAhead[k%len(c06LookAhead)]
	var sb strings.Builder
	if pad > 0 {
		sb.WriteString(": ")
		sb.WriteString(strings.Repeat("p", pad-3))
		sb.WriteString("\n")
	}
	sb.WriteString(t.pre)
	sb.WriteString(strings.Repeat(t.unit, (n+len(t.unit)-1)/len(t.unit)))
	sb.WriteString(t.post)
	sb.WriteString("\necho more input follows; echo \"$a\"\n")
	return sb.String()
}

func c06LongLine(r *Rand) string {
	n := 2000 + r.Intn(30000)
	switch r.Intn(7) {
	case 0:
		return strings.Repeat("a", n)
	case 1:
		return "echo " + strings.Repeat("a b ", n/4)
	case 2:
		return strings.Repeat("a | ", n/4) + "a"
	case 3:
		return "echo \"" + strings.Repeat("$a ", n/3) + "\""
	case 4:
		return "# " + strings.Repeat("c", n)
	case 5:
		return strings.Repeat("a=b ", n/4) + "cmd"
	default:
		return "echo " + strings.Repeat("\\\n", n/2) + "x"
	}
}

func c06Minimize(src string, stillFails func(string) bool) string {
	evals := 0
	for chunk := len(src) / 2; chunk >= 1; chunk /= 2 {
		for i := 0; i+chunk <= len(src) && evals < 400; {
			cand := src[:i] + src[i+chunk:]
			evals++
			if stillFails(cand) {
				src = cand
			} else {
				i += chunk
			}
		}
	}
	return src
}

// ---- one case in a child process: a goroutine that loops forever cannot be stopped, a process can ----

// spec: entry|lang index|keep|stopAt hex|recover|fork label hex|source hex
func c06OneSpec(e int, o c06Opts, label, src string) string {
	li := 0
	for i, l := range allLangs {
		if l == o.lang {
			li = i
		}
	}
	return fmt.Sprintf("%d|%d|%v|%s|%d|%s|%s|%v", e, li, o.keep, hx(o.stopAt), o.recover, hx(label), hx(src), o.allPrint)
}

func c06OneChild(spec string) {
	f := strings.Split(spec, "|")
	e, _ := strconv.Atoi(f[0])
	li, _ := strconv.Atoi(f[1])
	rec, _ := strconv.Atoi(f[4])
	o := c06Opts{lang: allLangs[li], keep: f[2] == "true", stopAt: unhx(f[3]), recover: rec, allPrint: len(f) > 7 && f[7] == "true"}
	msg, _ := c06One(e, o, unhx(f[6]), (&Rand{s: 1}).Fork(unhx(f[5])), nil)
	fmt.Println("C06-ONE-RESULT " + strings.ReplaceAll(msg, "\n", " "))
}

// c06ProcCPU reads utime+stime of a live process from /proc (seconds).
func c06ProcCPU(pid int) (float64, bool) {
	b, err := os.ReadFile(fmt.Sprintf("/proc/%d/stat", pid))
	if err != nil {
		return 0, false
	}
	st := string(b)
	i := strings.LastIndex(st, ")") // the command name may contain spaces
	f := strings.Fields(st[i+1:])
	if len(f) < 13 {
		return 0, false
	}
	ut, _ := strconv.ParseFloat(f[11], 64)
	stm, _ := strconv.ParseFloat(f[12], 64)
	return (ut + stm) / 100, true // USER_HZ is 100 on Linux
}

// c06RunChild runs one case in a child process and judges it by the CPU time the child has
// consumed, not by the wall clock: on a loaded machine a starved child is not a hang, a child that
// has burnt cpuBudget seconds without returning is.  status: returned | hang | starved | other.
func c06RunChild(e int, o c06Opts, label, src string, cpuBudget float64, wallBudget time.Duration) (status, msg string, cpu float64) {
	exe, err := os.Executable()
	if err != nil {
		return "other", err.Error(), 0
	}
	cmd := exec.Command(exe)
	cmd.Env = append(os.Environ(), "VERIF_C06_ONE="+c06OneSpec(e, o, label, src), "GOMAXPROCS=2")
	var out bytes.Buffer
	cmd.Stdout, cmd.Stderr = &out, &out
	if err := cmd.Start(); err != nil {
		return "other", err.Error(), 0
	}
	done := make(chan error, 1)
	go func() { done <- cmd.Wait() }()
	t0 := time.Now()
	tick := time.NewTicker(200 * time.Millisecond)
	defer tick.Stop()
	for {
		select {
		case <-done:
			o := out.String()
			if i := strings.Index(o, "C06-ONE-RESULT"); i >= 0 {
				return "returned", strings.TrimSpace(strings.SplitN(o[i+len("C06-ONE-RESULT"):], "\n", 2)[0]), cpu
			}
			if strings.Contains(o, "stack overflow") {
				return "other", "fatal error: stack overflow", cpu
			}
			if len(o) > 300 {
				o = o[:300]
			}
			return "other", "child died: " + o, cpu
		case <-tick.C:
			if c, ok := c06ProcCPU(cmd.Process.Pid); ok {
				cpu = c
			}
			if cpu > cpuBudget {
				cmd.Process.Kill()
				<-done
				return "hang", "", cpu
			}
			if time.Since(t0) > wallBudget {
				cmd.Process.Kill()
				<-done
				return "starved", "", cpu
			}
		}
	}
}

// ---- deep-nesting probe (subprocess: a Go stack overflow is a fatal error, not a panic) ----

// c06DeepChild parses strings.Repeat(unit, n) and reports; run by the re-executed harness binary.
func c06DeepChild(spec string) {
	i := strings.LastIndex(spec, ":")
	n, _ := strconv.Atoi(spec[i+1:])
	unit := unhx(spec[:i])
	src := strings.Repeat(unit, n)
	f, err := syntax.NewParser().Parse(strings.NewReader(src), "")
	if err == nil && f != nil {
		syntax.NewPrinter().Print(io.Discard, f)
	}
	fmt.Println("C06-DEEP-RETURNED")
}

type c06DeepResult struct {
	unit   string
	n      int
	status string // returned | stack-overflow | timeout | other
	detail string
	d      time.Duration
}

func c06DeepProbe(unit string, n int, budget time.Duration) c06DeepResult {
	res := c06DeepResult{unit: unit, n: n}
	exe, err := os.Executable()
	if err != nil {
		res.status, res.detail = "other", err.Error()
		return res
	}
	cmd := exec.Command(exe)
	cmd.Env = append(os.Environ(), "VERIF_C06_DEEP="+hx(unit)+":"+strconv.Itoa(n), "GOMAXPROCS=2")
	var out bytes.Buffer
	cmd.Stdout, cmd.Stderr = &out, &out
	t0 := time.Now()
	if err := cmd.Start(); err != nil {
		res.status, res.detail = "other", err.Error()
		return res
	}
	done := make(chan error, 1)
	go func() { done <- cmd.Wait() }()
	select {
	case <-done:
	case <-time.After(budget):
		cmd.Process.Kill()
		<-done
		res.status = "timeout"
		res.d = time.Since(t0)
		return res
	}
	res.d = time.Since(t0)
	o := out.String()
	switch {
	case strings.Contains(o, "C06-DEEP-RETURNED"):
		res.status = "returned"
	case strings.Contains(o, "stack overflow") || strings.Contains(o, "goroutine stack exceeds"):
		res.status = "stack-overflow"
		if i := strings.Index(o, "fatal error"); i >= 0 {
			res.detail = strings.SplitN(o[i:], "\n", 2)[0]
		}
	default:
		res.status = "other"
		if len(o) > 300 {
			o = o[:300]
		}
		res.detail = o
	}
	return res
}

func c06(c *Ctx) {
	c.Rule = "inputs: random bytes, metacharacter soup, the repository's test inputs, grammar-generated programs, byte/token mutations and splices of those, nesting up to depth 300, long lines; each run through all six entry points × a sampled (variant, KeepComments, StopAt, RecoverErrors) option set under recover() with a time budget, then Pos/End of every node, Walk, typedjson.Encode, Print (2 sampled option sets + default), Simplify on every returned tree; " +
		"non-trivial = at least one entry point returned a tree; distinct by (input, options)"
	seeds := repoSeeds()
	thorough := c.Thorough()

	// the deep-nesting probe runs beside the fuzz loop (shard 0 only)
	deepCh := make(chan []c06DeepResult, 1)
	if c.Shard == 0 {
		go func() {
			budget := 150 * time.Second
			probes := []struct {
				unit string
				n    int
			}{{"(", 250000}}
			if thorough {
				budget = 600 * time.Second
				probes = append(probes, struct {
					unit string
					n    int
				}{"$(", 600000}, struct {
					unit string
					n    int
				}{"{ ", 2000000}, struct {
					unit string
					n    int
				}{"(", 20000}, struct {
					unit string
					n    int
				}{"if ", 20000})
			}
			var out []c06DeepResult
			for _, p := range probes {
				out = append(out, c06DeepProbe(p.unit, p.n, budget))
			}
			deepCh <- out
		}()
	} else {
		deepCh <- nil
	}

	type job struct {
		src  string
		kind string
		o    c06Opts
		r    *Rand
	}
	var jobs []job
	mkOpts := func(r *Rand) c06Opts {
		o := c06Opts{lang: allLangs[r.Intn(len(allLangs))], keep: r.Bool()}
		if r.Chance(25) {
			o.stopAt = r.Pick([]string{"$$", "EOF", "}", "fi", "a", "#", "\\", "é", "))", "éé", "€"}) // StopAt panics by contract on words with whitespace or over four bytes
		}
		if r.Chance(40) {
			o.recover = 1 + r.Intn(5)
		}
		return o
	}
	for _, l := range c.CorpusLines() {
		f := strings.Fields(l)
		stop := ""
		if strings.HasPrefix(f[0], "stop:") {
			stop = unhx(strings.TrimPrefix(f[0], "stop:"))
		}
		for _, lang := range allLangs {
			for _, rec := range []int{0, 1, 4} {
				jobs = append(jobs, job{unhx(f[len(f)-1]), "corpus", c06Opts{lang: lang, keep: rec == 1, recover: rec, stopAt: stop, allPrint: true}, c.R.Fork(l)})
			}
		}
	}
	if c.Shard == 0 {
		for _, u := range c06DeepUnits {
			for _, n := range []int{100, 300, 1000} {
				dsrc := strings.Repeat(u, n)
				jobs = append(jobs, job{dsrc, "deep", mkOpts(c.R), c.R.Fork(dsrc)})
			}
		}
	}
	for i := 0; i < c.N; i++ {
		r := c.R
		var src, kind string
		switch k := r.Intn(100); {
		case k < 8:
			kind = "random-bytes"
			b := make([]byte, r.Intn(64))
			for j := range b {
				b[j] = byte(r.Intn(256))
			}
			src = string(b)
		case k < 18:
			kind = "meta-soup"
			var sb strings.Builder
			for j, n := 0, r.Intn(24); j < n; j++ {
				if r.Chance(60) {
					sb.WriteString(c06Toks[r.Intn(len(c06Toks))])
				} else {
					sb.WriteByte(c06Meta[r.Intn(len(c06Meta))])
				}
				if r.Chance(30) {
					sb.WriteString(r.Pick([]string{" ", "a", "x=1", "\n", "1"}))
				}
			}
			src = sb.String()
		case k < 30:
			kind = "repo-seed"
			src = seeds[r.Intn(len(seeds))]
		case k < 38:
			kind = "grammar"
			src = newProgGen(r, r.Bool()).Program(1 + r.Intn(3))
		case k < 66:
			kind = "seed-byte-mutation"
			src = c06Mutate(r, seeds[r.Intn(len(seeds))], seeds)
		case k < 76:
			kind = "seed-token-mutation"
			src = c06TokenMutate(r, seeds[r.Intn(len(seeds))])
		case k < 86:
			kind = "grammar-mutation"
			src = c06Mutate(r, newProgGen(r, true).Program(1+r.Intn(2)), seeds)
		case k < 91:
			kind = "splice"
			a, b := seeds[r.Intn(len(seeds))], seeds[r.Intn(len(seeds))]
			src = a[:r.Intn(len(a)+1)] + b[r.Intn(len(b)+1):]
		case k < 93:
			kind = "deep"
			src = c06Deep(r)
		case k < 94:
			kind = "hdoc-soup"
			src = c06HdocSoup(r)
		case k < 96:
			kind = "lookahead-run"
			src = c06LookAheadInput(r.Intn(len(c06LookAhead)), c06RunLens()[r.Intn(3)], []int{0, 1018, 1020, 1021, 1022, 1023, 1024, 1025, 3 + r.Intn(2100)}[r.Intn(9)])
		case k < 99:
			// RecoverErrors is exercised best by programs that stop in the middle of a construct
			kind = "truncation"
			if r.Bool() {
				src = seeds[r.Intn(len(seeds))]
			} else {
				src = newProgGen(r, true).Program(1 + r.Intn(2))
			}
			src = src[:r.Intn(len(src)+1)]
			if r.Chance(40) {
				src += r.Pick([]string{" a", " a=b", "\n", ";", " )", " }", " x=$((", " $(", " in (", " fi", "\"", "'"})
			}
		default:
			kind = "long-line"
			src = c06LongLine(r)
		}
		o := mkOpts(r)
		if kind == "truncation" && o.recover == 0 {
			o.recover = 1 + r.Intn(5)
		}
		if kind == "hdoc-soup" {
			o.allPrint = true
		}
		if kind == "lookahead-run" && r.Chance(30) {
			o.stopAt = c06StopWords[r.Intn(len(c06StopWords))]
		}
		jobs = append(jobs, job{src, kind, o, r.Fork(fmt.Sprint(i))})
	}
	// the stop word at the edge of the read buffer: every offset around 1024, five word shapes
	nse := 0
	for si, stop := range c06StopWords {
		for k := 1008; k <= 1032; k++ {
			for v := 0; v < 5; v++ {
				nse++
				if nse%c.Shards != c.Shard {
					continue
				}
				src := c06StopEdgeInput(stop, k, v)
				jobs = append(jobs, job{src, "stopat-edge", c06Opts{lang: allLangs[(k+si+v)%len(allLangs)], keep: k%2 == 0, stopAt: stop}, c.R.Fork(src)})
			}
		}
	}
	for k, src := range c06PrinterShapes {
		if k%c.Shards != c.Shard {
			continue
		}
		for _, lang := range allLangs {
			jobs = append(jobs, job{src, "printer-shape", c06Opts{lang: lang, keep: true, allPrint: true}, c.R.Fork(src)})
		}
	}
	// (scheduled last: should one of them hang, little other work is lost)
	// look-ahead runs: every trigger × three run lengths × every variant (the shards share the
	// triggers between them), all six entry points as for every job
	for k := range c06LookAhead {
		if k%c.Shards != c.Shard {
			continue
		}
		for _, n := range c06RunLens() {
			for _, lang := range allLangs {
				src := c06LookAheadInput(k, n, 0)
				o := c06Opts{lang: lang, keep: k%2 == 0}
				if (k+n)%7 == 0 {
					o.recover = 2
				}
				jobs = append(jobs, job{src, "lookahead-run", o, c.R.Fork(src)})
			}
		}
	}
	type res struct {
		fails    []Failure
		tree     bool
		slow     time.Duration
		suspects []int
		ops      []c06Op
		skipped  bool
	}
	workers := 4
	if thorough {
		workers = 2 // 16 shards run side by side
	}
	var leaked atomic.Int64 // goroutines abandoned after a timeout and still running; they may be spinning
	var gaveUp atomic.Bool  // in-process scheduling has been stopped
	runOne := func(j job, e int, budget time.Duration, ops *[]c06Op) (msg string, tree, timedOut bool) {
		type r2 struct {
			msg  string
			tree bool
		}
		done := make(chan r2, 1)
		var localOps []c06Op
		go func() {
			m, t := c06One(e, j.o, j.src, j.r.Fork(c06Entries[e]), &localOps)
			done <- r2{m, t}
		}()
		select {
		case x := <-done:
			if ops != nil {
				*ops = append(*ops, localOps...)
			}
			return x.msg, x.tree, false
		case <-time.After(budget):
			// abandoned, not stopped: it counts as leaked until (if ever) it finishes
			leaked.Add(1)
			go func() {
				<-done
				leaked.Add(-1)
			}()
			return "", false, true
		}
	}
	var opsLeft atomic.Int64 // tie lines are sampled: at most this many per shard
	opsLeft.Store(60000)
	results := parallelMap(len(jobs), workers, func(i int) res {
		j := jobs[i]
		var out res
		for e := range c06Entries {
			if len(out.suspects) > 0 {
				// this input has already run out of time once: its other entry points would likely do
				// the same and leave one more unstoppable goroutine behind; the child-process phase
				// takes them over
				out.suspects = append(out.suspects, e)
				continue
			}
			if gaveUp.Load() {
				out.skipped = true
				break
			}
			if leaked.Load() >= 6 {
				// too many abandoned goroutines are still running.  On a loaded machine they finish
				// eventually (the counter drops again); goroutines that spin never do: wait a while,
				// then schedule no more in-process work
				for w := 0; w < 90 && leaked.Load() >= 6 && !gaveUp.Load(); w++ {
					time.Sleep(time.Second)
				}
				if leaked.Load() >= 6 {
					gaveUp.Store(true) // decided once: the other workers do not wait again
					out.skipped = true
					break
				}
			}
			t0 := time.Now()
			budget := 10*time.Second + 4*time.Duration(len(j.src))*time.Millisecond
			if thorough {
				budget *= 3 // 16 shards share the machine
			}
			var opsp *[]c06Op
			if opsLeft.Load() > 0 {
				opsp = &out.ops
			}
			before := len(out.ops)
			msg, tree, to := runOne(j, e, budget, opsp)
			opsLeft.Add(-int64(len(out.ops) - before))
			if to {
				// possibly only machine load: re-run in a child process after the parallel phase
				out.suspects = append(out.suspects, e)
			} else if msg != "" {
				out.fails = append(out.fails, Failure{Witness: fmt.Sprintf("%s %s %s", c06Entries[e], j.o, hx(j.src)), What: msg})
			}
			out.tree = out.tree || tree
			if d := time.Since(t0); d > out.slow {
				out.slow = d
			}
		}
		return out
	})
	// A case that ran out of its wall-clock budget is only a suspect (the machine may be loaded).
	// It is run again in a child process, which can be killed, and judged by the CPU time it burns:
	// 10 s + 2 ms per input byte of CPU without returning is a hang.  Inputs are examined four at a
	// time; once one entry point of an input is confirmed to hang, its other entry points are not
	// examined (one witness per input).
	var suspectInputs []int
	for i := range results {
		if len(results[i].suspects) > 0 {
			suspectInputs = append(suspectInputs, i)
		}
	}
	type childRes struct {
		fails []Failure
		hist  map[string]int
	}
	childOut := parallelMap(len(suspectInputs), 4, func(k int) childRes {
		i := suspectInputs[k]
		j := jobs[i]
		out := childRes{hist: map[string]int{}}
		for _, e := range results[i].suspects {
			out.hist["suspect-rerun-in-child"]++
			w := fmt.Sprintf("%s %s %s", c06Entries[e], j.o, hx(j.src))
			cpuBudget := 10 + 0.002*float64(len(j.src))
			status, msg, cpu := c06RunChild(e, j.o, c06Entries[e], j.src, cpuBudget, 10*time.Minute)
			out.hist["suspect-child:"+status]++
			switch status {
			case "hang":
				out.fails = append(out.fails, Failure{Witness: w, What: fmt.Sprintf("did not return: a child process running only this case was killed after %.0f s of CPU time (hang)", cpu)})
				return out
			case "returned":
				if msg != "" {
					out.fails = append(out.fails, Failure{Witness: w, What: msg})
				}
			case "other":
				if msg != "" && !strings.Contains(msg, "stack overflow") {
					out.fails = append(out.fails, Failure{Witness: w, What: msg})
				}
			}
		}
		return out
	})
	for k, co := range childOut {
		results[suspectInputs[k]].fails = append(results[suspectInputs[k]].fails, co.fails...)
		for h, n := range co.hist {
			c.Hist[h] += n
		}
	}
	var slowest time.Duration
	slowKinds := map[string]time.Duration{}
	for i, r := range results {
		if r.skipped {
			c.Hist["skipped-while-6-abandoned-goroutines-kept-running"]++
		}
		slowKinds[jobs[i].kind] += r.slow
		j := jobs[i]
		c.Case(j.o.String()+"\x00"+j.src, r.tree, "lang="+langName(j.o.lang), "kind="+j.kind, fmt.Sprintf("recover=%v", j.o.recover > 0),
			fmt.Sprintf("stopAt=%v", j.o.stopAt != ""), fmt.Sprintf("keep=%v", j.o.keep), fmt.Sprintf("len<%d", bucket(len(j.src))))
		for _, f := range r.fails {
			// minimise panics (not hangs) before reporting
			w, what := f.Witness, f.What
			if cl := c06Class(j.o, j.src, f.What); cl != "" && c06HasFailure(c, cl) {
				continue
			}
			if !strings.Contains(what, "did not return") && len(j.src) > 8 {
				parts := strings.Fields(w)
				e := 0
				for k, n := range c06Entries {
					if n == parts[0] {
						e = k
					}
				}
				head := strings.SplitN(what, ":", 2)[0]
				min := c06Minimize(j.src, func(s string) bool {
					j2 := j
					j2.src = s
					m, _, to := runOne(j2, e, 10*time.Second, nil)
					return !to && strings.HasPrefix(m, head)
				})
				if min != j.src {
					j2 := j
					j2.src = min
					if m, _, to := runOne(j2, e, 10*time.Second, nil); !to && m != "" {
						w, what = fmt.Sprintf("%s %s %s", c06Entries[e], j.o, hx(min)), m+fmt.Sprintf(" [minimised from a %d-byte input]", len(j.src))
					}
				}
			}
			if cl := c06Class(j.o, j.src, f.What); cl != "" {
				what += " [e.g. " + w + "]"
				w = cl
			}
			c.Fail(w, what)
		}
		for _, o := range r.ops {
			if c.lines < 60000 {
				c.Op(o.op, o.impl)
			}
		}
		if r.slow > slowest {
			slowest = r.slow
			c.Extra["slowest_case"] = fmt.Sprintf("kind=%s len=%d %s", j.kind, len(j.src), j.o)
		}
	}
	c.Extra["slowest_case_ms"] = slowest.Milliseconds()
	for k, d := range slowKinds {
		c.Extra["slowest-entry-sum-ms kind="+k] = d.Milliseconds()
	}

	// ---- tie on hand-built nodes of every type with list fields: all-empty and one-non-empty ----
	if c.Shard == 0 {
		for _, t := range allNodeStructs() {
			n := reflect.New(t).Interface().(syntax.Node)
			ty, lens, slots := c06ListLens(n)
			if len(slots) == 0 || ty == "File" {
				continue
			}
			// all list fields empty: Pos/End may also fail on nil pointer fields, which the WF
			// predicate does not speak about — only types whose methods do not touch pointer fields
			switch ty {
			case "Word", "CallExpr", "CaseItem", "LetClause", "BraceExp":
				c.Op(strings.TrimSpace("wf "+ty+" "+strings.Join(lens, " ")), fmt.Sprint(c06PosEnd(n) == ""))
			}
		}
	}

	// ---- linearity probe: time per byte must not grow with size ----
	if c.Shard == 0 {
		units := []string{"echo foo bar \"$a\" 'b' $(c) ${d:-e}; ", "if a; then b; fi\n", "a | b && c || d &\n", "x=$((1+2*3)); [[ a == b ]]; f() { :; }\n",
			"cat <<E\nbody $x\nE\n", "# comment line\n", "a=(1 2 3) b[1]=x\n", "case x in a|b) c ;; *) d ;; esac\n"}
		single := []struct{ name, pre, unit, post string }{
			{"one-long-word", "echo ", "a", "\n"}, {"one-long-dquote", "echo \"", "a $b ", "\"\n"}, {"one-long-pipeline", "", "a | ", "a\n"},
			{"one-long-heredoc", "cat <<E\n", "line $x\n", "E\n"}, {"one-long-arith", "((", "1+", "1))\n"}, {"one-long-array", "a=(", "x ", ")\n"},
		}
		type probe struct{ name, small, big string }
		var probes []probe
		const smallSize, bigSize = 256 << 10, 1 << 20
		for _, u := range units {
			probes = append(probes, probe{"repeat " + strconv.Quote(u), strings.Repeat(u, smallSize/len(u)), strings.Repeat(u, bigSize/len(u))})
		}
		for _, s := range single {
			probes = append(probes, probe{s.name, s.pre + strings.Repeat(s.unit, smallSize/len(s.unit)) + s.post, s.pre + strings.Repeat(s.unit, bigSize/len(s.unit)) + s.post})
		}
		if !thorough {
			probes = append(probes[:3], probes[8:11]...)
		}
		measure := func(src string, reps int) (float64, string) {
			var best time.Duration
			for k := 0; k < reps; k++ {
				t0 := time.Now()
				_, err, pn := parseIn(src, syntax.LangBash)
				d := time.Since(t0)
				if pn != "" || err != nil {
					return 0, fmt.Sprintf("%v %s", err, pn)
				}
				if k == 0 || d < best {
					best = d
				}
			}
			return float64(best.Nanoseconds()) / float64(len(src)), ""
		}
		var sb bytes.Buffer
		for _, p := range probes {
			a, e1 := measure(p.small, 3)
			b, e2 := measure(p.big, 3)
			if e1 != "" || e2 != "" {
				c.Fail("linear "+p.name, "valid input failed to parse: "+e1+e2)
				continue
			}
			ratio := b / a
			// a suspicious ratio is measured again, alone, before it is believed
			for k := 0; k < 3 && ratio > 3; k++ {
				c.Hist["linearity-remeasured"]++
				a, _ = measure(p.small, 5)
				b, _ = measure(p.big, 5)
				ratio = b / a
			}
			fmt.Fprintf(&sb, "%s: %.0f→%.0f ns/B at 256KiB→1MiB (x%.2f); ", p.name, a, b, ratio)
			c.Hist["linearity-probes"]++
			if ratio > 3 {
				c.Fail("linear "+p.name, fmt.Sprintf("time per byte grows with input size: %.0f ns/byte at 256 KiB, %.0f ns/byte at 1 MiB (x%.2f, measured 4 times)", a, b, ratio))
			}
		}
		c.Extra["linearity"] = sb.String()
	}

	// ---- deep-nesting probe results ----
	for _, d := range <-deepCh {
		c.Hist["deep-probe:"+d.status]++
		c.Extra[fmt.Sprintf("deep %q x %d", d.unit, d.n)] = fmt.Sprintf("%s in %v %s", d.status, d.d.Round(time.Millisecond), d.detail)
		if d.status == "stack-overflow" {
			c.Fail("deep-nesting-class stack-overflow", fmt.Sprintf("Parse of %q repeated %d times (%d bytes) kills the process: %s — a Go stack overflow is a fatal error that recover() cannot intercept", d.unit, d.n, d.n*len(d.unit), d.detail))
		}
	}
}
