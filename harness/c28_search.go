//go:build c28 || all

package main

// C28 search leg, part 2: generators (builtins × argument vectors, grammar-generated and mutated
// programs in all variants, New/Params option lists) and the verdict on each run.

import (
	"fmt"
	"go/ast"
	"go/parser"
	"go/token"
	"os"
	"path/filepath"
	"regexp"
	"strconv"
	"strings"
	"time"

)

// ---------------------------------------------------------------------------------------------
// seeds: the `in` strings of runTests / runTestsUnix in interp/interp_test.go

func c28Seeds() []string {
	repo := os.Getenv("VERIF_REPO")
	if repo == "" {
		repo = "/repo"
	}
	fset := token.NewFileSet()
	f, err := parser.ParseFile(fset, filepath.Join(repo, "interp", "interp_test.go"), nil, 0)
	if err != nil {
		return nil
	}
	var lit func(e ast.Expr) (string, bool)
	lit = func(e ast.Expr) (string, bool) {
		switch e := e.(type) {
		case *ast.BasicLit:
			if e.Kind == token.STRING {
				s, err := strconv.Unquote(e.Value)
				return s, err == nil
			}
		case *ast.BinaryExpr:
			if e.Op == token.ADD {
				a, ok1 := lit(e.X)
				b, ok2 := lit(e.Y)
				return a + b, ok1 && ok2
			}
		case *ast.ParenExpr:
			return lit(e.X)
		}
		return "", false
	}
	var seeds []string
	for _, d := range f.Decls {
		gd, ok := d.(*ast.GenDecl)
		if !ok {
			continue
		}
		for _, sp := range gd.Specs {
			vs, ok := sp.(*ast.ValueSpec)
			if !ok || len(vs.Names) != 1 || len(vs.Values) != 1 {
				continue
			}
			if n := vs.Names[0].Name; n != "runTests" && n != "runTestsUnix" {
				continue
			}
			cl, ok := vs.Values[0].(*ast.CompositeLit)
			if !ok {
				continue
			}
			for _, el := range cl.Elts {
				ecl, ok := el.(*ast.CompositeLit)
				if !ok || len(ecl.Elts) == 0 {
					continue
				}
				first := ecl.Elts[0]
				if kv, ok := first.(*ast.KeyValueExpr); ok {
					first = kv.Value
				}
				if s, ok := lit(first); ok && len(s) < 2000 {
					seeds = append(seeds, s)
				}
			}
		}
	}
	return seeds
}

// ---------------------------------------------------------------------------------------------
// (1) builtins × argument vectors

var c28Builtins = []string{
	"alias", "bg", "cd", "command", "false", "fc", "fg", "getopts", "hash", "jobs", "kill", "newgrp", "pwd", "read",
	"true", "umask", "unalias", "wait", "break", ":", "continue", ".", "eval", "exec", "exit", "export", "readonly",
	"return", "set", "shift", "times", "trap", "unset", "source", "bind", "builtin", "caller", "compgen", "complete",
	"compopt", "declare", "typeset", "dirs", "disown", "echo", "enable", "history", "help", "let", "local", "logout",
	"mapfile", "readarray", "popd", "printf", "pushd", "shopt", "suspend", "test", "[", "type", "ulimit", "nameref",
}

// argument pool of the property statement: negative/huge numbers, "", "-", "--", odd flags, names…
var c28SearchArgs = []string{
	"''", "-", "--", "-x", "+x", "-n", "-p", "-a", "-A", "-r", "-t", "-d", "-s", "-u", "-o", "+o", "-v", "-f", "-P",
	"-L", "-e", "-E", "-abc", "-xyz", "-é", "---", "-+", "+-", "--help", "-n1", "-d ''", "-p ''", "-t 0", "x", "y", "arr", "m",
	"a[1]", "'a[1]'", "arr[0]", "'arr[@]'", "m[k]", "$'\\n'", "$'\\t'", "' '", "\"$@\"", "$x", "\"$x\"", "$*", "x=1",
	"arr=(1 2)", "x+=1", "'x=a b'", "=", "'='", "1", "0", "EXIT", "ERR", "INT", "'echo hi'", "abc", "a:", ":a", "ab:c",
	"g1", "g0", "g99", "file", "sub", "nofile", ".", "..", "/", "~", "'*'", "'?'", "'['", "]", "'('", "')'", "!", "-a", "-o",
	"-eq", "-lt", "=~", "==", "-z", "-f", "%s", "%d", "%5s", "%-5d", "%c", "%b", "%q", "%x", "%%", "%", "'%*d'", "'\\x'",
	"'\\0'", "'a\\0b\\n'", "'\\u00e9'", "pipefail", "errexit", "extglob", "nosuch", "echo", "shift", "f", "'a b'", "世界",
}

func c28SearchArg(r *Rand, negOK bool) string {
	if r.Chance(30) {
		s := c28Number(r, negOK)
		if s == "" {
			return "''"
		}
		return sq(s)
	}
	return r.Pick(c28SearchArgs)
}

func c28SearchVector(r *Rand, negOK bool) string {
	n := r.Intn(6)
	parts := make([]string, n)
	for i := range parts {
		parts[i] = c28SearchArg(r, negOK)
	}
	return strings.Join(parts, " ")
}

// getopts call sequences with changing argument vectors and OPTIND values (no exclusion any more:
// a stale rune cursor is repaired since fix 77cabce).
func c28GetoptsSeq(r *Rand) string {
	var sb strings.Builder
	params := c28GetoptsArgs(r)
	sb.WriteString("set --")
	for _, p := range params {
		sb.WriteString(" " + sq(p))
	}
	sb.WriteString("\n")
	n := 2 + r.Intn(5)
	for k := 0; k < n; k++ {
		optstr := c28Optstr(r)
		var args []string
		if r.Chance(50) {
			args = c28GetoptsArgs(r)
		}
		if r.Chance(25) {
			fmt.Fprintf(&sb, "OPTIND=%d\n", []int{0, 1, 2, 3, -1, 99}[r.Intn(6)])
		}
		if r.Chance(15) {
			sb.WriteString("set -- " + sq(c28GetoptsArg(r)) + "\n")
		}
		sb.WriteString("getopts " + sq(optstr) + " opt")
		for _, a := range args {
			sb.WriteString(" " + sq(a))
		}
		sb.WriteString("; echo $? $opt $OPTARG $OPTIND\n")
	}
	return sb.String()
}

// (1b) array sequences: multi-step programs on ONE variable that mix every array-writing builtin
// and assignment form with every keyed reader, so that a writer leaving List and Indexes of the
// variable inconsistent is hit by the next reader.  Input for read/mapfile comes from here-strings,
// here-documents and the scratch file, with varying field / line counts.
func c28ArraySeq(r *Rand) string {
	v := "a"
	words := func(n int) string {
		ws := make([]string, n)
		for i := range ws {
			ws[i] = r.Pick([]string{"p", "q", "r", "s", "x y", "", "1", "-n", "*", "é"})
			if strings.ContainsAny(ws[i], " *") || ws[i] == "" {
				ws[i] = sq(ws[i])
			}
		}
		return strings.Join(ws, " ")
	}
	plain := func(n int, sep string) string { // unquoted input text for read / mapfile
		ws := make([]string, n)
		for i := range ws {
			ws[i] = r.Pick([]string{"p", "q", "r", "s", "t", "u", "1", "2"})
		}
		return strings.Join(ws, sep)
	}
	key := func() string {
		return r.Pick([]string{"0", "1", "2", "3", "4", "5", "7", "9", "10", "-1", "-2", "-9", "1+1", "i", "${#" + v + "[@]}", "99"})
	}
	sparse := func() string {
		n := 1 + r.Intn(4)
		k := r.Intn(3)
		var ps []string
		for i := 0; i < n; i++ {
			ps = append(ps, fmt.Sprintf("[%d]=%s", k, r.Pick([]string{"x", "y", "z", "w"})))
			k += 1 + r.Intn(4)
		}
		if r.Chance(20) {
			ps = append(ps, "t") // positional element after a keyed one
		}
		return strings.Join(ps, " ")
	}
	ref := v
	writer := func() string {
		t := ref
		switch r.Intn(30) {
		case 0:
			return t + "=(" + words(r.Intn(5)) + ")"
		case 1, 2:
			return t + "=(" + sparse() + ")"
		case 3:
			return t + "+=(" + words(1+r.Intn(3)) + ")"
		case 4:
			return t + "+=(" + sparse() + ")"
		case 5:
			return t + "[" + key() + "]=" + r.Pick([]string{"v", "''", "w"})
		case 6:
			return t + "[" + key() + "]+=z"
		case 7, 8:
			return "unset '" + t + "[" + key() + "]'"
		case 9:
			return "unset " + t
		case 10:
			return "declare -a " + t
		case 11:
			return "declare -a " + t + "=(" + r.Pick([]string{words(r.Intn(4)), sparse()}) + ")"
		case 12, 13, 14:
			return r.Pick([]string{"read -a ", "read -ra ", "IFS=: read -a ", "read -r -a "}) + t + " <<<" + sq(plain(r.Intn(6), r.Pick([]string{" ", " ", ":", "  "})))
		case 15:
			return "read -a " + t + " <<EOF\n" + plain(r.Intn(5), " ") + "\nEOF"
		case 16:
			return "read -a " + t + " <file"
		case 17, 18, 19:
			return r.Pick([]string{"mapfile -t ", "mapfile ", "readarray -t ", "readarray ", "mapfile -t -d : "}) + t + " <<<" + "$'" + plain(r.Intn(5), r.Pick([]string{"\\n", "\\n", ":"})) + "'"
		case 20:
			return "mapfile -t " + t + " <<EOF\n" + plain(r.Intn(4), "\n") + "\nEOF"
		case 21:
			return r.Pick([]string{"mapfile -t ", "readarray "}) + t + " <" + r.Pick([]string{"file", "/dev/null", "nofile"})
		case 22:
			return t + "=(\"${" + t + "[@]}\")"
		case 23:
			return t + "=(\"${" + t + "[@]:" + r.Pick([]string{"1", "0:1", " -1", "2:5"}) + "}\")"
		case 24:
			return t + "=" + r.Pick([]string{"str", "''", "5"})
		case 25:
			return ": ${" + t + "[" + key() + "]:=d}"
		case 26:
			return "echo " + plain(1+r.Intn(4), " ") + " | { read -a " + t + "; declare -p " + t + "; }"
		case 27:
			return "read -a " + t + " < <(echo " + plain(r.Intn(4), " ") + ")"
		case 28:
			return r.Pick([]string{"export ", "declare -x ", "declare -r ", "declare -i ", "declare +x "}) + t
		default:
			return "(( i = " + r.Pick([]string{"0", "1", "2", "5"}) + " ))"
		}
	}
	reader := func() string {
		t := ref
		switch r.Intn(20) {
		case 0, 1, 2:
			return "echo \"${!" + t + "[@]}\""
		case 3, 4:
			return "echo \"[${" + t + "[" + key() + "]}]\""
		case 5:
			return "echo \"${" + t + "[@]:" + r.Pick([]string{"0", "1", "2", " -1", " -2", "5", "1:1", "0:2", "2:9", " -3:2"}) + "}\""
		case 6:
			return "echo \"${#" + t + "[@]} ${#" + t + "[" + key() + "]} ${#" + t + "}\""
		case 7, 8, 9:
			return "declare -p " + t
		case 10:
			return "[[ -v " + t + "[" + key() + "] ]]; echo $?"
		case 11:
			return "test -v '" + t + "[" + key() + "]'; echo $?"
		case 12:
			return "printf '%s,' \"${" + t + "[@]}\"; echo"
		case 13:
			return "echo \"${" + t + "[*]}\" \"${" + t + "[@]/p/P}\" \"${" + t + "[@]#q}\" \"${" + t + "[@]^^}\""
		case 14:
			return "for k in \"${!" + t + "[@]}\"; do echo \"$k=${" + t + "[k]}\"; done"
		case 15:
			return "echo ${" + t + "[@]@Q} ${" + t + "@a} \"${" + t + "[@]@A}\""
		case 16:
			return "set -- \"${" + t + "[@]}\"; echo $# \"${@: -1}\""
		case 17:
			return "( echo \"${!" + t + "[@]}\"; declare -p " + t + " )"
		case 18:
			return "echo \"$(declare -p " + t + ") ${" + t + "[-1]}\""
		default:
			return "echo \"${" + t + "}\" \"${" + t + "[0]}\" \"${!" + t + "[*]}\""
		}
	}
	var sb strings.Builder
	mode := r.Intn(10)
	switch mode {
	case 0: // through a nameref
		sb.WriteString("declare -n ref=a\n")
	case 1: // a local array in a function (closed below)
		sb.WriteString("f() {\nlocal -a a" + r.Pick([]string{"", "=(1 2 3)", "=([3]=x)"}) + "\n")
	}
	// always start from an array that may be sparse
	sb.WriteString(r.Pick([]string{"a=(" + sparse() + ")", "a=(x y z); unset 'a[1]'", "a=(" + words(1+r.Intn(4)) + ")", "a=([2]=x [5]=y)", "declare -a a", "a=(x y z w); unset 'a[0]' 'a[2]'"}) + "\n")
	n := 3 + r.Intn(7)
	for k := 0; k < n; k++ {
		if mode == 0 {
			ref = r.Pick([]string{"a", "ref", "ref"})
		}
		if k%2 == 0 || r.Chance(30) {
			sb.WriteString(writer() + "\n")
		}
		sb.WriteString(reader() + "\n")
		if r.Chance(40) {
			sb.WriteString(reader() + "\n")
		}
	}
	if mode == 1 {
		sb.WriteString("}\nf; f\n")
	}
	return sb.String()
}

// (1c) arithmetic operators: every binary and assignment operator of the arithmetic grammar with
// boundary operands (negative, 0, 1, 63, 64, 65, huge, INT64_MIN/MAX; as literals and through
// variables) in every arithmetic context: $(( )), (( )), $[ ], let, for (( )), array subscripts
// (read, write, unset), ${s:o:l} offsets and lengths, [[ -eq ]] operands, declare -i.  The operator
// is chosen by the program's ordinal so that each one is covered evenly; one program holds several
// operand pairs of that operator.
var c28BinOps = []string{"+", "-", "*", "/", "%", "**", "<<", ">>", "&", "|", "^", "<", ">", "<=", ">=", "==", "!=", "&&", "||", ","}
var c28AsgOps = []string{"=", "+=", "-=", "*=", "/=", "%=", "<<=", ">>=", "&=", "|=", "^="}
var c28Bounds = []string{"0", "1", "-1", "2", "-2", "-5", "7", "63", "64", "65", "-63", "-64", "-65", "127", "128", "-128",
	"2147483647", "-2147483648", "4294967296", "9223372036854775807", "-9223372036854775807", "-9223372036854775808",
	"9223372036854775808", "99999999999999999999", "0x7fffffffffffffff", "-0x40", "077", "64#_"}

func c28ArithProgram(r *Rand, ord int) string {
	nops := len(c28BinOps) + len(c28AsgOps)
	k := ord % nops
	var sb strings.Builder
	sb.WriteString("arr=(1 2 3); s=abcdef\n")
	operand := func(name string) string { // literal, or a variable holding the boundary value
		v := r.Pick(c28Bounds)
		if r.Chance(40) {
			fmt.Fprintf(&sb, "%s=%s\n", name, v)
			if r.Chance(30) {
				return "$" + name
			}
			return name
		}
		if strings.HasPrefix(v, "-") && r.Chance(50) {
			return "(" + v + ")"
		}
		return v
	}
	n := 5 + r.Intn(5)
	for i := 0; i < n; i++ {
		var e string
		if k < len(c28BinOps) {
			op := c28BinOps[k]
			x, y := operand("p"), operand("q")
			sp := r.Pick([]string{"", " "})
			e = x + sp + op + sp + y
			if op == "-" || op == "+" {
				e = x + " " + op + " " + y // avoid forming -- / ++
			}
		} else {
			op := c28AsgOps[k-len(c28BinOps)]
			fmt.Fprintf(&sb, "x=%s\n", r.Pick(c28Bounds))
			e = "x" + op + operand("q")
		}
		switch r.Intn(14) {
		case 0, 1, 2:
			sb.WriteString("echo $((" + e + "))\n")
		case 3:
			sb.WriteString("((" + e + ")); echo $?\n")
		case 4:
			sb.WriteString("echo $[" + e + "]\n")
		case 5:
			sb.WriteString("let " + sq(e) + "; echo $? $x\n")
		case 6:
			sb.WriteString("for ((i=0; i<1; i++, " + e + ")); do echo $i; done\n")
		case 7:
			sb.WriteString("for ((i=" + e + "; i<1 && i>-1; i++)); do echo $i; break; done\n")
		case 8:
			sb.WriteString("echo \"[${arr[" + e + "]}]\"\n")
		case 9:
			sb.WriteString("arr[" + e + "]=v; echo ${#arr[@]}; unset 'arr[" + e + "]'\n")
		case 10:
			sb.WriteString("echo \"${s:" + e + "}\" \"${s:1:" + e + "}\" \"${arr[@]:" + e + "}\"\n")
		case 11:
			sb.WriteString("[[ " + sq(e) + " -eq 0 ]]; echo $?; [ $((" + e + ")) -gt 1 ]; echo $?\n")
		case 12:
			sb.WriteString("declare -i z; z=" + sq(e) + "; echo $z\n")
		default:
			sb.WriteString("echo $(( (" + e + ") ? (" + e + ") : -(" + e + ") ))\n")
		}
	}
	return sb.String()
}

// (1d) nameref states × every assignment / expansion form.  States: cycles of length 1..3, self
// references, chains (short, and 99..150 long), dangling references, references to scalars, indexed
// and associative arrays, readonly and integer variables, to array elements and to invalid names.
// Forms: every way the interpreter writes or reads a variable by name.
func c28NamerefSeq(r *Rand) string {
	var sb strings.Builder
	v := "a"
	switch r.Intn(15) {
	case 0:
		sb.WriteString("declare -n a=a\n")
	case 1:
		sb.WriteString("declare -n a=b b=a\n")
	case 2:
		sb.WriteString("declare -n a=b b=c c=a\n")
	case 3:
		sb.WriteString("declare -n a=b; declare -n b=c; declare -n c=b\n")
	case 4:
		sb.WriteString("declare -n a=nosuch\n")
	case 5:
		sb.WriteString("t=scalar; declare -n a=b b=t\n")
	case 6:
		sb.WriteString("t=(1 2 3); declare -n a=t\n")
	case 7:
		sb.WriteString("declare -A t=([k]=v); declare -n a=b b=t\n")
	case 8:
		sb.WriteString("readonly t=5; declare -n a=t\n")
	case 9:
		sb.WriteString("declare -i t=5; declare -n a=t\n")
	case 10:
		sb.WriteString("t=(1 2 3); declare -n a='t[1]'\n")
	case 11:
		k := []int{98, 99, 100, 101, 150}[r.Intn(5)]
		sb.WriteString("declare -n a=n0\n")
		fmt.Fprintf(&sb, "for ((i=0; i<%d; i++)); do declare -n n$i=n$((i+1)); done\n", k)
		sb.WriteString(r.Pick([]string{"", fmt.Sprintf("n%d=(1 2)\n", k), fmt.Sprintf("declare -n n%d=n0\n", k)}))
	case 12:
		sb.WriteString("f() { local -n r=$1; " + r.Pick([]string{"r+=(1 2)", "r=(1)", "r[2]=x", "r=5", "echo \"${r[@]}\" ${!r}", "unset r", "read -a r <<<'p q'", "local -n s=r; s+=(3)"}) + "; }\ndeclare -n p=q q=p\nf " + r.Pick([]string{"p", "q", "r", "nosuch", "f", "''", "1x"}) + "\n")
		v = "p"
	case 13:
		sb.WriteString(r.Pick([]string{"declare -n a=", "declare -n b=; declare -n a=b", "declare -n a=''; declare -n c=a"}) + "\n") // empty targets
	default:
		sb.WriteString("declare -n a; declare -n b=a; a=b\n")
	}
	forms := []string{
		"V+=(x y)", "V+=([3]=x)", "V=(x y)", "V=()", "V[1]=v", "V[1]+=v", "V+=s", "V=s", "V=", "unset V", "unset -n V", "unset 'V[0]'",
		"declare -a V", "declare -A V", "declare -i V", "declare -n V", "declare -r V", "declare -x V", "declare +n V", "declare -p V",
		"declare -a V=(1 2)", "declare -A V=([k]=1)", "declare -n V=V", "declare -n V=b", "declare V+=(z)", "export V", "export V=1", "readonly V",
		"local V", "f2() { local -n V=V; V+=(1); }; f2", "f2() { local V=1; local -n w=V; w+=(2); echo ${w[@]}; }; f2",
		"read V <<<'p q'", "read -a V <<<'p q r'", "read -r V w <<<'p q'", "mapfile -t V <<<$'l1\\nl2'", "readarray V <file", "printf -v V %s x",
		"getopts ab V -a", "getopts ab o -a; echo $OPTIND", "for V in 1 2; do :; done", "for ((V=0; V<2; V++)); do :; done", "select V in x; do break; done <<<1",
		"echo \"${!V}\"", "echo \"${!V[@]}\"", "echo \"${V[@]}\" \"${#V[@]}\" \"${V[0]}\" \"$V\"", "[[ -v V ]]; echo $?", "[[ -R V ]]; echo $?", "test -v V; echo $?",
		"echo \"${V:-d}\" \"${V:=d}\" \"${V:+s}\"", "echo ${V@a} ${V@A} ${V@Q}", "(( V++ )); echo $?", "(( V += 2 )); let V=1", "echo $(( V + 1 )) $(( V[0] ))",
		": ${V[2]:=d}", "V=1 true", "V=1 eval 'echo $V'", "V+=(1) true", "echo \"${V[@]:1}\" \"${V/x/y}\" \"${V^^}\"", "( V+=(s); declare -p V )", "V+=(q) | true", "{ V+=(q); } & wait",
		"x=$(V+=(1); echo \"${V[@]}\")", "eval 'V+=(e)'", "trap 'V+=(t)' EXIT", "alias V=echo", "type V", "command -v V", "set -u; echo \"$V\"", "set -a; V=1", "shopt -s nullglob; V=(*)",
		"declare -n w=V; w+=(1); echo ${!w}", "declare -n w=V; unset w; declare -p V", "typeset -n V2=V; V2+=(1)", "nameref V3=V; V3[0]=1",
	}
	n := 3 + r.Intn(6)
	for k := 0; k < n; k++ {
		t := v
		if r.Chance(30) {
			t = r.Pick([]string{"a", "b", "c", "t", "p", "q"})
		}
		sb.WriteString(strings.ReplaceAll(r.Pick(forms), "V", t) + "\n")
	}
	return sb.String()
}

func c28BuiltinProgram(r *Rand) (script string, tags []string) {
	name := r.Pick(c28Builtins)
	if r.Chance(12) {
		name = r.Pick([]string{"shift", "getopts", "pushd", "popd", "break", "continue", "wait", "read", "printf", "mapfile", "trap", "type", "command", "declare", "exit", "return", "set"})
	}
	if name == "getopts" && r.Chance(60) {
		return c28GetoptsSeq(r), []string{"builtin:getopts-seq"}
	}
	one := func() string { return name + " " + c28SearchVector(r, true) }
	cmd := one()
	if r.Chance(35) { // repeated calls with changing arguments
		k := 1 + r.Intn(3)
		for i := 0; i < k; i++ {
			if r.Chance(30) {
				cmd += "; set -- " + c28SearchVector(r, true)
			}
			cmd += "; " + one()
		}
	}
	pre := ""
	if r.Chance(60) {
		pre = "set -- " + c28SearchVector(r, true) + "; "
	}
	if r.Chance(30) {
		pre += r.Pick([]string{"x=5; ", "arr=(a b c); ", "declare -A m=([k]=v); ", "x='a b'; ", "unset x; ", "f() { :; }; ", "shopt -s extglob; ", "set -u; ", "set -e; ", "alias ll=echo; "})
	}
	wrap := r.Intn(12)
	switch wrap {
	case 0:
		script = pre + "f() { " + cmd + "; echo $?; }; f " + c28SearchVector(r, true)
	case 1:
		script = pre + "for i in 1 2 3; do " + cmd + "; echo $i; done"
	case 2:
		script = pre + "( " + cmd + " ); echo $?"
	case 3:
		script = pre + cmd + " | " + r.Pick([]string{"read y", "true", "mapfile z", ":"})
	case 4:
		script = pre + "{ " + cmd + "; } & wait"
	case 5:
		script = pre + "y=$(" + cmd + "); echo \"$y\""
	case 6:
		script = pre + "eval " + sq(cmd)
	case 7:
		script = pre + r.Pick([]string{"command ", "builtin ", "command -v ", "type ", "time "}) + cmd
	case 8:
		script = pre + "while true; do " + cmd + "; break; done; until false; do " + cmd + "; break 2; done"
	case 9:
		script = pre + cmd + " <file; " + cmd + " <<<'a b c'; " + cmd + " <<EOF\nl1\nl2\nEOF\n"
	default:
		script = pre + cmd + "; echo $?"
	}
	return script, []string{"builtin:" + name, fmt.Sprintf("wrap=%d", wrap)}
}

// ---------------------------------------------------------------------------------------------
// (2a) grammar-generated programs

type c28Gen struct {
	r     *Rand
	depth int
	lang  string
}

var c28Names = []string{"a", "b", "x", "y", "arr", "n", "i", "s"}

func (g *c28Gen) name() string { return g.r.Pick(c28Names) }

func (g *c28Gen) num() string {
	return g.r.Pick([]string{"0", "1", "2", "3", "7", "-1", "-5", "63", "64", "65", "-64", "10", "08", "0x1f", "2#101", "64#_", "9223372036854775807", "-9223372036854775808", "99999999999999999999"})
}

// arith generates an arithmetic expression; `++ -- = op=` are applied to plain names and to `a[i]`,
// prefix and postfix together (`++x++`) included (errors, not panics, since fix fd86341).
func (g *c28Gen) arith(d int) string {
	r := g.r
	if d <= 0 || r.Chance(35) {
		switch r.Intn(6) {
		case 0:
			return g.num()
		case 1:
			return g.name()
		case 2:
			return "arr[" + g.num() + "]"
		case 3:
			return "$" + g.name()
		case 4:
			return "${#" + g.name() + "}"
		default:
			return g.num()
		}
	}
	switch r.Intn(11) {
	case 0:
		return g.arith(d-1) + r.Pick([]string{"+", "-", "*", "/", "%", "**", "<<", ">>", "&", "|", "^", "<", ">", "<=", ">=", "==", "!=", "&&", "||", ","}) + g.arith(d-1)
	case 1:
		return "(" + g.arith(d-1) + ")"
	case 2:
		return r.Pick([]string{"!", "~", "-", "+"}) + g.arith(d-1)
	case 3:
		return g.lvalue() + r.Pick([]string{"++", "--"})
	case 4:
		return r.Pick([]string{"++", "--"}) + g.lvalue() + r.Pick([]string{"", "", "", "++", "--"})
	case 5:
		return g.lvalue() + r.Pick([]string{"=", "+=", "-=", "*=", "/=", "%=", "<<=", ">>=", "&=", "|=", "^="}) + g.arith(d-1)
	case 6:
		return g.arith(d-1) + "?" + g.arith(d-1) + ":" + g.arith(d-1)
	case 7:
		return g.arith(d-1) + " / 0"
	case 8:
		return g.arith(d-1) + " ** -1"
	default:
		return g.arith(d-1) + " " + r.Pick([]string{"+", "-", "*"}) + " " + g.arith(d-1)
	}
}

func (g *c28Gen) lvalue() string {
	if g.r.Chance(25) {
		return g.r.Pick([]string{"arr[1]", "arr[i]", "arr[n+1]", "x[0]", "m[k]"})
	}
	return g.name()
}

func (g *c28Gen) paramExp() string {
	r := g.r
	n := g.name()
	if r.Chance(15) {
		n = r.Pick([]string{"@", "*", "#", "?", "-", "$", "!", "0", "1", "2", "9", "10", "arr[@]", "arr[*]", "arr[0]", "arr[-1]", "arr[1+1]", "m[k]", "m[1+2]", "m[@]", "LINENO", "RANDOM", "OPTIND", "PWD", "IFS"})
	}
	off := func() string {
		return r.Pick([]string{"0", "1", "2", "-1", " -1", "-9", " -9", "9", "99", "(-2)", "n", "$n", "1+1", "", "9223372036854775807", " -9223372036854775808"})
	}
	switch r.Intn(22) {
	case 0:
		return "${" + n + "}"
	case 1:
		return "${#" + n + "}"
	case 2:
		return "${!" + n + "}"
	case 3:
		return "${" + n + ":" + off() + "}"
	case 4:
		return "${" + n + ":" + off() + ":" + off() + "}"
	case 5:
		return "${" + n + r.Pick([]string{":-", "-", ":=", "=", ":+", "+", ":?", "?"}) + g.word(1) + "}"
	case 6:
		return "${" + n + r.Pick([]string{"#", "##", "%", "%%"}) + g.pattern() + "}"
	case 7:
		return "${" + n + r.Pick([]string{"/", "//", "/#", "/%"}) + g.pattern() + "/" + g.word(1) + "}"
	case 8:
		return "${" + n + r.Pick([]string{"^", "^^", ",", ",,"}) + r.Pick([]string{"", "a", "?", "[a-c]", "*"}) + "}"
	case 9:
		return "${" + n + "@" + r.Pick([]string{"Q", "E", "P", "A", "a", "U", "u", "L", "K", "k"}) + "}"
	case 10:
		return "${!" + r.Pick([]string{"a", "x", "arr", "O", ""}) + r.Pick([]string{"*", "@"}) + "}"
	case 11:
		return "${!" + r.Pick([]string{"arr", "m", "x"}) + "[" + r.Pick([]string{"@", "*"}) + "]}"
	case 12:
		return "${#" + r.Pick([]string{"arr", "m", "x"}) + "[" + r.Pick([]string{"@", "*", "0", "k"}) + "]}"
	case 13:
		return "\"${" + n + ":" + off() + ":" + off() + "}\""
	case 14:
		return "\"${arr[@]:" + off() + ":" + off() + "}\""
	case 15:
		return "\"${@:" + off() + ":" + off() + "}\""
	case 16:
		return "${arr[@]" + r.Pick([]string{"#", "%", "/", "^^", ",,"}) + g.pattern() + "}"
	case 17:
		return "$" + n
	case 18:
		return "${" + n + "/" + g.pattern() + "}"
	case 19:
		return "${" + n + ":" + "}"
	case 20:
		return "${arr[" + g.arith(1) + "]}"
	default:
		return "\"$" + n + "\""
	}
}

// pattern: globs and extended globs.  Known finding C28-extglob-unterminated (C17): an extglob group
// is always closed.
func (g *c28Gen) pattern() string {
	r := g.r
	return genFrom(r, []string{"a", "b", "*", "?", "[a-c]", "[!a]", "[[:alpha:]]", "[", "]", "\\*", "@(a|b)", "+(a)", "?(x|y)", "!(a)", "*(ab|c)", "(", ")", "|", "/", ".", "'*'", "\"?\"", "$x", "{a,b}"}, 4)
}

func (g *c28Gen) word(d int) string {
	r := g.r
	if d <= 0 || r.Chance(30) {
		return r.Pick([]string{"a", "b", "foo", "1", "-x", "''", "\"\"", "a\\ b", "'a b'", "\"a b\"", "$'\\n'", "$\"loc\"", "~", "~root", "~+", "*", "?", "[ab]", "file", "sub/", "./file", "{a,b}", "{1..3}", "{3..1..2}", "{a..e}", "{1..}", "a{b", "\\$x", "#c", "%", "=", "世"})
	}
	switch r.Intn(12) {
	case 0, 1, 2:
		return g.paramExp()
	case 3:
		return "$((" + g.arith(2) + "))"
	case 4:
		return "$(" + g.simple(d-1) + ")"
	case 5:
		return "`" + r.Pick([]string{"echo a", "true", "echo \\`echo b\\`", "exit 3"}) + "`"
	case 6:
		return r.Pick([]string{"<(", ">("}) + g.simple(d-1) + ")"
	case 7:
		return "\"" + g.word(d-1) + " " + g.paramExp() + "\""
	case 8:
		return g.word(d-1) + g.word(d-1)
	case 9:
		return g.pattern()
	case 10:
		return "$[" + g.arith(1) + "]"
	default:
		return "$(<" + r.Pick([]string{"file", "nofile", "sub"}) + ")"
	}
}

func (g *c28Gen) words(max int) string {
	n := g.r.Intn(max + 1)
	parts := make([]string, n)
	for i := range parts {
		parts[i] = g.word(2)
	}
	return strings.Join(parts, " ")
}

func (g *c28Gen) redirs() string {
	r := g.r
	if !r.Chance(25) {
		return ""
	}
	return " " + r.Pick([]string{">/dev/null", "2>&1", ">&2", "<file", "<nofile", ">out", ">>out", "&>out", "<&-", ">&-", "2>/dev/null", "3>out", "<<<" + g.word(1), "<<EOF\nbody $x\nEOF\n", "<<-'E'\n\tlit\nE\n", ">|out", "<>file", "&>>out", "2>&-", ">&1", "1>&2 2>&1", "<&0", ">\"$x\"", ">''"})
}

func (g *c28Gen) simple(d int) string {
	r := g.r
	switch r.Intn(14) {
	case 0, 1:
		return "echo " + g.words(3) + g.redirs()
	case 2:
		name := r.Pick(c28Builtins)
		return name + " " + c28SearchVector(r, true) + g.redirs()
	case 3:
		return g.name() + "=" + g.word(d) + r.Pick([]string{"", " echo $" + g.name(), " true"})
	case 4:
		return "arr" + r.Pick([]string{"=(", "+=("}) + g.words(3) + ")"
	case 5:
		return r.Pick([]string{"arr[" + g.arith(1) + "]=", "arr[" + g.num() + "]+=", "m[k]=", "m[$x]=", "m[1+2]=", "m[i++]="}) + g.word(1)
	case 6:
		return r.Pick([]string{"declare", "local", "export", "readonly", "typeset", "declare -a", "declare -A", "declare -i", "declare -n", "declare -r", "declare -x", "declare -p", "declare -f", "declare -g", "declare -l", "declare -u", "declare -ai", "declare +x", "nameref", "export -n", "readonly -a", "local -"}) + " " +
			r.Pick([]string{"", "z", "z=1", "z=(1 2)", "z=([a]=1 [b]=2)", "z[1]=2", "$x", "\"$@\"", "-x", "z+=1", "arr", "f", "1z", "z=$x w", "ref=z", "ref=ref"})
	case 7:
		return "let " + r.Pick([]string{"", "\"" + g.arith(2) + "\"", g.name() + "++", "1+1 2*3", "'a = 5' 'b = a / 0'", "x=1,y=2"})
	case 8:
		return "(( " + g.arith(3) + " ))"
	case 9:
		return "[[ " + g.testExpr(2) + " ]]"
	case 10:
		return r.Pick([]string{"test", "["}) + " " + g.words(4) + r.Pick([]string{"", " ]"})
	case 11:
		return r.Pick([]string{"f", "g", "nosuchcmd", "./file", "sub", "/bin/true", "\"\"", "$x", "\"$@\""}) + " " + g.words(2)
	case 12:
		return g.name() + "=" + g.word(1) + " " + g.name() + "+=" + g.word(1)
	default:
		return ": " + g.words(3)
	}
}

func (g *c28Gen) testExpr(d int) string {
	r := g.r
	if d <= 0 || r.Chance(40) {
		switch r.Intn(6) {
		case 0:
			return r.Pick([]string{"-z", "-n", "-e", "-f", "-d", "-r", "-w", "-x", "-s", "-L", "-v", "-R", "-o", "-t", "-p", "-S", "-b", "-c", "-g", "-u", "-k", "-O", "-G", "-N"}) + " " + g.word(1)
		case 1:
			return g.word(1) + " " + r.Pick([]string{"==", "=", "!=", "<", ">"}) + " " + g.pattern()
		case 2:
			return g.word(1) + " =~ " + r.Pick([]string{"a+", "(a|b)", "^x$", "[", "a{2}", "$x", "\"[\"", "(", "a)", ".*", "\\("})
		case 3:
			return g.word(1) + " " + r.Pick([]string{"-eq", "-ne", "-lt", "-le", "-gt", "-ge", "-nt", "-ot", "-ef"}) + " " + g.word(1)
		default:
			return g.word(1)
		}
	}
	switch r.Intn(4) {
	case 0:
		return "! " + g.testExpr(d-1)
	case 1:
		return "( " + g.testExpr(d-1) + " )"
	case 2:
		return g.testExpr(d-1) + " && " + g.testExpr(d-1)
	default:
		return g.testExpr(d-1) + " || " + g.testExpr(d-1)
	}
}

func (g *c28Gen) list(d, max int) string {
	n := 1 + g.r.Intn(max)
	parts := make([]string, n)
	for i := range parts {
		parts[i] = g.cmd(d)
	}
	return strings.Join(parts, g.r.Pick([]string{"; ", "\n", " && ", " || ", "; "}))
}

func (g *c28Gen) cmd(d int) string {
	r := g.r
	if d <= 0 || r.Chance(35) {
		return g.simple(2)
	}
	switch r.Intn(24) {
	case 0:
		return "if " + g.list(d-1, 1) + "; then " + g.list(d-1, 2) + r.Pick([]string{"", "; else " + g.simple(1), "; elif " + g.simple(1) + "; then " + g.simple(1)}) + "; fi"
	case 1:
		return "n=0; while [ $n -lt 3 ]; do n=$((n+1)); " + g.list(d-1, 2) + "; done"
	case 2:
		return "until " + g.simple(1) + "; do " + g.list(d-1, 1) + "; " + r.Pick([]string{"break", "break 2", "continue 2", "break 0", "return", "exit"}) + "; done"
	case 3:
		return "for " + g.name() + " in " + g.words(3) + "; do " + g.list(d-1, 2) + "; done"
	case 4:
		return "for " + g.name() + r.Pick([]string{"", " in \"$@\""}) + "; do " + g.simple(1) + "; done"
	case 5:
		return "for ((" + r.Pick([]string{"i=0;i<3;i++", "i=3;i>0;i--", ";;", "i=0;i<2;", "i=0,j=1;i<2;i++,j*=2", "i=0;i<3;i+=1"}) + ")); do " + g.list(d-1, 1) + "; " + r.Pick([]string{":", "break", "continue", "break 2"}) + "; done"
	case 6:
		return "case " + g.word(1) + " in " + g.pattern() + ") " + g.simple(1) + r.Pick([]string{";;", ";&", ";;&"}) + " " + g.pattern() + "|" + g.pattern() + ") " + g.simple(1) + " ;; *) " + g.simple(1) + ";; esac"
	case 7:
		return "select " + g.name() + " in " + g.words(2) + "; do " + g.simple(1) + "; break; done"
	case 8:
		return "coproc " + r.Pick([]string{"", "NAME "}) + "{ " + g.simple(1) + "; }"
	case 9:
		return "time " + r.Pick([]string{"", "-p "}) + g.cmd(d-1)
	case 10:
		return r.Pick([]string{"f", "g"}) + "() { " + g.list(d-1, 2) + "; " + r.Pick([]string{":", "return", "return 3", "return -1", "local z=1", "shift", "echo $#"}) + "; }; " + r.Pick([]string{"f", "g"}) + " " + g.words(2)
	case 11:
		return "function " + r.Pick([]string{"f", "g", "f-x", "a.b"}) + r.Pick([]string{"", "()"}) + " { " + g.simple(1) + "; }"
	case 12:
		return "( " + g.list(d-1, 2) + " )"
	case 13:
		return "{ " + g.list(d-1, 2) + "; }" + g.redirs()
	case 14:
		return g.cmd(d-1) + r.Pick([]string{" | ", " |& "}) + g.cmd(d-1)
	case 15:
		return g.cmd(d-1) + " & " + r.Pick([]string{"wait", "wait $!", "wait g1", ":", "wait g1 g2"})
	case 16:
		return "! " + g.cmd(d-1)
	case 17:
		return "trap " + sq(g.simple(1)) + " " + r.Pick([]string{"EXIT", "ERR", "EXIT ERR", "INT", "0"}) + "; " + g.simple(1)
	case 18:
		return "eval " + sq(g.simple(1))
	case 19:
		return "set " + r.Pick([]string{"-e", "-u", "-x", "-f", "-a", "-n", "-o pipefail", "+e", "-euo pipefail", "-o", "+o", "--", "-", "-- a b c", "-x -- -y"}) + "; " + g.list(d-1, 2)
	case 20:
		return "shopt " + r.Pick([]string{"-s extglob", "-s nullglob", "-s globstar", "-s dotglob", "-s nocaseglob", "-u extglob", "-s expand_aliases", "-o errexit", ""}) + "; " + g.simple(1)
	case 21:
		return "alias " + r.Pick([]string{"ll='echo x'", "e='echo '", "x=", "ll", "'a b'=c", "if=fi"}) + "; shopt -s expand_aliases\n" + r.Pick([]string{"ll a", "e ll", "x", "unalias ll; ll"})
	case 22:
		return "echo hi > src.sh; " + r.Pick([]string{"source", "."}) + " " + r.Pick([]string{"./src.sh", "src.sh a b", "nofile", "sub", "file"})
	default:
		return "[[ " + g.testExpr(2) + " ]] && " + g.simple(1)
	}
}

// variant-only syntax: parsed with the variant, then run
var c28VariantSnippets = map[string][]string{
	"zsh": {
		"echo ${(U)x}", "echo ${x:h} ${x:t} ${x:r} ${x:e}", "cat =(echo a)", "function f g { echo fg; }; f; g",
		"() { echo anon $1; } arg", "for i in a b; { echo $i }", "for i (a b) echo $i", "repeat 2 echo r", "if [[ -n x ]] { echo y }",
		"echo ${#:-a}", "echo ${+x}", "echo $x[1] $x[2,3]", "echo ${x[(r)b]}", "x=(a b); echo $x[1]", "echo ${=x} ${~x} ${^x}",
		"print -r a", "echo *(.)", "echo **/*", "echo <1-3>", "echo <->", "a=1 b=2 :", "echo ${x:-${y}}", "while { true } { break }",
		"echo $((1.5 + 2))", "echo $(( 2 ** 0.5 ))", "typeset -A h; h[a]=1; echo $h[a]", "echo ${(k)h} ${(v)h}", "echo ${(j:,:)arr}",
		"foo=bar echo ${(P)foo}", "echo ${x//(#b)a/b}", "[[ a == (a|b) ]]", "echo ${}", "echo ${x:1:2} ${x[2]}", "case x { x) echo y ;; }",
		"select i (a b) { break }", "function { echo anon }", "echo ${#arr[@]} $#arr", "echo =ls", "x=$'a\\0b'", "echo ${(%):-%n}",
	},
	"mksh": {
		"echo ${|echo a;}", "x=${ echo a;}", "echo a |& cat", "function f { echo f; }; f", "typeset -i n=5; echo $n", "print -r -- a",
		"set -A arr a b c; echo ${arr[1]}", "echo ${x@Q}", "[[ a = a ]] && echo y", "echo $(<file)", "select i in a; do break; done",
		"let n=1+1", "(( n++ ))", "echo ${#arr[*]}", "echo ${arr[*]:1:1}", "case a in a) echo a ;& b) echo b ;| c) echo c ;; esac",
		"echo *(a|b) +(a) ?(a) @(a) !(a)", "typeset -u x=a", "echo ${x:1}", "echo $'a\\tb'", "time echo a", "echo ${!x} ${!arr[*]}",
		"x=([0]=a [2]=c); echo ${x[2]}", "nameref r=x; echo $r", "echo ${x%%?(a)}", "coproc echo a", "echo a >&p", "read -p x",
	},
	"posix": {
		"echo $((1+1)) ${x:-a} ${x#a} ${#x}", "f() { echo $1; }; f a", "for i in a b; do echo $i; done", "case a in a|b) echo y ;; esac",
		"echo `echo a`", "x=1 y=2 env", ": ${x:=1}", "set -- a b; shift; echo $#", "while false; do :; done", "cat <<EOF\n$x\nEOF\n",
		"trap 'echo x' EXIT", "getopts ab o -a; echo $o", "echo \"$@\" \"$*\"", "readonly x=1; x=2", "export x; unset x", "cd sub && pwd",
		"[ -n a ] && echo y", "test a = a", "command -v echo", "type echo", "umask", "wait", "exec >/dev/null", "eval 'echo a'", ". ./file",
		"echo ${x:?msg}", "echo ${x+set}", "a=b; echo ${a%b}", "alias x=y; unalias x", "kill -0 $$", "times", "hash", "ulimit", "fc", "newgrp",
	},
	"bats": {
		"@test \"a\" { echo a; }", "@test 'x y' { [ 1 -eq 1 ]; }", "@test \"r\" { run echo a; [ \"$status\" -eq 0 ]; }",
		"setup() { :; }\n@test \"s\" { true; }", "@test \"$x\" { false; }", "f() { :; }; @test \"f\" { f; }",
	},
	"bash": {
		"select x in a b; do echo $x; break; done", "coproc cat", "coproc C { echo a; }", "time -p true", "time", "let", "let 1", "let 'x=1' 'y=x/0'",
		"declare -A m; m[a]=1; echo ${!m[@]} ${m[@]}", "declare -n r=x; r=5; echo $x", "declare -n r=r; echo $r", "declare -n r; r=1",
		"echo @(a|b) !(x) +(a) ?(b) *(c)", "shopt -s extglob; echo @(a|b)", "shopt -s extglob; case a in @(a|b)) echo y;; esac",
		"shopt -s extglob; [[ ab == +(a|b) ]]; echo $?", "shopt -s extglob; x=aab; echo ${x##+(a)} ${x/+(a)/X}", "cat <(echo a) >(cat)",
		"echo a > >(cat)", "diff <(echo a) <(echo b)", "read x < <(echo a); echo $x", "while read l; do echo $l; done < <(echo a; echo b)",
		"mapfile -t arr < <(echo a; echo b); echo ${#arr[@]}", "echo {a,b}{1,2} {1..5..2} {a..c} {01..03} {1..3}{a,b}",
		"[[ a =~ ^(a)$ ]]; echo ${BASH_REMATCH[1]}", "[[ -v x ]]", "[[ x -ef y ]]", "echo $'\\x41\\u00e9\\U0001F600\\101\\cA'", "echo $\"a\"",
		"function f { local -n r=$1; r=1; }; f x; echo $x", "f() { local x=1; g; }; g() { echo $x; }; f", "f() { f; }; f", "x=(); echo ${x[0]} ${#x[@]}",
		"x=(1 2 3); unset 'x[1]'; echo ${x[@]} ${!x[@]} ${x[@]:1}", "x=(1 2 3); x[10]=4; echo ${x[@]: -1} ${x[@]:2:5} ${x[-1]}",
		"x=abc; echo ${x:1:1} ${x: -1} ${x:0:-1} ${x:5} ${x:1:-5}", "set -- a b c; echo ${@:2} ${@:0} ${*: -1} ${@:1:0} ${@: -5}",
		"echo ${x?} ; echo after", "echo ${!nosuch}", "echo ${!1}", "x=y; y=z; echo ${!x}", "echo ${x@Q} ${x@E} ${x@P} ${x@A} ${x@a} ${x@U} ${x@u} ${x@L} ${x@K}",
		"echo ${x^} ${x^^} ${x,} ${x,,} ${x^^[a-c]}", "echo ${x/a/b} ${x//a} ${x/#a/b} ${x/%a/b} ${x/a\\/b/c}", "echo $((x=5, x++ + ++x)) $((x--)) $((--x))",
		"echo $((1/0))", "echo $((1%0))", "echo $((2**-1))", "echo $((1<<64)) $((1<<-1)) $((-1>>70))", "echo $((08))", "echo $((0x))", "echo $((2#2))", "echo $((65#1))",
		"echo $((x ? 1 : 2)) $((1 ? x=1 : 2))", "echo $((1 + ))", "echo $(( ))", "(( ))", "echo $((a b))", "x='1+2'; echo $((x))", "x=y; y=x; echo $((x))",
		"printf '%s\\n' a b c", "printf '%d %i %x %o %e %f %g %c %b %q %5s %-5s|\\n' 1 2 255 8 1.5 2.5 3.5 abc 'a\\nb' 'a b' r l", "printf '%(%Y)T' 0", "printf %s", "printf '%z'",
		"printf '%*d' 5 3", "printf '%.2f' 1", "printf '%5.3s' abcdef", "printf -v v %s a; echo $v", "printf '%d' 0x10 010 \"'a\" -5 +5 9999999999999999999 abc",
		"read -r a b <<< 'x y z'; echo $a $b", "read -a arr <<< 'x y z'; echo ${arr[2]}", "read -n 1 x <<< ab", "read -d x y <<< axb", "read -t 0", "read -s x <<< a", "read -p 'p ' x <<< a",
		"IFS=: read a b <<< 'x::y'; echo $a $b", "read <<< ''; echo $REPLY", "read 1a", "read -x", "mapfile -n 1 arr <file", "mapfile -d '' arr <file", "mapfile -O 2 arr <file", "mapfile -s 1 arr <file",
		"mapfile -t -d x arr <<< axbxc; echo ${#arr[@]}", "mapfile a b", "mapfile 1a", "mapfile -C cb -c 1 arr <file", "readarray -t arr <file; echo ${arr[1]}",
		"trap", "trap -l", "trap -p", "trap - EXIT", "trap '' INT", "trap 'echo e' ERR; false", "trap 'exit 3' EXIT; exit 4", "trap 'trap - EXIT; echo x' EXIT", "trap 'echo $(' EXIT",
		"type -t echo if f nosuch", "type -a echo", "type -p echo", "type -P sub", "type", "type -", "type -t -p x", "command", "command -v", "command -V echo", "command -p echo a", "command -pv x",
		"command exit 3", "command return", "builtin", "builtin nosuch", "builtin exit 3", "builtin cd sub; pwd", "exec", "exec nosuch", "exec -a x y", "exec 3>out; echo a >&3", "exec <file; read l; echo $l",
		"pushd sub; pushd ..; dirs; popd; popd; popd", "pushd; popd; dirs -c; dirs -v; dirs +1", "pushd -n a; pushd -n b; popd -n; popd +1; pushd +1", "cd sub; cd -; cd ~; cd; cd ''; cd a b; cd ..//./sub",
		"(pushd sub; popd; popd); popd; pushd", "pushd sub >/dev/null; ( popd; popd; dirs ); dirs", "pushd -n x | cat; dirs", "unset HOME; cd; cd ~", "unset PWD OLDPWD; cd -; pwd -P; pwd -L",
		"wait; wait g1; wait 1; wait -n; wait -p x; wait -f; wait %1; wait g0; wait g-1; wait gx", "true & true & wait g2 g1 g3", "true & wait $!; echo $?", "(exit 3) & wait g1; echo $?", "false & wait; echo $?",
		"set -- a b c; shift; shift 2; shift; shift 5; echo $#", "shift a; shift 1 2; shift ''; shift +1; shift ' 1'", "f() { shift 2; echo $#; }; f a; f a b c", "set --; shift; echo $?",
		"for i in 1 2; do for j in 1 2; do break 2; done; done", "for i in 1; do break 0; continue 0; break -1; continue a; break 1 2; done", "break; continue; echo $?", "f() { break; }; for i in 1; do f; done",
		"while :; do while :; do continue 2; done; done & wait g1 & :", "for i in 1 2; do (break); echo $i; done", "for i in 1; do eval break; echo no; done", "until break 99; do :; done",
		"exit 256", "exit -1", "exit a", "exit 1 2", "exit ''", "exit +3", "( exit 300 ); echo $?", "f() { return 256; }; f; echo $?", "f() { return a; }; f", "f() { return 1 2; }; f", "return", "return 3",
		"f() { return 9223372036854775807; }; f; echo $?", "f() { return 9223372036854775808; }; f; echo $?", "source ./file; return 5", "echo 'return 7' > r.sh; . ./r.sh; echo $?",
		"getopts", "getopts a", "getopts a 1x", "getopts a: o -a", "getopts :a: o -a; echo $o $OPTARG", "getopts ab o -ab; getopts ab o -ab; getopts ab o -ab; echo $o $OPTIND",
		"f() { local OPTIND o; while getopts ab: o; do echo $o $OPTARG; done; }; f -a -b x; f -ab y; f -b", "OPTIND=3; getopts a o -a -a -a; echo $OPTIND", "OPTIND=0 getopts a o -a", "OPTIND=x; getopts a o -a",
		"OPTIND=-5; getopts a o -a", "OPTIND=99999999999999999999; getopts a o -a", "unset OPTIND; getopts a o -a -a; getopts a o -a -a; echo $OPTIND", "getopts 'é:' o -éx; echo $OPTARG", "getopts a o -- -a",
		"set -- -a -b; getopts ab o; getopts ab o; getopts ab o; echo $? $o", "getopts a o --a", "getopts a o -", "getopts a o ''", "getopts a o a", "getopts : o -:", "getopts '' o -a", "getopts a: o -a ''; echo \"[$OPTARG]\"",
		"unset 'arr[0]' 'arr[9]' 'arr[-1]' 'arr[-9]' 'arr[x]' 'm[k]' 'm[]' 'x[0]' 'nosuch[1]'", "arr=(1 2); unset 'arr[-3]'", "unset -v x; unset -f f; unset -n r; unset -x", "unset", "unset ''", "unset 1 '' 'a b' = -",
		"declare", "declare -p", "declare -p x nosuch", "declare -f", "declare -f nosuch", "declare -F", "declare -x", "declare x y z", "declare -i x=1+1; echo $x", "declare -a x=(1 2); declare -A x", "declare -A m=(a b c); echo ${m[a]}",
		"declare -A m; m=(1 2); m+=([x]=y); echo ${!m[@]}", "declare -A m; m[]=x", "declare -a 'x=(1 2)'; echo ${x[1]}", "declare \"x=(1 2)\"", "declare x[1]=a x[3]=b; echo ${!x[@]}", "declare -r x=1; x=2; unset x; declare +r x",
		"local x", "f() { local; local -p; local x=1 y; local -a z=(1); local -A w; local x; echo $x; }; f", "f() { local -; set -e; }; f", "f() { declare -g x=1; }; f; echo $x", "export", "export -p", "export -f f", "export -n x",
		"export x=1 y; export 1x; export x=; export =x; export 'a b'", "readonly", "readonly -p", "readonly x=1 x=2", "readonly -f f", "readonly arr=(1 2); arr[0]=3; arr+=(4); unset arr",
		"x=1 readonly y=2", "readonly x; x=1 echo a", "readonly x=1; x=2 f() { :; }", "readonly x=1; for x in a; do :; done; echo $?", "readonly x=1; read x <<< a; echo $?", "readonly x=1; (( x++ )); echo $?",
		"readonly x=1; : ${x:=2}", "readonly x=1; printf -v x a", "readonly x=1; getopts a x -a", "readonly x=1; mapfile x <file", "readonly OPTIND; getopts a o -a", "readonly REPLY; read <<< a", "readonly PWD OLDPWD; cd sub",
		"set", "set -o", "set +o", "set -o nosuch", "set -o errexit -o", "set -z", "set -", "set +", "set -- -x", "set - a b", "set -e +e -eu +u -o pipefail +o pipefail", "set -euxo pipefail; echo $-", "set -x; x=1; arr=(1 2); let x++; [[ a == a ]]; (( 1 ))",
		"set -x; for i in a; do case $i in a) echo ;; esac; done", "set -x; echo 'a b' $'\\n' \"$x\"; f() { :; }; f a", "set -v; echo a", "set -n; echo no", "set -u; echo $nosuch; echo after", "set -u; echo ${arr[@]} $@ $* ${nosuch-} ${#nosuch}",
		"set -u; echo ${arr[0]}", "set -u; x=; echo ${x:1}", "set -e; false; echo no", "set -e; f() { false; echo in; }; f || echo or", "set -e; (false); echo no", "set -e; ! false; false | true; echo yes", "set -eo pipefail; false | true; echo no",
		"set -a; x=1; f() { :; }", "set -f; echo *", "set -C; echo a > file", "set -b -h -k -m -p -t -B -H -P -T", "set -E -o errtrace -o functrace -o history -o vi -o emacs -o posix",
		"shopt", "shopt -s", "shopt -u", "shopt -p", "shopt -q extglob", "shopt -o", "shopt -so errexit", "shopt -s nosuch", "shopt extglob nullglob nosuch", "shopt -s lastpipe; echo a | read x; echo $x", "shopt -su extglob",
		"alias", "alias -p", "alias x", "alias x=y z", "alias 'x=echo $('", "alias x='echo \"'; shopt -s expand_aliases\nx", "shopt -s expand_aliases; alias a='b '; alias b='a '\na b", "shopt -s expand_aliases; alias a=a\na", "unalias", "unalias -a", "unalias nosuch",
		"shopt -s expand_aliases; alias x='('\nx echo a )", "shopt -s expand_aliases; alias for=echo\nfor i", "shopt -s expand_aliases; alias e='echo a;'\ne e",
		"echo [a-z]* .* */ ** */* ~/* [!.]* [[:alpha:]]* \\* '*' \"*\" *\\**", "shopt -s globstar nullglob dotglob nocaseglob; echo ** **/ **/* nosuch* F*", "echo [ [] []] [!] [a [a-] [z-a] [[:nosuch:]] [[.a.]] [[=a=]]",
		"x='*'; echo $x \"$x\" ${x} ${x@Q}; IFS=; echo $x", "IFS=; set -- a b; echo \"$*\" $*; IFS=x; echo \"$*\"; unset IFS; echo \"$*\"", "IFS=' :'; x='a : b::c'; echo $x; for w in $x; do echo \"[$w]\"; done", "IFS=$'\\n'; echo $(echo a; echo b)",
		"echo ~ ~/ ~root ~nosuchuser ~+ ~- ~0 a~ =~ ~\"x\" \"~\" x=~ x=a:~", "HOME=; echo ~", "unset HOME; echo ~", "echo $0 $1 $# $? $$ $! $- $_ $* $@ ${10} ${0} $00",
		"echo $RANDOM $SECONDS $LINENO $BASHPID $PPID $UID $EUID $GID $HOSTNAME $OSTYPE $BASH_VERSION $FUNCNAME $BASH_SOURCE $PIPESTATUS $SHLVL $EPOCHSECONDS",
		"f() { echo ${FUNCNAME[0]} ${FUNCNAME[@]} $LINENO; caller; caller 0; }; f", "echo ${PIPESTATUS[@]}; true | false; echo ${PIPESTATUS[1]}", "UID=5; EUID=5; PPID=1; echo $?", "unset UID RANDOM LINENO; LINENO=5; RANDOM=1; echo $RANDOM",
		"cat <<EOF\n$x $(echo a) `echo b` $((1+1)) \\$x \\\\ \\a\nEOF\n", "cat <<'EOF'\n$x\nEOF\n", "cat <<-EOF\n\t$x\n\tEOF\n", "cat <<EOF1 <<EOF2\na\nEOF1\nb\nEOF2\n", "read x <<EOF\nEOF\n", "cat <<EOF\n${x?unset}\nEOF\n", "cat <<\"E F\"\nx\nE F\n",
		"echo a >&2 2>&1 >/dev/null 2>/dev/null <&- >&-", "echo a 3>&1 4>&2 >&3 >&4", "echo a >&x", "echo a <&3", "echo a > ''", "echo a > $nosuch", "echo a > a b", "echo a > *", "echo a >sub", "echo a > /nonexistent/x", "echo a >> file; echo b >| file; echo c <> file; echo d &> file; echo e &>> file",
		"{ echo a; echo b >&2; } 2>&1 | read x", "exec 2>&1; echo a >&2", "exec >&-; echo a", "exec <&-; read x", "exec 0</dev/null; read x", "read x <&-", "echo a | { read x; echo $x; }", "echo a |& read x", "true | true | false; echo $?", "! true | false; echo $?",
		"echo a | (read x; echo $x) | cat", "f() { read x; echo $x; }; echo a | f", "echo a | while read x; do echo $x; done | read y", "yes | head -1", "echo a & echo b & wait; echo c", "{ sleep 0; echo a; } & disown; wait", "echo a &\nwait $!\necho $?", "true &\nfalse &\nwait g1 g2\necho $?", "( ( ( echo a ) ) )", "{ { { echo a; }; }; }",
		"$(echo echo) a", "`echo echo` b", "$(exit 3); echo $?", "x=$(exit 3); echo $?", "echo $(exit 3) $?", "x=$(echo a; exit 3) y=$(exit 4); echo $x $?", "echo $(<file) $(< file) $(<nofile) $(<sub) $(< file; echo b)", "echo $(cat <<EOF\na\nEOF\n)", "echo $(echo $(echo $(echo a)))", "echo \"$(echo \"$(echo \"a b\")\")\"",
		"echo $(( $(echo 1) + `echo 2` ))", "echo $(echo '(')", "echo $(case a in a) echo b;; esac)", "x=$( (echo a) ); echo $x", "echo ${x:-$(echo d)} ${x:+$(exit 3)} $?", "echo \"${x:-\"a b\"}\" \"${x:-'a'}\" ${x:-'a'} ${x:-\\}}", "echo ${x:-${y:-${z:-d}}} ${#x} ${#} ${#@} ${#*} ${#arr} ${#arr[0]}",
		"[ ]; [ a ]; [ ! ]; [ ! a ]; [ a = ]; [ = a ]; [ a b ]; [ a = b = c ]; [ ( ]; [ ) ]; [ ( a ) ]; [ ! ( a ) ]; [ a -a ]; [ -a a ]; [ a -o b -a ]; echo $?", "[ -n ]; [ -z ]; [ -f ]; [ -n a b ]; [ 1 -eq ]; [ -eq 1 ]; [ 1 -eq a ]; [ 1 -eq 1 2 ]; [ a -nt ]; [ -t ]; [ -t a ]; [ -t 99999999999999999999 ]",
		"test; test a; test -z; test ! !; test ! ! a; test a -a b -o c; test '(' a ')' ; test '(' ')' ; test a '==' b; test a '<' b; test a '>' b; test -v x; test -v 'arr[0]'; test -o errexit; test -R x", "[ 9223372036854775807 -lt 9223372036854775808 ]; [ 0x10 -eq 16 ]; [ ' 1 ' -eq 1 ]; [ 1.5 -eq 1 ]",
		"[[ ]]", "[[ a ]]", "[[ ! a ]]", "[[ a && b || c ]]", "[[ ( a ) ]]", "[[ a == ]]", "[[ -z ]]", "[[ a -eq b ]]", "[[ 1 -eq 1+1 ]]", "[[ x -eq 1/0 ]]", "[[ a < b && b > a ]]", "[[ a =~ a(b ]]", "[[ a =~ [ ]]", "[[ a =~ * ]]", "[[ a =~ ]]", "[[ $x =~ $y ]]", "[[ a == a* && a == \"a*\" ]]", "[[ -v arr[0] && -v m[k] ]]", "[[ a == [ ]]", "[[ a == \\( ]]",
		"f() { :; }; f() { echo 2; }; unset -f f; f", "f() ( echo sub ); f", "f() for i in a; do echo $i; done; f", "f() if true; then echo y; fi; f", "f() { echo $1; } >out; f a", "function f() { return 5; }; f; echo $?", "f() { echo ${FUNCNAME}; }; f", "f-x() { :; }; f-x", "1f() { :; }", "f() { unset -f f; echo a; }; f; f",
		"f() { local x=$1; [ $x -gt 0 ] && f $((x-1)); }; f 50", "f() { exit 3; }; f; echo no", "f() { ( return 3 ); echo $?; }; f", "f() { return 3 & wait $!; }; f", "f() { trap 'echo r' RETURN; }; f", "f() { local IFS=:; echo \"$*\"; }; f a b",
		"echo a; exit; echo b", "exit | exit 3; echo $?", "( exit 3 ) || echo $?", "{ exit 3; } | cat; echo $?", "x=$(exit 3) || echo $?", "if exit 3; then :; fi", "while exit 3; do :; done", "trap 'exit' EXIT; exit 3", "eval exit 3; echo no", "source <(echo exit 3)", "(exit)", "exit $(exit 3)",
		"a=(1 2); ((a[1] > 1)); echo $((a[0] + a[1])) $((a[5])) $((a[-1])) $((a[-5]))", "declare -A m=([k]=1); echo $((m[k] + 1)) ${m[k]} ${m[nosuch]} ${m[@]} ${!m[@]} ${#m[@]}", "x=5; echo $((x[0])) ${x[0]} ${x[1]} ${x[@]} ${#x[@]} ${!x[@]}",
		"arr=(a b c); echo ${arr[@]:1:1} ${arr[*]:0:-1} ${arr[@]: -2} ${arr[@]:5:1} ${arr[@]:1:99} ${arr[@]::2} ${arr[@]:0:0}", "arr=(a b c); arr[10]=z; echo ${arr[@]:3} ${arr[@]:10:1} ${arr[@]: -1:1} ${arr[@]: -11} ${arr[@]: -12} ${arr[@]:11}",
		"arr=(); echo ${arr[@]:0} ${arr[@]: -1} ${arr[@]:1:1} \"${arr[@]:0:1}\"", "set --; echo ${@:0} ${@:1} ${@: -1} ${@:0:1} ${*:5:5}", "set -- a; echo ${@: -2} ${@: -1:5} ${@:1:-1}", "x=; echo ${x:0} ${x:1} ${x: -1} ${x:0:0} ${x::} ${x: : }",
		"x=aé世; echo ${x:1:1} ${x: -1} ${#x} ${x:2} ${x^^} ${x/é/e} ${x%世}", "x=$'a\\xffb'; echo ${#x} ${x:1:1} ${x^^}", "echo ${x:1+1:2*2} ${x:n:n} ${x:n++:--n} ${x:$(echo 1):`echo 1`} ${x:1/0}", "echo ${arr[@]:1/0} ${@:1/0} ${x:a b}",
	},
}

// ---------------------------------------------------------------------------------------------
// (2b) mutation

var c28Dict = []string{
	";", "&", "|", "&&", "||", "(", ")", "{", "}", "$(", "`", "\"", "'", "<", ">", ">>", "<<", "<<<", "<(", ">(", "$((", "))", "((", "[[", "]]", "[", "]",
	"$", "${", "#", "!", "*", "?", "~", "=", "+=", "\\", "\n", " ", "-1", "0", "99999999999999999999", "-9223372036854775808", "''", "--", "-", "+x", "-x",
	"shift", "getopts", "break", "continue", "wait", "pushd", "popd", "dirs", "exit", "return", "read", "printf", "mapfile", "trap", "type", "command", "declare",
	"local", "export", "readonly", "unset", "set", "eval", "source", "exec", "let", "test", "select", "coproc", "time", "function", "if", "then", "fi", "for", "do",
	"done", "while", "case", "esac", "in", ";;", ";&", ";;&", "$@", "$*", "$#", "$?", "$!", "$-", "$0", "${@:1}", "${x:1:2}", "${arr[@]}", "${#x}", "${!x}", "${x//a/b}",
	"${x^^}", "${x@Q}", "${x:-d}", "${x:=d}", "${x:?e}", "${x:+a}", "a[1]", "arr[0]", "m[k]", "@(a|b)", "!(a)", "+(", "{a,b}", "{1..3}", "&>", "|&", ">&2", "2>&1", "<&-",
	"-n", "-a", "-o", "-e", "-u", "-p", "-r", "-t", "-d", "-A", "-f", "-v", "OPTIND=1", "IFS=", "x=", "arr=(", "f()", "EXIT", "ERR", "$'\\n'", "$\"x\"", "%s", "%d", "\\x",
}

func c28SplitTokens(s string) []string {
	var toks []string
	cur := ""
	for _, r := range s {
		if r == ' ' || r == '\n' || r == '\t' || r == ';' {
			if cur != "" {
				toks = append(toks, cur)
				cur = ""
			}
			toks = append(toks, string(r))
		} else {
			cur += string(r)
		}
	}
	if cur != "" {
		toks = append(toks, cur)
	}
	return toks
}

func c28Mutate(r *Rand, seeds []string, s string) string {
	n := 1 + r.Intn(3)
	for k := 0; k < n; k++ {
		switch r.Intn(9) {
		case 0, 1, 2: // token level
			toks := c28SplitTokens(s)
			if len(toks) == 0 {
				s += r.Pick(c28Dict)
				continue
			}
			i := r.Intn(len(toks))
			switch r.Intn(5) {
			case 0:
				toks = append(toks[:i], toks[i+1:]...)
			case 1:
				toks = append(toks[:i+1], append([]string{toks[i]}, toks[i+1:]...)...)
			case 2:
				j := r.Intn(len(toks))
				toks[i], toks[j] = toks[j], toks[i]
			case 3:
				toks[i] = r.Pick(c28Dict)
			default:
				toks = append(toks[:i+1], append([]string{" ", r.Pick(c28Dict), " "}, toks[i+1:]...)...)
			}
			s = strings.Join(toks, "")
		case 3: // byte level
			b := []byte(s)
			if len(b) == 0 {
				continue
			}
			i := r.Intn(len(b))
			meta := "$`\"'\\(){}[]<>|&;!#*?~=+-:/%^,@ \n0129"
			switch r.Intn(3) {
			case 0:
				b[i] = meta[r.Intn(len(meta))]
			case 1:
				b = append(b[:i], b[i+1:]...)
			default:
				b = append(b[:i+1], append([]byte{meta[r.Intn(len(meta))]}, b[i+1:]...)...)
			}
			s = string(b)
		case 4: // splice with another seed
			o := seeds[r.Intn(len(seeds))]
			if len(s) > 0 && len(o) > 0 {
				s = s[:r.Intn(len(s))] + o[r.Intn(len(o)):]
			}
		case 5: // sequence with another seed
			s = s + r.Pick([]string{"; ", "\n", " | ", " && ", " & "}) + seeds[r.Intn(len(seeds))]
		case 6: // number replacement
			toks := c28SplitTokens(s)
			for i, t := range toks {
				if _, err := strconv.Atoi(t); err == nil && r.Chance(50) {
					toks[i] = c28Number(r, true)
				}
			}
			s = strings.Join(toks, "")
		case 7: // wrap
			s = r.Pick([]string{"( ", "{ ", "f() { ", "for i in 1 2; do ", "x=$(", "eval ", "set -eu; ", "shopt -s extglob; ", "set -- -1 '' --; "}) + s +
				r.Pick([]string{" )", "; }", "; }; f -1 ''", "; done", ")", "", "", "", ""})
		default:
			s = strings.Replace(s, " ", " "+r.Pick(c28Dict)+" ", 1)
		}
	}
	return s
}

// ---------------------------------------------------------------------------------------------
// (3) New / Params option lists

func c28OptsRequest(r *Rand) (string, []string) {
	var toks []string
	n := r.Intn(6)
	for k := 0; k < n; k++ {
		switch r.Intn(9) {
		case 0, 1, 2:
			m := r.Intn(5)
			var args []string
			for j := 0; j < m; j++ {
				a := r.Pick(c28ArgPool)
				args = append(args, hx(a))
			}
			toks = append(toks, "P:"+strings.Join(args, ","))
		case 3:
			toks = append(toks, "D:"+hx(r.Pick([]string{"", "@", "@/sub", "@/file", "@/nosuch", "sub", ".", "/", "\x00", "@/sub/../sub/"})))
		case 4:
			switch r.Intn(4) {
			case 0:
				toks = append(toks, "E:nil")
			case 1:
				toks = append(toks, "E:func")
			default:
				m := r.Intn(5)
				var pairs []string
				for j := 0; j < m; j++ {
					pairs = append(pairs, hx(r.Pick([]string{"A=1", "A=2", "=x", "B", "", "PATH=@/sub", "HOME=", "TMPDIR=rel", "TMPDIR=@", "UID=x", "IFS=:", "OPTIND=5", "PWD=/nosuch", "A=B=C", "é=1", "a b=c", "HOME=@"})))
				}
				toks = append(toks, "E:list:"+strings.Join(pairs, ","))
			}
		case 5:
			toks = append(toks, "S:"+r.Pick([]string{"n", "b", "f"})+r.Pick([]string{"n", "b", "f"})+r.Pick([]string{"n", "b", "f"}))
		case 6:
			toks = append(toks, "I:"+r.Pick([]string{"0", "1"}))
		default:
			toks = append(toks, "H:"+r.Pick([]string{"call", "exec", "open", "readdir", "readdir2", "stat", "access"}))
		}
	}
	script := r.Pick([]string{":", "set -o; set +o; echo \"$@\" $- $#", "cd sub; pwd; echo ~", "echo *; read x; echo $x", "nosuchcmd a; ll", "alias ll=echo\nll a", "echo $A $HOME $PWD $UID $OPTIND; getopts a o", "shift; echo $1; set -- x; echo $#", "echo a >&2; cat <file"})
	toks = append(toks, "R:"+hx(script))
	return "opts " + strings.Join(toks, " "), toks
}

// ---------------------------------------------------------------------------------------------

type c28Item struct {
	req     string
	witness string
	key     string
	tags    []string
	known   bool // replay of corpus/C28-known.txt: reported through c.Fail (KNOWN-FINDING)
}

// brace sequences with 7-digit bounds or more are memory bombs (resource exhaustion is not C28)
var c28HugeSeq = regexp.MustCompile(`\{-?\d*\.\.-?\d{7,}|\{-?\d{7,}\.\.`)

func c28ProgItem(lang, stdin, script string, params []string, tags ...string) c28Item {
	if c28HugeSeq.MatchString(script) {
		script = c28HugeSeq.ReplaceAllString(script, "{1..3")
	}
	req := "prog " + lang + " " + stdin + " " + hx(script)
	for _, p := range params {
		req += " " + hx(p)
	}
	return c28Item{req: req, witness: req, key: lang + "\x00" + script + "\x00" + strings.Join(params, "\x00"), tags: tags}
}

func c28Search(c *Ctx, base string, corpus []string) {
	r := c.R.Fork("search")
	seeds := c28Seeds()
	c.Extra["seed_programs"] = len(seeds)
	if len(seeds) == 0 {
		seeds = []string{"echo a"}
		c.Fail("seeds", "could not extract the runTests programs of interp/interp_test.go")
	}
	for _, ss := range c28VariantSnippets {
		seeds = append(seeds, ss...)
	}
	var items []c28Item
	for _, l := range corpus {
		f := strings.Fields(l)
		if len(f) >= 2 && (f[0] == "prog" || f[0] == "opts") {
			items = append(items, c28Item{req: l, witness: l, key: "corpus\x00" + l, tags: []string{"corpus-search"}, known: true})
		}
	}
	nVec, nProg, nOpts, nArr, nArith, nRef := c.N/2, c.N*3/4, c.N/10, c.N/4, c.N/5, c.N/5
	if c.Thorough() {
		nProg = c.N * 4
	}
	if c.N == 0 {
		nVec, nProg, nOpts, nArr, nArith, nRef = 0, 0, 0, 0, 0, 0
	}
	langs := []string{"bash", "bash", "bash", "posix", "mksh", "zsh", "bats"}
	stdins := []string{"n", "s", "s", "e"}
	paramsPool := [][]string{nil, {"a"}, {"a", "b", "c"}, {"-a", "-b", "x"}, {"", "-1", "--"}, {"-ab", "val", "rest"}}
	for i := 0; i < nVec; i++ {
		script, tags := c28BuiltinProgram(r)
		items = append(items, c28ProgItem("bash", r.Pick(stdins), script, paramsPool[r.Intn(len(paramsPool))], append(tags, "search:builtin-vector")...))
	}
	for i := 0; i < nArr; i++ {
		items = append(items, c28ProgItem("bash", r.Pick(stdins), c28ArraySeq(r), nil, "search:array-sequence"))
	}
	for i := 0; i < nRef; i++ {
		items = append(items, c28ProgItem("bash", r.Pick(stdins), c28NamerefSeq(r), nil, "search:nameref-sequence"))
	}
	for i := 0; i < nArith; i++ {
		// ordinal offset by shard so that the shards of a thorough run do not all start at op 0
		items = append(items, c28ProgItem(r.Pick([]string{"bash", "bash", "bash", "mksh", "zsh"}), "n", c28ArithProgram(r, i+c.Shard*7), nil, "search:arith-operators"))
	}
	for i := 0; i < nProg; i++ {
		lang := r.Pick(langs)
		var script string
		var tag string
		switch k := r.Intn(10); {
		case k < 4:
			g := &c28Gen{r: r, lang: lang}
			script = g.list(3, 3)
			tag = "search:grammar"
		case k < 6:
			ss := c28VariantSnippets[lang]
			script = ss[r.Intn(len(ss))]
			if r.Chance(60) {
				script = c28Mutate(r, seeds, script)
			}
			if r.Chance(30) {
				g := &c28Gen{r: r, lang: lang}
				script += "\n" + g.cmd(2)
			}
			tag = "search:variant-snippet"
		case k < 7:
			script = seeds[r.Intn(len(seeds))]
			tag = "search:seed"
		default:
			script = c28Mutate(r, seeds, seeds[r.Intn(len(seeds))])
			tag = "search:mutated-seed"
		}
		items = append(items, c28ProgItem(lang, r.Pick(stdins), script, paramsPool[r.Intn(len(paramsPool))], tag, "lang:"+lang))
	}
	for i := 0; i < nOpts; i++ {
		req, _ := c28OptsRequest(r)
		items = append(items, c28Item{req: req, witness: req, key: req, tags: []string{"search:options"}})
	}

	workers := 4
	timeout := 400 * time.Millisecond
	if c.Shards > 1 {
		workers = 2
	}
	reqs := make([]string, len(items))
	for i, it := range items {
		reqs[i] = it.req
	}
	t0 := time.Now()
	results := c28RunAll(filepath.Join(base, "c28search"), workers, timeout, reqs)
	c.Extra["search_seconds"] = int(time.Since(t0).Seconds())
	os.RemoveAll(filepath.Join(base, "c28search"))

	var slow []string
	defer func() { c.Extra["slow_examples"] = slow }()
	for i, it := range items {
		res := results[i]
		tags := append([]string{}, it.tags...)
		tags = append(tags, "result:"+res.kind)
		if res.kind == "panic" {
			id := c28Classify(res.msg, res.frames)
			what := fmt.Sprintf("Runner.Run panicked: %s [%s]", res.msg, res.frames)
			switch {
			case it.known:
				// canonical witness of a known finding, reported on every run while it is open
				tags = append(tags, "known-witness-panics")
				c.Fail(it.witness, what)
			case id != "":
				tags = append(tags, "attributed:"+id)
			default:
				c.Fail(it.witness, what+" — input: "+c28Describe(it.req))
			}
		}
		if (res.kind == "hang" || res.kind == "timeout") && len(slow) < 8 {
			slow = append(slow, res.kind+": "+c28Describe(it.req))
		}
		if res.kind == "invariant" {
			c.Fail(it.witness, "after Runner.Run a representation invariant that keeps a panic site unreachable is broken (latent panic in a later access): "+res.msg+" — input: "+c28Describe(it.req))
		}
		if res.kind == "hang" && res.msg != "" {
			c.Fail(it.witness, "worker problem: "+res.msg)
		}
		c.Case(it.key, res.ran, tags...)
	}
}

func c28Describe(req string) string {
	f := strings.Fields(req)
	if len(f) >= 4 && f[0] == "prog" {
		s := fmt.Sprintf("%s program %q", f[1], unhx(f[3]))
		if len(f) > 4 {
			var ps []string
			for _, h := range f[4:] {
				ps = append(ps, unhx(h))
			}
			s += fmt.Sprintf(" params %q", ps)
		}
		return s
	}
	if len(f) >= 1 && f[0] == "opts" {
		var parts []string
		for _, t := range f[1:] {
			k, v, _ := strings.Cut(t, ":")
			switch k {
			case "P":
				var as []string
				if v != "" {
					for _, h := range strings.Split(v, ",") {
						as = append(as, unhx(h))
					}
				}
				parts = append(parts, fmt.Sprintf("Params(%q)", as))
			case "D", "R":
				parts = append(parts, k+":"+strconv.Quote(unhx(v)))
			default:
				parts = append(parts, t)
			}
		}
		return strings.Join(parts, " ")
	}
	return req
}
