// Command vh is the Go side of the correspondence checks: it runs the real mvdan/sh code
// in-process on generated inputs, writes one model operation per line to ops.txt, the
// implementation's canonical answer to impl.txt, and run statistics to meta.json.
package main

import (
	"flag"
	"fmt"
	"os"
	"sort"
)

type propFunc func(c *Ctx)

var registry = map[string]propFunc{}

func register(id string, f propFunc) { registry[id] = f }

func main() {
	if len(os.Args) < 2 {
		ids := []string{}
		for k := range registry {
			ids = append(ids, k)
		}
		sort.Strings(ids)
		fmt.Fprintln(os.Stderr, "usage: vh <property> [-seed N] [-n N] [-tier quick|thorough] [-out DIR]; properties:", ids)
		os.Exit(2)
	}
	id := os.Args[1]
	fs := flag.NewFlagSet(id, flag.ExitOnError)
	seed := fs.Uint64("seed", 1, "PRNG seed")
	n := fs.Int("n", 1000, "number of generated cases")
	tier := fs.String("tier", "quick", "quick|thorough")
	out := fs.String("out", ".", "output directory")
	corpus := fs.String("corpus", "", "corpus directory (replayed first)")
	shard := fs.Int("shard", 0, "shard index")
	shards := fs.Int("shards", 1, "number of shards")
	fs.Parse(os.Args[2:])
	f, ok := registry[id]
	if !ok {
		fmt.Fprintln(os.Stderr, "unknown property", id)
		os.Exit(2)
	}
	c := newCtx(id, *seed, *n, *tier, *out, *corpus, *shard, *shards)
	f(c)
	c.finish()
}
