//go:build c05 || all

package main

import (
	"bytes"
	"fmt"
	"os"
	"reflect"
	"sort"
	"strings"
	"unicode"

	"mvdan.cc/sh/v3/syntax"
)

// C05 — Formatting keeps every comment.
//
// Streams (tie, model ops): `emit <opts> <skeleton>` — the comment texts found in the real
// printer's output (re-parsed with KeepComments) = the texts the Lean comment-skeleton printer
// emits for the dumped skeleton; `wf <skeleton>` — assume/guarantee: the executable predicate
// WFComments holds of every tree the Go parser returned during the run.
// Spec ops: `specorder <skeleton>` — the field traversal `allComments` of the skeleton is the
// source order (sorted by offset) as computed here from the Go tree.
// Search leg (the property itself, independent of Lean): comment text sequence (trailing white
// space trimmed, ordered by position) of Parse(src) vs Parse(Print(opts, Parse(src))).
func init() { register("C05", c05) }

// ---------------------------------------------------------------------------------------------
// generator: comments in every attachment field

var c05Texts = []string{" c", " note", "", " a b ", " x;y", " $(x) `y`", " trailing\t", "!", " ## ", " é\u00a0", " w\u2003 ", " 'q", " \"dq", " )", " }", " fi", " a\tb", " \\ x", " \\", " f\ff", " v\vt"}

type c05Gen struct {
	n int
}

// ctext returns a comment text (without the hash).  Texts are numbered so that a reordering of
// two comments is visible in the text sequence.
func (x *c05Gen) ctext(g *ProgGen) string {
	x.n++
	t := g.R.Pick(c05Texts)
	if g.R.Chance(50) {
		return fmt.Sprintf(" k%d%s", x.n, t)
	}
	return t
}

// tail is a same-line trailing comment (or nothing).
func (x *c05Gen) tail(g *ProgGen, p int) string {
	if g.R.Chance(p) {
		return " #" + x.ctext(g)
	}
	return ""
}

// lines is zero or more whole-line comments indented by ind tabs (or by a different amount, to
// exercise the column-based splitting the parser does before elif/else/fi and case patterns).
func (x *c05Gen) lines(g *ProgGen, ind int, p int) string {
	var sb strings.Builder
	for i := 0; i < 3 && g.R.Chance(p); i++ {
		k := ind
		if g.R.Chance(30) {
			k = g.R.Intn(ind + 2)
		}
		if g.R.Chance(10) {
			sb.WriteString("\n")
		}
		sb.WriteString(strings.Repeat("\t", k) + "#" + x.ctext(g) + "\n")
	}
	return sb.String()
}

// body is a statement block with comments before, between and after the statements.
func (x *c05Gen) body(g *ProgGen, ind int) string {
	var sb strings.Builder
	n := 1 + g.R.Intn(2)
	tabs := strings.Repeat("\t", ind)
	for i := 0; i < n; i++ {
		sb.WriteString(x.lines(g, ind, 25))
		s := g.stmt(ind)
		sb.WriteString(tabs + s + x.stmtEnd(g) + g.nl())
	}
	sb.WriteString(x.lines(g, ind, 25))
	return sb.String()
}

func (x *c05Gen) stmtEnd(g *ProgGen) string {
	switch g.R.Intn(8) {
	case 0:
		return ";" + x.tail(g, 60)
	case 1:
		return " &" + x.tail(g, 60)
	default:
		return x.tail(g, 35)
	}
}

// extra is the ProgGen.Extra hook: with probability `rate` it replaces the production.
func (x *c05Gen) extra(rate int) func(g *ProgGen, ind int) (string, bool) {
	return func(g *ProgGen, ind int) (string, bool) {
		r := g.R
		if !r.Chance(rate) {
			return "", false
		}
		tabs := strings.Repeat("\t", ind)
		switch k := r.Intn(24); {
		case k == 0 || k == 16: // if / elif / else with comments in Cond, CondLast, Then, ThenLast, Last
			s := "if"
			if r.Chance(30) {
				s += x.tail(g, 50) + "\n" + x.lines(g, ind+1, 40) + tabs + "\t" + g.simple() + x.tail(g, 30) + g.nl() + x.lines(g, ind, 40) + tabs + "then"
			} else {
				s += " " + g.simple() + "; then"
			}
			s += x.tail(g, 30) + g.nl() + x.body(g, ind+1)
			for i := 0; i < 2 && r.Chance(40); i++ {
				s += x.lines(g, ind, 30) + tabs + "elif " + g.simple() + x.tail(g, 20) + g.nl() + x.lines(g, ind, 20) + tabs + "then" + x.tail(g, 30) + g.nl() + x.body(g, ind+1)
			}
			if r.Chance(50) {
				s += x.lines(g, ind, 30) + tabs + "else" + x.tail(g, 40) + g.nl() + x.body(g, ind+1)
			}
			return s + x.lines(g, ind, 20) + tabs + "fi", true
		case k == 1 || k == 15 || k == 21: // while / until: CondLast, DoLast
			s := r.Pick([]string{"while", "until"})
			if r.Chance(40) {
				s += x.tail(g, 40) + "\n" + x.body(g, ind+1) + tabs + "do"
			} else {
				s += " " + g.simple() + x.tail(g, 30) + g.nl() + x.lines(g, ind, 40) + tabs + "do"
			}
			return s + x.tail(g, 40) + g.nl() + x.body(g, ind+1) + tabs + "done", true
		case k == 2 || k == 17: // for: comments between the header and do (Stmt.Comments mid), DoLast
			hdr := "for i in " + g.word() + " " + g.word()
			if g.Bash && r.Chance(20) {
				hdr = "for ((i = 0; i < 3; i++))"
			} else if g.Bash && r.Chance(15) {
				hdr = "select i in a b"
			} else if r.Chance(15) {
				hdr = "for i"
			}
			s := hdr
			if r.Chance(60) {
				s += x.tail(g, 60) + g.nl() + x.lines(g, ind, 40) + tabs + "do"
			} else {
				s += "; do"
			}
			return s + x.tail(g, 40) + g.nl() + x.body(g, ind+1) + tabs + "done", true
		case k == 3 || k == 4: // case: CaseItem.Comments (before / after pattern), CaseItem.Last, CaseClause.Last
			s := "case " + g.word() + x.tailNl(g, tabs, 10) + " in" + x.tail(g, 40) + g.nl()
			for i, n := 0, r.Intn(4); i < n; i++ {
				s += x.lines(g, ind, 40)
				pat := r.Pick([]string{"a", "*", "a|b", "[xy]", "?", "\"q\""})
				if r.Chance(30) {
					pat = "(" + pat
				}
				term := ";;"
				if g.Bash && r.Chance(20) {
					term = r.Pick([]string{";&", ";;&"})
				}
				s += tabs + pat + ")" + x.tail(g, 40) + g.nl()
				switch r.Intn(4) {
				case 0: // empty body
					s += x.lines(g, ind+1, 30)
				default:
					s += x.body(g, ind+1)
				}
				if i == n-1 && r.Chance(20) {
					// last item without terminator
					continue
				}
				s += tabs + "\t" + term + x.tail(g, 40) + g.nl()
			}
			return s + x.lines(g, ind, 40) + tabs + "esac", true
		case k == 5 || k == 19: // block / subshell: Last
			if r.Bool() {
				return "{" + x.tail(g, 50) + g.nl() + x.body(g, ind+1) + tabs + "}", true
			}
			return "(" + x.tail(g, 50) + g.nl() + x.body(g, ind+1) + tabs + ")", true
		case k == 6 || k == 7: // command substitution / process substitution inside a word
			open, cl := "$(", ")"
			if r.Chance(25) {
				open, cl = "`", "`"
			} else if g.Bash && r.Chance(40) {
				open = r.Pick([]string{"<(", ">("})
			}
			pre := r.Pick([]string{"echo ", "x=", "echo a", "echo \"", "foo >"})
			post := ""
			if strings.HasSuffix(pre, "\"") {
				post = "\""
				if open != "$(" {
					open, cl = "$(", ")"
				}
			}
			var in string
			h := g.Heredocs
			g.Heredocs = false
			switch r.Intn(5) {
			case 0:
				in = "#" + x.ctext(g)
				if cl != "`" || r.Bool() {
					in += "\n" + tabs
				}
			case 1:
				in = g.simple() + x.tail(g, 70) + "\n" + tabs
			case 2:
				in = x.tail(g, 50) + "\n" + x.body(g, ind+1) + tabs
			case 3:
				in = g.simple() + "\n" + x.lines(g, ind+1, 70) + tabs
			default:
				in = g.simple()
			}
			g.Heredocs = h
			if cl == "`" {
				in = strings.NewReplacer("`", "", "\\", "").Replace(in)
			}
			return pre + open + in + cl + post + r.Pick([]string{"", " b", "c"}), true
		case (k == 8 || k == 20) && g.Bash: // arrays: ArrayElem.Comments (before / trailing), ArrayExpr.Last
			s := r.Pick([]string{"a=(", "declare -a a=(", "a+=(", "local b=("}) + x.tail(g, 50) + "\n"
			for i, n := 0, r.Intn(4); i < n; i++ {
				s += x.lines(g, ind+1, 35)
				el := g.word()
				if r.Chance(30) {
					el = "[" + fmt.Sprint(i) + "]=" + el
				}
				s += tabs + "\t" + el
				if r.Chance(30) {
					s += " " + g.word()
				}
				s += x.tail(g, 40) + "\n"
			}
			return s + x.lines(g, ind+1, 40) + tabs + ")", true
		case k == 9 || k == 10: // binary commands with comments after the operator
			op := r.Pick([]string{"|", "&&", "||", "|"})
			if g.Bash && r.Chance(10) {
				op = "|&"
			}
			s := g.simple() + " " + op + x.tail(g, 60) + "\n" + x.lines(g, ind+1, 40) + tabs + "\t" + g.simple()
			if r.Chance(40) {
				op2 := r.Pick([]string{"|", "&&", "||"})
				s += " " + op2 + x.tail(g, 60) + "\n" + x.lines(g, ind+1, 30) + tabs + "\t" + g.stmtInline()
			}
			return s, true
		case k == 11 || k == 18: // function declarations: comment between the name and the body
			name := r.Pick([]string{"f", "g", "fn_1"})
			hd := name + "()"
			if g.Bash && r.Chance(30) {
				hd = "function " + name
			}
			if r.Chance(50) {
				return hd + x.tail(g, 70) + "\n" + x.lines(g, ind, 40) + tabs + "{" + x.tail(g, 40) + g.nl() + x.body(g, ind+1) + tabs + "}", true
			}
			return hd + " {" + x.tail(g, 60) + g.nl() + x.body(g, ind+1) + tabs + "}", true
		case k == 12 && g.Heredocs: // heredoc operator followed by a comment, also inside a pipe
			g.hdocN++
			delim := fmt.Sprintf("EOC%d", g.hdocN)
			op := r.Pick([]string{"<<", "<<-"})
			body := ""
			for i, n := 0, r.Intn(3); i < n; i++ {
				body += r.Pick([]string{"line", "$a text", "# not a comment", "\t tabbed", "$(echo x # hc\n)", "$(\n# hd\n)"}) + "\n"
			}
			g.pending = append(g.pending, body+delim+"\n")
			s := r.Pick([]string{"cat ", "cat -n ", ""}) + op + delim
			switch r.Intn(4) {
			case 0:
				s += " | " + g.simple()
			case 1:
				s += " && " + g.simple()
			case 2:
				s += " >" + g.word()
			}
			return s, true
		case k == 13: // redirect-only statement, negation, continuation lines
			switch r.Intn(4) {
			case 0:
				return ">" + g.word(), true
			case 1:
				return "! " + g.simple(), true
			case 2:
				return g.simple() + " \\\n" + tabs + "\t" + g.word() + " \\\n" + tabs + "\t" + g.word(), true
			default:
				return g.simple() + " \\\n" + tabs + "\t| " + g.simple(), true
			}
		case k == 14 && g.Bash: // [[ ]], (( )), time, coproc across lines with comments
			switch r.Intn(4) {
			case 0:
				return "[[ a == b &&" + x.tail(g, 60) + "\n" + tabs + "\tc == d ]]", true
			case 1:
				return "time" + r.Pick([]string{" ", " -p "}) + g.simple(), true
			case 2:
				return "coproc " + g.simple(), true
			default:
				return "{ " + g.simple() + "; } 2>&1 |" + x.tail(g, 60) + "\n" + tabs + "\t" + g.simple(), true
			}
		}
		return "", false
	}
}

// tailNl is a trailing comment followed by a newline and indentation, for positions where the
// construct continues on the next line (e.g. between `case x` and `in`).
func (x *c05Gen) tailNl(g *ProgGen, tabs string, p int) string {
	if g.R.Chance(p) {
		return " #" + x.ctext(g) + "\n" + tabs
	}
	return ""
}

func (x *c05Gen) program(g *ProgGen, n int) string {
	var sb strings.Builder
	r := g.R
	if r.Chance(30) {
		sb.WriteString(r.Pick([]string{"#!/bin/sh\n", "#!/usr/bin/env bash\n", "#! /bin/bash -e\n", "#!/usr/bin/python\n", " #!/bin/sh\n", "\n#!/bin/sh\n", "#!/bin/shx\n", "#!/bin/zsh \n", "# plain\n"}))
	}
	for i := 0; i < n; i++ {
		sb.WriteString(x.lines(g, 0, 25))
		if r.Chance(10) {
			sb.WriteString("\n")
		}
		sb.WriteString(g.stmt(0) + x.stmtEnd(g) + g.nl())
	}
	sb.WriteString(x.lines(g, 0, 30))
	s := sb.String()
	if r.Chance(5) {
		s = strings.TrimRight(s, "\n") // no final newline
	}
	return s
}

// ---------------------------------------------------------------------------------------------
// options

type c05Opts struct {
	indent                                                              uint
	binNext, swtCase, spaceRedirs, keepPad, minify, single, funcNext bool
}

func (o c05Opts) mask() int {
	m := 0
	for i, b := range []bool{o.binNext, o.swtCase, o.spaceRedirs, o.keepPad, o.minify, o.single, o.funcNext} {
		if b {
			m |= 1 << i
		}
	}
	return m | int(o.indent)<<8
}

func c05OptsOf(m int) c05Opts {
	b := func(i int) bool { return m&(1<<i) != 0 }
	return c05Opts{indent: uint(m >> 8), binNext: b(0), swtCase: b(1), spaceRedirs: b(2), keepPad: b(3), minify: b(4), single: b(5), funcNext: b(6)}
}

func (o c05Opts) printer() *syntax.Printer {
	return syntax.NewPrinter(syntax.Indent(o.indent), syntax.BinaryNextLine(o.binNext), syntax.SwitchCaseIndent(o.swtCase),
		syntax.SpaceRedirects(o.spaceRedirs), syntax.KeepPadding(o.keepPad), syntax.Minify(o.minify), syntax.SingleLine(o.single),
		syntax.FunctionNextLine(o.funcNext))
}

func (o c05Opts) String() string { return fmt.Sprint(o.mask()) }

func c05RandOpts(r *Rand) c05Opts {
	o := c05Opts{}
	switch r.Intn(4) {
	case 0:
		o.indent = uint(1 + r.Intn(8))
	}
	o.binNext = r.Chance(30)
	o.swtCase = r.Chance(30)
	o.spaceRedirs = r.Chance(20)
	o.keepPad = r.Chance(15)
	o.funcNext = r.Chance(25)
	switch r.Intn(5) {
	case 0:
		o.minify = true
	case 1, 2:
		o.single = true
	}
	return o
}

// ---------------------------------------------------------------------------------------------
// observation

type c05Com struct {
	offs, line, col uint
	text            string
}

func c05Trim(s string) string { return strings.TrimRightFunc(s, unicode.IsSpace) }

// c05Comments collects every Comment value reachable from the tree by reflection (independent of
// syntax.Walk and of the printer), ordered by offset.
func c05Comments(f *syntax.File) []c05Com { return c05CommentsOf(reflect.ValueOf(f)) }

func c05CommentsOf(root reflect.Value) []c05Com {
	var out []c05Com
	seen := map[uintptr]bool{}
	var rec func(v reflect.Value)
	comT := reflect.TypeOf(syntax.Comment{})
	rec = func(v reflect.Value) {
		switch v.Kind() {
		case reflect.Pointer:
			if v.IsNil() {
				return
			}
			if seen[v.Pointer()] {
				return
			}
			seen[v.Pointer()] = true
			rec(v.Elem())
		case reflect.Interface:
			if !v.IsNil() {
				rec(v.Elem())
			}
		case reflect.Slice:
			for i := 0; i < v.Len(); i++ {
				rec(v.Index(i))
			}
		case reflect.Struct:
			if v.Type() == comT {
				c := v.Interface().(syntax.Comment)
				out = append(out, c05Com{c.Hash.Offset(), c.Hash.Line(), c.Hash.Col(), c.Text})
				return
			}
			for i := 0; i < v.NumField(); i++ {
				if v.Type().Field(i).IsExported() {
					rec(v.Field(i))
				}
			}
		}
	}
	if root.IsValid() {
		rec(root)
	}
	sort.SliceStable(out, func(i, j int) bool { return out[i].offs < out[j].offs })
	return out
}

func c05Texts2(cs []c05Com) []string {
	out := make([]string, len(cs))
	for i, c := range cs {
		out[i] = c05Trim(c.text)
	}
	return out
}

func c05Print(o c05Opts, f *syntax.File) (out string, err error, panicked string) {
	var buf bytes.Buffer
	panicked = safely(func() { err = o.printer().Print(&buf, f) })
	return buf.String(), err, panicked
}

func c05Q(ss []string) string {
	parts := make([]string, len(ss))
	for i, s := range ss {
		parts[i] = fmt.Sprintf("%q", s)
	}
	return "[" + strings.Join(parts, " ") + "]"
}

// c05Judge runs the property's own statement on one (variant, options, source).  It returns ""
// when the property holds or cannot be judged (tag says why), else a description.
func c05Judge(lang syntax.LangVariant, o c05Opts, src string, f *syntax.File) (what, tag string, printed string, got []string) {
	before := c05Comments(f)
	out, err, pn := c05Print(o, f)
	if pn != "" {
		return "", "print-panic", "", nil
	}
	if err != nil {
		return "", "print-error", "", nil
	}
	f2, err2, pn2 := parseIn(out, lang, syntax.KeepComments(true))
	if pn2 != "" || err2 != nil || f2 == nil {
		return "", "reparse-error", out, nil
	}
	after := c05Comments(f2)
	a, b := c05Texts2(before), c05Texts2(after)
	got = b
	if got == nil {
		got = []string{}
	}
	if o.minify {
		// only a shebang on the first line may be kept
		var allowed []string
		if len(before) > 0 && before[0].line == 1 && before[0].col == 1 && strings.HasPrefix(before[0].text, "!") {
			allowed = []string{a[0]}
		}
		switch {
		case len(b) == 0:
			return "", "minify-none", out, got
		case len(b) == 1 && len(allowed) == 1 && b[0] == allowed[0] && after[0].line == 1:
			return "", "minify-shebang", out, got
		}
		return fmt.Sprintf("Minify kept %s; only a first-line shebang %s may be kept; output %q", c05Q(b), c05Q(allowed), out), "minify-bad", out, got
	}
	if len(a) == len(b) {
		same := true
		for i := range a {
			if a[i] != b[i] {
				same = false
			}
		}
		if same {
			return "", "same", out, got
		}
	}
	kind := "changed"
	sa, sb := append([]string{}, a...), append([]string{}, b...)
	sort.Strings(sa)
	sort.Strings(sb)
	switch {
	case strings.Join(sa, "\x00") == strings.Join(sb, "\x00") && len(sa) == len(sb):
		kind = "reordered"
	case len(b) < len(a):
		kind = "lost"
	case len(b) > len(a):
		kind = "gained"
	}
	return fmt.Sprintf("comments %s: source has %s, formatted output has %s; output %q", kind, c05Q(a), c05Q(b), out), kind, out, got
}

// ---------------------------------------------------------------------------------------------
// per-field histogram (walks the parsed tree by hand)

func c05Fields(f *syntax.File) map[string]int {
	h := map[string]int{}
	add := func(k string, n int) {
		if n > 0 {
			h[k] += n
		}
	}
	add("File.Last", len(f.Last))
	var stmts func(ss []*syntax.Stmt)
	var word func(w *syntax.Word)
	var stmt func(s *syntax.Stmt)
	var parts func(ps []syntax.WordPart)
	var arith func(a syntax.ArithmExpr)
	var test func(t syntax.TestExpr)
	var assigns func(as []*syntax.Assign)
	arith = func(a syntax.ArithmExpr) {
		switch a := a.(type) {
		case *syntax.Word:
			word(a)
		case *syntax.BinaryArithm:
			arith(a.X)
			arith(a.Y)
		case *syntax.UnaryArithm:
			arith(a.X)
		case *syntax.ParenArithm:
			arith(a.X)
		case *syntax.FlagsArithm:
			arith(a.X)
		}
	}
	test = func(t syntax.TestExpr) {
		switch t := t.(type) {
		case *syntax.Word:
			word(t)
		case *syntax.BinaryTest:
			test(t.X)
			test(t.Y)
		case *syntax.UnaryTest:
			test(t.X)
		case *syntax.ParenTest:
			test(t.X)
		}
	}
	parts = func(ps []syntax.WordPart) {
		for _, p := range ps {
			switch p := p.(type) {
			case *syntax.DblQuoted:
				parts(p.Parts)
			case *syntax.CmdSubst:
				add("CmdSubst.Last", len(p.Last))
				stmts(p.Stmts)
			case *syntax.ProcSubst:
				add("ProcSubst.Last", len(p.Last))
				stmts(p.Stmts)
			case *syntax.ParamExp:
				if p.NestedParam != nil {
					parts([]syntax.WordPart{p.NestedParam})
				}
				arith(p.Index)
				if p.Slice != nil {
					arith(p.Slice.Offset)
					arith(p.Slice.Length)
				}
				if p.Repl != nil {
					word(p.Repl.Orig)
					word(p.Repl.With)
				}
				if p.Exp != nil {
					word(p.Exp.Word)
				}
			case *syntax.ArithmExp:
				arith(p.X)
			}
		}
	}
	word = func(w *syntax.Word) {
		if w != nil {
			parts(w.Parts)
		}
	}
	assigns = func(as []*syntax.Assign) {
		for _, a := range as {
			arith(a.Index)
			word(a.Value)
			if a.Array != nil {
				add("ArrayExpr.Last", len(a.Array.Last))
				for _, el := range a.Array.Elems {
					for _, c := range el.Comments {
						if c.Pos().After(el.Pos()) {
							add("ArrayElem.Comments.after", 1)
						} else {
							add("ArrayElem.Comments.before", 1)
						}
					}
					arith(el.Index)
					word(el.Value)
				}
			}
		}
	}
	stmt = func(s *syntax.Stmt) {
		if s == nil {
			return
		}
		for _, c := range s.Comments {
			switch {
			case s.Cmd != nil && c.End().After(s.Cmd.End()):
				add("Stmt.Comments.after", 1)
			case c.Pos().After(s.Pos()):
				add("Stmt.Comments.mid", 1)
			default:
				add("Stmt.Comments.before", 1)
			}
		}
		for _, r := range s.Redirs {
			word(r.Word)
			if r.Hdoc != nil {
				n0 := h["CmdSubst.Last"] + h["Stmt.Comments.after"] + h["Stmt.Comments.before"]
				word(r.Hdoc)
				if h["CmdSubst.Last"]+h["Stmt.Comments.after"]+h["Stmt.Comments.before"] > n0 {
					add("in-heredoc-body", 1)
				}
			}
			if r.Op == syntax.Hdoc || r.Op == syntax.DashHdoc {
				for _, c := range s.Comments {
					if c.Pos().After(r.OpPos) && c.Pos().Line() == r.OpPos.Line() {
						add("after-heredoc-op", 1)
					}
				}
			}
		}
		switch c := s.Cmd.(type) {
		case *syntax.CallExpr:
			assigns(c.Assigns)
			for _, w := range c.Args {
				word(w)
			}
		case *syntax.Block:
			add("Block.Last", len(c.Last))
			stmts(c.Stmts)
		case *syntax.Subshell:
			add("Subshell.Last", len(c.Last))
			stmts(c.Stmts)
		case *syntax.IfClause:
			for ic := c; ic != nil; ic = ic.Else {
				add("IfClause.CondLast", len(ic.CondLast))
				add("IfClause.ThenLast", len(ic.ThenLast))
				add("IfClause.Last", len(ic.Last))
				stmts(ic.Cond)
				stmts(ic.Then)
			}
		case *syntax.WhileClause:
			add("WhileClause.CondLast", len(c.CondLast))
			add("WhileClause.DoLast", len(c.DoLast))
			stmts(c.Cond)
			stmts(c.Do)
		case *syntax.ForClause:
			add("ForClause.DoLast", len(c.DoLast))
			switch l := c.Loop.(type) {
			case *syntax.WordIter:
				for _, w := range l.Items {
					word(w)
				}
			case *syntax.CStyleLoop:
				arith(l.Init)
				arith(l.Cond)
				arith(l.Post)
			}
			stmts(c.Do)
		case *syntax.BinaryCmd:
			add("BinaryCmd.Y.Comments", len(c.Y.Comments))
			add("BinaryCmd.X.Comments", len(c.X.Comments))
			stmt(c.X)
			stmt(c.Y)
		case *syntax.FuncDecl:
			add("FuncDecl.Body.Comments", len(c.Body.Comments))
			stmt(c.Body)
		case *syntax.CaseClause:
			add("CaseClause.Last", len(c.Last))
			word(c.Word)
			for _, ci := range c.Items {
				for _, cm := range ci.Comments {
					if cm.Pos().After(ci.Pos()) {
						add("CaseItem.Comments.after", 1)
					} else {
						add("CaseItem.Comments.before", 1)
					}
				}
				add("CaseItem.Last", len(ci.Last))
				for _, w := range ci.Patterns {
					word(w)
				}
				stmts(ci.Stmts)
			}
		case *syntax.ArithmCmd:
			arith(c.X)
		case *syntax.TestClause:
			test(c.X)
		case *syntax.DeclClause:
			assigns(c.Args)
		case *syntax.LetClause:
			for _, e := range c.Exprs {
				arith(e)
			}
		case *syntax.TimeClause:
			stmt(c.Stmt)
		case *syntax.CoprocClause:
			word(c.Name)
			stmt(c.Stmt)
		case *syntax.TestDecl:
			word(c.Description)
			stmt(c.Body)
		}
	}
	stmts = func(ss []*syntax.Stmt) {
		for _, s := range ss {
			stmt(s)
		}
	}
	stmts(f.Stmts)
	return h
}

// ---------------------------------------------------------------------------------------------

func c05(c *Ctx) {
	c.Rule = "programs: corpus witnesses, the repository's own test inputs that contain a '#', and grammar-generated programs (newProgGen + the C05 comment-site productions) with comments in every attachment field; " +
		"each parsed (KeepComments) in every variant it parses in and printed under sampled printer option sets; " +
		"non-trivial = the parsed tree holds ≥ 2 comments in ≥ 2 distinct attachment fields; distinct by (variant, options, source)"
	type job struct {
		src   string
		known bool
		opts  []c05Opts
		langs []syntax.LangVariant
	}
	var jobs []job
	for _, l := range c.CorpusLines() {
		// corpus line: fmt <lang> <optsmask> <hexsrc>
		fs := strings.Fields(l)
		if len(fs) == 2 && fs[0] == "src" {
			// seed program: every variant, the fixed option sets and some sampled ones
			j := job{src: unhx(fs[1]), langs: allLangs}
			j.opts = append(j.opts, c05Opts{}, c05Opts{single: true}, c05Opts{minify: true}, c05Opts{binNext: true, swtCase: true, funcNext: true},
				c05Opts{indent: 2, single: true, binNext: true}, c05Opts{indent: 4, swtCase: true, keepPad: true})
			jobs = append(jobs, j)
			continue
		}
		if len(fs) != 4 || fs[0] != "fmt" {
			continue
		}
		var lang syntax.LangVariant
		found := false
		for _, lv := range allLangs {
			if langName(lv) == fs[1] {
				lang, found = lv, true
			}
		}
		var m int
		fmt.Sscan(fs[2], &m)
		if !found {
			continue
		}
		jobs = append(jobs, job{src: unhx(fs[3]), known: true, opts: []c05Opts{c05OptsOf(m)}, langs: []syntax.LangVariant{lang}})
	}
	var seeds []string
	for _, s := range repoSeeds() {
		if strings.Contains(s, "#") {
			seeds = append(seeds, s)
		}
	}
	nOpts := 4
	if c.Thorough() {
		nOpts = 8
	}
	nSeeds := c.N / 4
	for i := 0; i < c.N; i++ {
		var src string
		if i < nSeeds && len(seeds) > 0 {
			src = seeds[c.R.Intn(len(seeds))]
		} else {
			g := newProgGen(c.R, c.R.Chance(75))
			x := &c05Gen{}
			g.Extra = x.extra(35 + c.R.Intn(40))
			src = x.program(g, 1+c.R.Intn(4))
		}
		j := job{src: src, langs: allLangs}
		j.opts = append(j.opts, c05Opts{}, c05Opts{single: true}, c05Opts{minify: true})
		for k := 3; k < nOpts; k++ {
			j.opts = append(j.opts, c05RandOpts(c.R))
		}
		jobs = append(jobs, j)
	}
	fieldProgs := map[string]int{}
	nProgs := 0
	for _, j := range jobs {
		for _, lang := range j.langs {
			f, err, pn := parseIn(j.src, lang, syntax.KeepComments(true))
			if pn != "" || err != nil || f == nil {
				continue
			}
			fields := c05Fields(f)
			total := 0
			var ftags []string
			for k, n := range fields {
				total += n
				ftags = append(ftags, "field="+k)
			}
			sort.Strings(ftags)
			if lang == syntax.LangBash || len(j.langs) == 1 {
				nProgs++
				for k := range fields {
					fieldProgs[k]++
				}
			}
			sexp, dump, dumpPanic := c05Dump(f)
			if os.Getenv("VERIF_C05_DUMP") != "" {
				fmt.Fprintf(os.Stderr, "DUMP %s %q skip=%q\n%s\n", langName(lang), j.src, dump.skip, sexp)
			}
			if dumpPanic != "" {
				c.Hist["dump-panic"]++
			} else if dump.skip != "" {
				c.Hist["tie-out-of-scope="+dump.skip]++
			}
			var tieMasks, tieGot, specMasks, specGot []string
			for _, o := range j.opts {
				witness := fmt.Sprintf("fmt %s %d %s", langName(lang), o.mask(), hx(j.src))
				what, tag, _, got := c05Judge(lang, o, j.src, f)
				if got != nil && dumpPanic == "" && dump.skip == "" && !j.known {
					// correspondence: the comments found in the real output = the model's ghost output
					switch skip := c05TieSkip(o, f, dump); {
					case skip != "":
						c.Hist["tie-skip="+skip]++
					case !c05Sane(lang, o, j.src):
						c.Hist["tie-skip=roundtrip-broken-without-comments"]++
					default:
						tieMasks = append(tieMasks, fmt.Sprint(o.mask()))
						tieGot = append(tieGot, c05Show(got))
						if c05Excluded(o, f) == "" {
							specMasks = append(specMasks, fmt.Sprint(o.mask()))
							specGot = append(specGot, c05Show(got))
						}
					}
				}
				tags := []string{"lang=" + langName(lang), "search=" + tag, fmt.Sprintf("comments<%d", c05Bucket(total))}
				if !j.known {
					if ex := c05Excluded(o, f); ex != "" {
						// a documented known-finding region (see props/C05.notes.md): not judged
						tags = append(tags, "excluded="+ex)
						if what != "" {
							tags = append(tags, "excluded-would-fail="+ex)
						}
						what = ""
					}
				}
				if what != "" && !c05Sane(lang, o, j.src) {
					// the formatted program does not even re-parse to the same program with all
					// comments removed beforehand: a print/parse round-trip defect (C01's subject),
					// not a statement about comments
					tags = append(tags, "roundtrip-broken-without-comments")
					if !j.known {
						what = ""
					}
				}
				if o.mask() == 0 {
					tags = append(tags, ftags...)
				}
				c.Case(witness, total >= 2 && len(fields) >= 2, tags...)
				if what != "" {
					c.Fail(witness, what)
				}
			}
			if dumpPanic == "" && dump.skip == "" && !j.known {
				ms := "-"
				if len(tieMasks) > 0 {
					ms = strings.Join(tieMasks, ",")
				}
				c.Op("tree "+ms+" "+sexp, "wf=true order="+c05Show(c05Texts2(c05Comments(f)))+" emit="+strings.Join(tieGot, " | "))
				if len(specMasks) > 0 {
					c.Op("specfmt "+strings.Join(specMasks, ",")+" "+sexp, strings.Join(specGot, " | "))
				}
			}
		}
	}
	// number of parsed programs (bash variant) with ≥ 1 comment in each attachment field
	// (counts, so that shards add up; the share is count / programs)
	for k, n := range fieldProgs {
		c.Extra["programs-with "+k] = n
	}
	c.Extra["programs"] = nProgs
}

func c05Bucket(n int) int {
	for _, b := range []int{1, 2, 4, 8, 16, 32, 1 << 30} {
		if n < b {
			return b
		}
	}
	return 0
}

// c05Sane reports whether src, parsed WITHOUT comments and printed with the options, re-parses
// to the same program (compared through the default printer).
func c05Sane(lang syntax.LangVariant, o c05Opts, src string) bool {
	f0, err, pn := parseIn(src, lang)
	if pn != "" || err != nil || f0 == nil {
		return false
	}
	out0, err, pn := c05Print(o, f0)
	if pn != "" || err != nil {
		return false
	}
	f1, err, pn := parseIn(out0, lang)
	if pn != "" || err != nil || f1 == nil {
		return false
	}
	c05NormHdocs(f0)
	c05NormHdocs(f1)
	return c05SameShape(reflect.ValueOf(f0), reflect.ValueOf(f1))
}

// c05Excluded names the known-finding region (if any) the (options, tree) pair lies in.  Each
// region is a precise predicate on the parsed tree; see props/C05.notes.md and
// known-findings.jsonl for the witness of each.
func c05Excluded(o c05Opts, f *syntax.File) string {
	if rs := c05Regions(o, f); len(rs) > 0 {
		return rs[0]
	}
	return ""
}

// c05Regions lists every known-finding region the (options, tree) pair lies in.
func c05Regions(o c05Opts, f *syntax.File) []string {
	var reasons []string
	set := func(r string) {
		for _, x := range reasons {
			if x == r {
				return
			}
		}
		reasons = append(reasons, r)
	}
	has := func(n any) bool { return len(c05CommentsOf(reflect.ValueOf(n))) > 0 }
	var stmtEndsBare func(s *syntax.Stmt) bool
	cmdEndsBare := func(cmd syntax.Command) bool {
		switch c := cmd.(type) {
		case *syntax.TimeClause:
			return c.Stmt == nil || stmtEndsBare(c.Stmt)
		case *syntax.CoprocClause:
			if c.Name == nil {
				if call, ok := c.Stmt.Cmd.(*syntax.CallExpr); ok && len(call.Args) == 1 && len(call.Assigns) == 0 && len(c.Stmt.Redirs) == 0 {
					return true
				}
			}
			return stmtEndsBare(c.Stmt)
		case *syntax.BinaryCmd:
			return stmtEndsBare(c.Y)
		case *syntax.FuncDecl:
			return stmtEndsBare(c.Body)
		}
		return false
	}
	stmtEndsBare = func(s *syntax.Stmt) bool {
		if s == nil || len(s.Redirs) > 0 || s.Background || s.Coprocess || s.Disown {
			return false
		}
		return cmdEndsBare(s.Cmd)
	}
	anyBare, anyYComs, anyInline := false, false, false
	syntax.Walk(f, func(n syntax.Node) bool {
		switch n := n.(type) {
		case *syntax.BinaryCmd:
			if len(n.Y.Comments) > 0 {
				anyYComs = true
			}
			if len(n.Y.Comments) > 0 && len(c05CommentsOf(reflect.ValueOf(n.Y))) > len(n.Y.Comments) {
				after := false
				for _, c := range n.Y.Comments {
					if c.Pos().After(n.Y.Pos()) {
						after = true
					}
				}
				if o.single || after {
					// printed on one line, Y.Comments is queued after Y: behind the comments inside Y
					set("ycomments-after-nested")
				}
			}
		case *syntax.CmdSubst:
			if n.Backquotes && len(n.Stmts) == 0 && len(n.Last) == 1 {
				anyInline = true
			}
		case *syntax.Redirect:
			if n.Hdoc != nil {
				for _, c := range c05CommentsOf(reflect.ValueOf(n.Hdoc)) {
					if c.offs < n.Hdoc.Pos().Offset() {
						// parser: a comment in front of the body is attached inside its first substitution
						set("comment-attached-into-heredoc-body")
					}
				}
			}
		case *syntax.Stmt:
			if n.Cmd != nil && cmdEndsBare(n.Cmd) {
				anyBare = true
				for _, c := range n.Comments {
					if c.End().After(n.Cmd.End()) {
						set("comment-after-bare-time-coproc")
					}
				}
			}
			if fd, ok := n.Cmd.(*syntax.FuncDecl); ok && len(fd.Body.Comments) > 0 && stmtEndsBare(fd.Body) {
				set("comment-after-bare-time-coproc") // comment queued before the body is flushed after it
			}
			if fd, ok := n.Cmd.(*syntax.FuncDecl); ok {
				for _, c := range fd.Body.Comments {
					if c.Pos().After(fd.Body.Pos()) {
						set("funcdecl-body-trailing-comment") // printed before the body
					}
				}
			}
			fc, isFor := n.Cmd.(*syntax.ForClause)
			for _, c := range n.Comments {
				if n.Cmd == nil && c.Pos().After(n.Pos()) {
					for _, r := range n.Redirs {
						if c05HasSubst(r) {
							set("redirect-only-stmt-comment") // printed before the statement, flushed inside its substitution
						}
					}
				}
				if n.Cmd == nil || !c.Pos().After(n.Pos()) || c.End().After(n.Cmd.End()) {
					continue
				}
				// c is what the printer calls a "mid" comment
				if !isFor || c.Pos().After(fc.DoPos) && c.Pos().Line() != fc.DoPos.Line() {
					set("trailing-comment-before-heredoc-body") // Cmd.End() lies after c only because of a heredoc body
				} else if has(fc.Loop) || c05HasSubst(fc.Loop) {
					set("for-header-substitution")
				}
			}
			for _, r := range n.Redirs {
				if r.Hdoc != nil && o.single && has(r.Hdoc) {
					set("single-heredoc-body-comments")
				}
			}
		}
		return true
	})
	if o.single && anyInline && anyYComs {
		// SingleLine keeps Y.Comments pending behind Y; an inline backquote comment is written at once
		set("single-inline-backquote-overtakes")
	}
	if o.single && anyBare && anyYComs {
		// SingleLine queues Y.Comments after Y; they may be flushed right after a bare coproc/time
		set("comment-after-bare-time-coproc")
	}
	return reasons
}

// c05HasSubst reports whether a command or process substitution occurs below n.
func c05HasSubst(n syntax.Node) bool {
	found := false
	syntax.Walk(n, func(n syntax.Node) bool {
		switch n.(type) {
		case *syntax.CmdSubst, *syntax.ProcSubst:
			found = true
		}
		return !found
	})
	return found
}

func c05Show(ts []string) string {
	if len(ts) == 0 {
		return "none"
	}
	return hxs(ts)
}

// c05TieSkip names the reason (if any) why the comments found by re-parsing the printed output
// cannot be expected to equal the model's ghost output although the model is faithful: the
// written comment is altered or swallowed by something outside the comment plumbing (tabwriter,
// spacing, the parser's own defects).  Each reason is one of the documented findings.
func c05TieSkip(o c05Opts, f *syntax.File, d *c05Dumper) string {
	if o.minify && o.keepPad {
		return "minify-with-keeppadding" // p.wantSpace depends on the column counter; not modelled
	}
	if o.minify && d.hasReplyVar {
		return "minify-with-replyvar"
	}
	for _, ex := range c05Regions(o, f) {
		switch ex {
		case "comment-after-bare-time-coproc":
			return ex
		}
	}
	return ""
}

// c05NormHdocs strips the leading tabs of every line of `<<-` heredoc bodies (the printer
// re-indents them; the shell strips them).
func c05NormHdocs(f *syntax.File) {
	syntax.Walk(f, func(n syntax.Node) bool {
		r, ok := n.(*syntax.Redirect)
		if !ok || r.Op != syntax.DashHdoc || r.Hdoc == nil {
			return true
		}
		startOfLine := true
		for _, wp := range r.Hdoc.Parts {
			if l, ok := wp.(*syntax.Lit); ok {
				var sb strings.Builder
				for _, b := range []byte(l.Value) {
					if startOfLine && b == '\t' {
						continue
					}
					startOfLine = b == '\n'
					sb.WriteByte(b)
				}
				l.Value = sb.String()
			} else {
				startOfLine = false
			}
		}
		return true
	})
}

var c05PosT = reflect.TypeOf(syntax.Pos{})
var c05ComsT = reflect.TypeOf([]syntax.Comment{})

// c05SameShape compares two syntax trees ignoring positions, comments and the purely cosmetic
// flags the printer normalises (CmdSubst.Backquotes, ArithmExp.Bracket, ForClause.Braces,
// ParamExp.Short).
func c05SameShape(a, b reflect.Value) bool {
	if a.Kind() != b.Kind() {
		return false
	}
	switch a.Kind() {
	case reflect.Pointer, reflect.Interface:
		if a.IsNil() || b.IsNil() {
			return a.IsNil() == b.IsNil()
		}
		if a.Kind() == reflect.Interface && a.Elem().Type() != b.Elem().Type() {
			return false
		}
		return c05SameShape(a.Elem(), b.Elem())
	case reflect.Slice:
		if a.Type() == c05ComsT {
			return true
		}
		if a.Len() != b.Len() {
			return false
		}
		for i := 0; i < a.Len(); i++ {
			if !c05SameShape(a.Index(i), b.Index(i)) {
				return false
			}
		}
		return true
	case reflect.Struct:
		if a.Type() != b.Type() {
			return false
		}
		if a.Type() == c05PosT {
			return true
		}
		for i := 0; i < a.NumField(); i++ {
			ft := a.Type().Field(i)
			if !ft.IsExported() {
				continue
			}
			switch ft.Name {
			case "Backquotes", "Bracket", "Braces", "Short":
				if ft.Type.Kind() == reflect.Bool {
					continue
				}
			}
			if !c05SameShape(a.Field(i), b.Field(i)) {
				return false
			}
		}
		return true
	case reflect.String:
		return a.String() == b.String()
	case reflect.Bool:
		return a.Bool() == b.Bool()
	case reflect.Int, reflect.Int8, reflect.Int16, reflect.Int32, reflect.Int64:
		return a.Int() == b.Int()
	case reflect.Uint, reflect.Uint8, reflect.Uint16, reflect.Uint32, reflect.Uint64:
		return a.Uint() == b.Uint()
	}
	return true
}
