package main

import (
	"fmt"
	"strings"
)

// RunGen generates deterministic, self-contained, terminating shell programs that use only
// builtins (echo, printf, test, read from here-docs …): suitable for running under both the
// interp package and real bash.
type RunGen struct {
	R     *Rand
	Bash  bool
	depth int
	loops int
	fn    int
}

var rgVars = []string{"a", "b", "x", "y", "n"}
var rgVals = []string{"1", "2", "foo", "a b", "", "x*y", "-n", "07", "10"}

func (g *RunGen) val() string {
	r := g.R
	switch r.Intn(8) {
	case 0:
		return "'" + r.Pick(rgVals) + "'"
	case 1:
		return "\"$" + r.Pick(rgVars) + "\""
	case 2:
		return "\"${" + r.Pick(rgVars) + ":-" + r.Pick([]string{"d", "", "z z"}) + "}\""
	case 3:
		return "$((" + g.arith(2) + "))"
	case 4:
		if g.depth > 0 {
			g.depth--
			defer func() { g.depth++ }()
			return "\"$(" + g.simple() + ")\""
		}
		return "lit"
	case 5:
		// braces that matter: what follows ${name} decides whether Minify may drop them
		return "\"" + r.Pick([]string{"q $a", "${#b}", "$x-$y", "a\\\"b", "t\\\\n",
			"${a}bin", "${a}_x", "${a}1", "${a}\\\nbin", "${a}\\\n_x", "${a}\\\n/y", "${a}[0]", "${a}:b", "${a}${b}z", "${n}0", "$a\\\nbin"}) + "\""
	case 6:
		return r.Pick([]string{"${a#f}", "${b%o}", "${x:+set}", "${y-unset}", "${a}bin", "${a}\\\nbin", "${a}_", "x${n}9"})
	default:
		return r.Pick([]string{"w", "1", "2", "foo", "bar"})
	}
}

func (g *RunGen) arith(d int) string {
	r := g.R
	if d <= 0 || r.Chance(40) {
		return r.Pick([]string{"1", "2", "3", "n", "7", "10"})
	}
	switch r.Intn(6) {
	case 0:
		return "(" + g.arith(d-1) + ")"
	case 1:
		return g.arith(d-1) + " ? " + g.arith(d-1) + " : " + g.arith(d-1)
	case 2:
		return "n " + r.Pick([]string{"+=", "-=", "*="}) + " " + g.arith(d-1)
	default:
		return g.arith(d-1) + " " + r.Pick([]string{"+", "-", "*", "<", ">", "==", "!=", "&&", "||", "%", "/"}) + " " + r.Pick([]string{"1", "2", "3", "5"})
	}
}

func (g *RunGen) simple() string {
	r := g.R
	switch r.Intn(10) {
	case 0:
		return "echo " + g.val() + " " + g.val()
	case 1:
		return "printf '%s|' " + g.val() + " " + g.val()
	case 2:
		return r.Pick(rgVars) + "=" + g.val()
	case 3:
		return r.Pick([]string{"true", "false", ":"})
	case 4:
		return "[ " + g.val() + " " + r.Pick([]string{"=", "!="}) + " " + g.val() + " ]"
	case 5:
		return "n=$((" + g.arith(2) + "))"
	case 6:
		return "echo \"st=$?\""
	case 7:
		if g.fn > 0 {
			return fmt.Sprintf("f%d %s", 1+r.Intn(g.fn), g.val())
		}
		return "echo nofn"
	case 8:
		return "echo " + g.val() + " >&2"
	default:
		return "echo " + g.val()
	}
}

func (g *RunGen) body(ind int) string {
	var sb strings.Builder
	for i, n := 0, 1+g.R.Intn(2); i < n; i++ {
		sb.WriteString(strings.Repeat("\t", ind) + g.stmt(ind) + "\n")
	}
	return sb.String()
}

func (g *RunGen) stmt(ind int) string {
	r := g.R
	if g.depth <= 0 {
		return g.simple()
	}
	g.depth--
	defer func() { g.depth++ }()
	tabs := strings.Repeat("\t", ind)
	switch k := r.Intn(27); {
	case k < 8:
		return g.simple()
	case k < 10:
		return g.simple() + " " + r.Pick([]string{"&&", "||"}) + " " + g.simple()
	case k == 10:
		return "! " + g.simple()
	case k == 11:
		return "(" + g.simple() + "; " + g.simple() + ")"
	case k == 12:
		return "{ " + g.simple() + "; " + g.simple() + "; }"
	case k == 13:
		s := "if " + g.simple() + "; then\n" + g.body(ind+1)
		if r.Bool() {
			s += tabs + "else\n" + g.body(ind+1)
		}
		return s + tabs + "fi"
	case k == 14 && g.loops < 2:
		g.loops++
		defer func() { g.loops-- }()
		v := fmt.Sprintf("i%d", g.loops)
		return v + "=0\n" + tabs + "while [ $" + v + " -lt " + r.Pick([]string{"1", "2", "3"}) + " ]; do\n" + g.body(ind+1) + tabs + "\t" + v + "=$((" + v + " + 1))\n" + tabs + "done"
	case k == 15:
		return "for w in " + g.val() + " " + g.val() + "; do\n" + g.body(ind+1) + tabs + "done"
	case k == 16:
		return "case " + g.val() + " in\n" + tabs + r.Pick([]string{"1", "f*", "a?b", "\"\""}) + ")\n" + g.body(ind+1) + tabs + "\t;;\n" + tabs + "*)\n" + g.body(ind+1) + tabs + "\t;;\n" + tabs + "esac"
	case k == 17:
		return g.simple() + " | { read -r l; echo \"got:$l\"; }"
	case k == 18:
		if r.Bool() {
			// `<<-`: body and delimiter indented with tabs, as deep as the statement (seeded change C03-3 wrote the
			// closing delimiter with spaces under Indent(n>0), which only shows below the top level)
			t := strings.Repeat("\t", ind+r.Intn(2))
			return "cat <<-EOF\n" + t + r.Pick([]string{"line $a", "x $((1+1))", "plain", "$(echo sub)"}) + "\n" + t + "second \\$b\n" + t + "EOF\n" + tabs + "echo after-hdoc"
		}
		return "cat <<EOF\n" + r.Pick([]string{"line $a", "x\t$((1+1))", "plain", "$(echo sub)"}) + "\nsecond \\$b\nEOF"
	case k == 19:
		return "while read -r l; do echo \"<$l>\"; done <<'E'\none\ntwo  three\nE"
	case k == 20 && g.Bash:
		return "[[ " + g.val() + " " + r.Pick([]string{"==", "!=", "<"}) + " " + r.Pick([]string{"f*", "\"a b\"", "1"}) + " ]] && echo m"
	case k == 21 && g.Bash:
		return "arr=(" + g.val() + " " + g.val() + " c); echo \"${arr[1]}\" \"${#arr[@]}\"; for e in \"${arr[@]}\"; do echo \"e=$e\"; done"
	case k == 22 && g.Bash:
		return "((n++)); echo $n; ((" + g.arith(1) + ")) || echo zero"
	case k == 23 && g.Bash:
		return "echo $'a\\tb' \"${a^^}\" \"${b:1:2}\" \"${x/o/0}\""
	case k == 24:
		// positional parameters with blanks, empty strings and glob characters: a list of exactly $@ / "$@" / $* / nothing
		// (seeded change C03-2 rewrote `for i in $@` to `for i`, which only differs for such parameters)
		list := r.Pick([]string{" in $@", " in \"$@\"", " in ${@}", " in $*", " in \"$*\"", "", " in", " in \"${@}\"", " in $@ $@", " in x$@"})
		sep := r.Pick([]string{"; do\n", "\ndo\n"})
		if list == "" && r.Bool() {
			sep = " do\n"
		}
		return "set -- " + g.val() + " '' 'p q' " + r.Pick([]string{"'*'", "r", "' s '"}) + "\n" + tabs + "for p" + list + sep + tabs + "\techo \"p=<$p>\"\n" + tabs + "done"
	case k == 25:
		return "set -- " + g.val() + " 'u v' ''; echo \"$#:$1:$*\"; shift; echo \"$#\" \"$@\"; printf '<%s>' $@ \"$@\"; echo"
	case k == 26 && g.fn > 0:
		return fmt.Sprintf("f%d 'a  b' '' %s", 1+r.Intn(g.fn), g.val())
	default:
		return g.simple()
	}
}

// Program returns a whole runnable program.
func (g *RunGen) Program() string {
	var sb strings.Builder
	sb.WriteString("a=foo; b='a b'; x=; n=3\n")
	nf := g.R.Intn(3)
	for i := 1; i <= nf; i++ {
		g.depth = 2
		argloop := ""
		if g.R.Bool() {
			argloop = "\tfor q" + g.R.Pick([]string{"", " in $@", " in \"$@\"", " in $*"}) + "; do echo \"q=<$q>\"; done\n"
		}
		sb.WriteString(fmt.Sprintf("f%d() {\n\techo \"f%d:$1:$#\"\n%s%s\treturn %d\n}\n", i, i, argloop, g.body(1), g.R.Intn(3)))
		g.fn = i
	}
	for i, n := 0, 2+g.R.Intn(5); i < n; i++ {
		g.depth = 3
		sb.WriteString(g.stmt(0) + "\n")
	}
	sb.WriteString("echo \"end:$?:$a:$n\"\n")
	return sb.String()
}

func newRunGen(r *Rand, bash bool) *RunGen { return &RunGen{R: r, Bash: bash} }

// nondeterministic reports whether a program mentions things whose output differs between runs
// or engines for reasons unrelated to the property under test.
func nondeterministic(src string) bool {
	for _, bad := range []string{"$$", "RANDOM", "PPID", "SECONDS", "date", "sleep", "/tmp", "mktemp", "BASHPID", "$!", "LINENO", "EPOCH", "pwd", "PWD", "HOME", "uname", "hostname", "whoami", "ps ", "kill", "wait", "jobs", "time ", "ulimit", "umask", "trap", "exec ", "bash ", "sh ", "$0", "BASH_", "FUNCNAME", "caller", "history", "select ", "read -t", "coproc", "&\n", "& ", "&;", "<(", ">(", "mkfifo", "ls", "find", "stat", "touch"} {
		if strings.Contains(src, bad) {
			return true
		}
	}
	return strings.HasSuffix(strings.TrimRight(src, "\n"), "\\")
}
