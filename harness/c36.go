//go:build c36 || all

package main

import (
	"bytes"
	"fmt"
	"io/fs"
	"os"
	"os/exec"
	"path/filepath"
	"regexp"
	"sort"
	"strconv"
	"strings"
	"sync"
	"time"

	diffpkg "github.com/rogpeppe/go-internal/diff"
	"mvdan.cc/editorconfig"

	"mvdan.cc/sh/v3/fileutil"
	"mvdan.cc/sh/v3/syntax"
)

// C36 — shfmt's list, diff, write and stdin modes agree.
//
// The harness builds the real shfmt binary from /repo's current tree on every run, materialises
// generated directory trees under $VERIF_WORK and runs the binary on them.
//
// Tie (c.Op):    `run`/`stdin` lines: the binary's stdout, stderr lines, exit status and the files it
//
//	rewrote = the Lean model's prediction, given the formatter's result (computed
//	in-process with the syntax package under the options the harness planned; the model
//	recomputes the options itself and reports a plan-mismatch otherwise).
//	`shebang`, `cbs` lines: fileutil.Shebang / CouldBeScript2 in-process.
//	`specpatch`: the Lean patcher applied to the diff text the binary printed.
//
// Search (c.Fail): the property's statements run on the binary alone (S1 -l, S2 -d + a Go reference
//
//	patcher, S3 -w then -l, S4 stdin = file, S5 flags = equivalent EditorConfig).
func init() { register("C36", c36) }

// ---------------------------------------------------------------------------------------------
// binary

var c36BinOnce sync.Once
var c36Bin string
var c36BinErr string

func c36WorkDir(c *Ctx) string {
	base := os.Getenv("VERIF_WORK")
	if base == "" {
		base = c.Out
	}
	base, _ = filepath.Abs(base)
	return base
}

func c36Build(c *Ctx) (string, string) {
	c36BinOnce.Do(func() {
		w := c36WorkDir(c)
		os.MkdirAll(w, 0o755)
		bin := filepath.Join(w, "shfmt")
		cmd := exec.Command("go", "build", "-o", bin, "./cmd/shfmt")
		cmd.Dir = repoDir()
		cmd.Env = append(os.Environ(), "GOFLAGS=-mod=mod", "GOPROXY=off")
		out, err := cmd.CombinedOutput()
		if err != nil {
			c36BinErr = fmt.Sprintf("go build ./cmd/shfmt failed: %v\n%s", err, out)
			return
		}
		c36Bin = bin
		// Nothing above the scratch trees may contribute EditorConfig properties.
		os.MkdirAll(filepath.Join(w, "scratch"), 0o755)
		os.WriteFile(filepath.Join(w, "scratch", ".editorconfig"), []byte("root = true\n"), 0o644)
		os.MkdirAll(filepath.Join(w, "tmp"), 0o755)
	})
	return c36Bin, c36BinErr
}

type c36RunRes struct {
	stdout, stderr string
	status         int
	timedOut       bool
}

// c36Run runs the binary; a run that exceeds the time limit (fsync stalls on a loaded machine)
// is repeated, and only a third timeout is reported.  -w runs are not repeated blindly: the
// caller's tree may be half-written, but every write is atomic and the formatter is a function
// of the file, so a repeated -w run still ends in the same final state; its stdout may differ,
// hence such a case is reported as timed out after the first attempt already.
func c36Run(c *Ctx, dir string, stdin *string, args ...string) c36RunRes {
	var r c36RunRes
	for attempt := 0; attempt < 3; attempt++ {
		r = c36RunOnce(c, dir, stdin, args...)
		if !r.timedOut {
			return r
		}
		for _, a := range args {
			if a == "-w" || a == "--write" {
				return r
			}
		}
	}
	return r
}

func c36RunOnce(c *Ctx, dir string, stdin *string, args ...string) c36RunRes {
	cmd := exec.Command(c36Bin, args...)
	cmd.Dir = dir
	cmd.Env = []string{"PATH=/usr/bin:/bin", "HOME=" + c36WorkDir(c), "TMPDIR=" + filepath.Join(c36WorkDir(c), "tmp"), "LC_ALL=C"}
	var so, se bytes.Buffer
	cmd.Stdout, cmd.Stderr = &so, &se
	if stdin != nil {
		cmd.Stdin = strings.NewReader(*stdin)
	}
	done := make(chan error, 1)
	if err := cmd.Start(); err != nil {
		return c36RunRes{stderr: err.Error(), status: -1}
	}
	go func() { done <- cmd.Wait() }()
	var r c36RunRes
	select {
	case <-done:
	case <-time.After(180 * time.Second):
		cmd.Process.Kill()
		<-done
		r.timedOut = true
	}
	r.stdout, r.stderr = so.String(), se.String()
	r.status = cmd.ProcessState.ExitCode()
	return r
}

// ---------------------------------------------------------------------------------------------
// flags

type c36Flags struct {
	list, find         string // f t 0
	write, diff, ai    bool
	detect             string // d e a
	filename           string
	ln                 string // - bash posix mksh bats zsh auto
	p, s               string // - 0 1
	indent             string // - or number
	bn, ci, sr, kp, fn string
	mn                 string
}

func c36NoFlags() c36Flags {
	return c36Flags{list: "f", find: "f", detect: "d", ln: "-", p: "-", s: "-", indent: "-", bn: "-", ci: "-", sr: "-", kp: "-", fn: "-", mn: "-"}
}

func b01(b bool) string {
	if b {
		return "1"
	}
	return "0"
}

func (f c36Flags) token() string {
	return strings.Join([]string{f.list, b01(f.write), b01(f.diff), f.find, b01(f.ai), f.detect, hx(f.filename),
		f.ln, f.p, f.s, f.indent, f.bn, f.ci, f.sr, f.kp, f.fn, f.mn}, ",")
}

func c36ParseFlags(tok string) (c36Flags, bool) {
	p := strings.Split(tok, ",")
	if len(p) != 17 {
		return c36Flags{}, false
	}
	return c36Flags{list: p[0], write: p[1] == "1", diff: p[2] == "1", find: p[3], ai: p[4] == "1", detect: p[5],
		filename: unhx(p[6]), ln: p[7], p: p[8], s: p[9], indent: p[10], bn: p[11], ci: p[12], sr: p[13], kp: p[14], fn: p[15], mn: p[16]}, true
}

// args renders the command line; `long` picks the long spellings.
func (f c36Flags) args(long bool) []string {
	var a []string
	name := func(short, lng string) string {
		if long || short == "" {
			return "--" + lng
		}
		return "-" + short
	}
	tri := func(v, short, lng string) {
		switch v {
		case "t":
			a = append(a, name(short, lng))
		case "0":
			a = append(a, name(short, lng)+"=0")
		}
	}
	ob := func(v, short, lng string) {
		switch v {
		case "1":
			a = append(a, name(short, lng))
		case "0":
			a = append(a, name(short, lng)+"=false")
		}
	}
	tri(f.list, "l", "list")
	if f.write {
		a = append(a, name("w", "write"))
	}
	if f.diff {
		a = append(a, name("d", "diff"))
	}
	tri(f.find, "f", "find")
	if f.ai {
		a = append(a, "--apply-ignore")
	}
	switch f.detect {
	case "e":
		a = append(a, "--detect", "exec")
	case "a":
		a = append(a, "--detect=all")
	}
	if f.filename != "" {
		a = append(a, "--filename", f.filename)
	}
	if f.ln != "-" {
		if long {
			a = append(a, "--language-dialect="+f.ln)
		} else {
			a = append(a, "-ln", f.ln)
		}
	}
	ob(f.p, "p", "posix")
	ob(f.s, "s", "simplify")
	if f.indent != "-" {
		if long {
			a = append(a, "--indent", f.indent)
		} else {
			a = append(a, "-i="+f.indent)
		}
	}
	ob(f.bn, "bn", "binary-next-line")
	ob(f.ci, "ci", "case-indent")
	ob(f.sr, "sr", "space-redirects")
	ob(f.kp, "kp", "keep-padding")
	ob(f.fn, "fn", "func-next-line")
	ob(f.mn, "mn", "minify")
	return a
}

func (f c36Flags) useEC() bool {
	return f.ln == "-" && f.p == "-" && f.s == "-" && f.indent == "-" && f.bn == "-" && f.ci == "-" &&
		f.sr == "-" && f.kp == "-" && f.fn == "-" && f.mn == "-"
}

func (f c36Flags) modeless() c36Flags {
	g := f
	g.list, g.find, g.write, g.diff = "f", "f", false, false
	return g
}

// ---------------------------------------------------------------------------------------------
// planner: the harness' own reading of the documentation (man page), used to compute the
// formatter result the model needs as input.  A wrong plan shows up as a tie mismatch.

type c36Opts struct {
	lang                       string
	indent                     uint
	bn, ci, sr, kp, fn, mn, si bool
}

func (o c36Opts) String() string {
	return fmt.Sprintf("%s/%d/%s/%s/%s/%s/%s/%s/%s", o.lang, o.indent, b01(o.bn), b01(o.ci), b01(o.sr), b01(o.kp), b01(o.fn), b01(o.mn), b01(o.si))
}

func c36LangCanon(s string) string {
	switch s {
	case "bash", "mksh", "bats", "zsh", "auto":
		return s
	case "posix", "sh", "dash":
		return "posix"
	}
	return ""
}

func c36LangFromName(name string) string {
	switch strings.TrimPrefix(filepath.Base(name), ".") {
	case "bash_profile", "bashrc", "bash_logout":
		return "bash"
	case "zshenv", "zprofile", "zshrc", "zlogin", "zlogout":
		return "zsh"
	}
	ext := strings.TrimPrefix(filepath.Ext(name), ".")
	if ext == "sh" {
		return "auto"
	}
	if l := c36LangCanon(ext); l != "" {
		return l
	}
	return "auto"
}

func (f c36Flags) lnVal() string {
	if f.p == "1" {
		return "posix"
	}
	if f.ln == "-" {
		return "auto"
	}
	return f.ln
}

// planLang: language of a path (head = what is searched for a shebang).
func c36PlanLang(f c36Flags, name string, head string) string {
	if l := f.lnVal(); l != "auto" {
		return l
	}
	if l := c36LangFromName(name); l != "auto" {
		return l
	}
	if l := c36LangCanon(fileutil.Shebang([]byte(head))); l != "" && l != "auto" {
		return l
	}
	return "bash"
}

func c36Head(src string) string {
	if len(src) > 32 {
		return src[:32]
	}
	return src
}

type c36Props []editorconfig.Property

func (p c36Props) get(k string) string {
	for _, x := range p {
		if x.Name == k {
			return x.Value
		}
	}
	return ""
}

func (p c36Props) token() string {
	if len(p) == 0 {
		return "."
	}
	parts := make([]string, len(p))
	for i, x := range p {
		parts[i] = hx(x.Name) + ":" + hx(x.Value)
	}
	return strings.Join(parts, ";")
}

// planOpts returns the options and whether they exist (false: shfmt is expected to crash).
func c36PlanOpts(f c36Flags, lang string, props c36Props) (c36Opts, bool) {
	if !f.useEC() {
		ind, _ := strconv.ParseUint(strings.TrimPrefix(f.indent, "-"), 10, 32)
		return c36Opts{lang: lang, indent: uint(ind), bn: f.bn == "1", ci: f.ci == "1", sr: f.sr == "1", kp: f.kp == "1",
			fn: f.fn == "1", mn: f.mn == "1", si: f.s == "1" || f.mn == "1"}, true
	}
	if l := c36LangCanon(props.get("shell_variant")); l != "" && l != "auto" {
		lang = l // "auto" keeps the detected language
	}
	if lang == "auto" {
		return c36Opts{}, false
	}
	o := c36Opts{lang: lang}
	if props.get("indent_style") == "space" {
		o.indent = 8
		if n, _ := strconv.Atoi(props.get("indent_size")); n > 0 {
			o.indent = uint(n)
		}
	}
	o.bn = props.get("binary_next_line") == "true"
	o.ci = props.get("switch_case_indent") == "true"
	o.sr = props.get("space_redirects") == "true"
	o.kp = props.get("keep_padding") == "true"
	o.fn = props.get("function_next_line") == "true"
	o.mn = props.get("minify") == "true"
	o.si = o.mn || props.get("simplify") == "true"
	return o, true
}

func c36LangVariant(s string) syntax.LangVariant {
	switch s {
	case "posix":
		return syntax.LangPOSIX
	case "mksh":
		return syntax.LangMirBSDKorn
	case "bats":
		return syntax.LangBats
	case "zsh":
		return syntax.LangZsh
	}
	return syntax.LangBash
}

// c36Format runs the real parser and printer in-process.  kind: ok | le (LangError) | pe | panic.
func c36Format(o c36Opts, path, src string) (kind, text string) {
	p := safely(func() {
		parser := syntax.NewParser(syntax.KeepComments(true), syntax.Variant(c36LangVariant(o.lang)))
		node, err := parser.Parse(strings.NewReader(src), path)
		if err != nil {
			if _, ok := err.(syntax.LangError); ok {
				kind, text = "le", err.Error()
			} else {
				kind, text = "pe", err.Error()
			}
			return
		}
		if o.si {
			syntax.Simplify(node)
		}
		printer := syntax.NewPrinter(syntax.Minify(o.mn), syntax.Indent(o.indent), syntax.BinaryNextLine(o.bn),
			syntax.SwitchCaseIndent(o.ci), syntax.SpaceRedirects(o.sr), syntax.KeepPadding(o.kp), syntax.FunctionNextLine(o.fn))
		var buf bytes.Buffer
		printer.Print(&buf, node)
		kind, text = "ok", buf.String()
	})
	if p != "" {
		return "panic", p
	}
	return
}

// ---------------------------------------------------------------------------------------------
// trees

type c36File struct {
	rel     string
	kind    string // reg dir lnk
	mode    os.FileMode
	content string // file bytes, or the link target
}

type c36Case struct {
	flags c36Flags // parser/printer/walk flags (mode flags are set per run)
	args  []string // path arguments
	files []c36File
}

func (cs c36Case) witness() string {
	parts := []string{"case", cs.flags.modeless().token(), "a=" + strings.Join(mapStr(cs.args, hx), ",")}
	for _, f := range cs.files {
		parts = append(parts, fmt.Sprintf("%s:%s:%o:%s", hx(f.rel), f.kind, f.mode, hx(f.content)))
	}
	return strings.Join(parts, " ")
}

func mapStr(ss []string, f func(string) string) []string {
	out := make([]string, len(ss))
	for i, s := range ss {
		out[i] = f(s)
	}
	return out
}

func c36ParseCase(line string) (c36Case, bool) {
	toks := strings.Fields(line)
	if len(toks) < 3 || toks[0] != "case" || !strings.HasPrefix(toks[2], "a=") {
		return c36Case{}, false
	}
	var cs c36Case
	var ok bool
	bad := safely(func() {
		cs.flags, ok = c36ParseFlags(toks[1])
		if a := strings.TrimPrefix(toks[2], "a="); a != "" {
			cs.args = mapStr(strings.Split(a, ","), unhx)
		}
		for _, t := range toks[3:] {
			p := strings.Split(t, ":")
			if len(p) != 4 {
				ok = false
				return
			}
			m, _ := strconv.ParseUint(p[2], 8, 32)
			cs.files = append(cs.files, c36File{rel: unhx(p[0]), kind: p[1], mode: os.FileMode(m), content: unhx(p[3])})
		}
	})
	return cs, ok && bad == ""
}

func c36Materialise(root string, files []c36File) error {
	if err := os.MkdirAll(root, 0o755); err != nil {
		return err
	}
	for _, f := range files {
		p := filepath.Join(root, f.rel)
		switch f.kind {
		case "dir":
			if err := os.MkdirAll(p, 0o755); err != nil {
				return err
			}
		case "lnk":
			os.MkdirAll(filepath.Dir(p), 0o755)
			if err := os.Symlink(f.content, p); err != nil {
				return err
			}
		default:
			os.MkdirAll(filepath.Dir(p), 0o755)
			if err := os.WriteFile(p, []byte(f.content), f.mode); err != nil {
				return err
			}
			os.Chmod(p, f.mode)
		}
	}
	return nil
}

// snapshot of regular files: rel → content
func c36Snapshot(root string) map[string]string {
	out := map[string]string{}
	filepath.WalkDir(root, func(p string, d fs.DirEntry, err error) error {
		if err != nil {
			return nil
		}
		rel, _ := filepath.Rel(root, p)
		if d.Type().IsRegular() {
			b, _ := os.ReadFile(p)
			out[rel] = string(b)
		} else if d.Type()&fs.ModeSymlink != 0 {
			t, _ := os.Readlink(p)
			out[rel] = "\x00symlink:" + t
		} else if d.IsDir() {
			out[rel] = "\x00dir"
		}
		return nil
	})
	return out
}

// ---------------------------------------------------------------------------------------------
// entries

type c36Entry struct {
	path           string
	explicit       bool
	kind, skind    string
	exec           bool
	src            string
	pS, pB, pZ     c36Props
	guess          string // opts token or "none"
	opts           c36Opts
	planned        bool
	resKind, resTx string // ok le pe none
	diff           string
}

func (e c36Entry) token() string {
	res := "none"
	if e.resKind != "" && e.resKind != "none" {
		res = e.resKind + ":" + hx(e.resTx)
	}
	return strings.Join([]string{hx(e.path), b01(e.explicit), e.kind, e.skind, b01(e.exec), hx(e.src),
		e.pS.token(), e.pB.token(), e.pZ.token(), e.guess, res, hx(e.diff)}, ",")
}

func c36KindOf(m fs.FileMode) string {
	switch {
	case m.IsRegular():
		return "reg"
	case m.IsDir():
		return "dir"
	case m&fs.ModeSymlink != 0:
		return "lnk"
	}
	return "oth"
}

func c36Find(q *editorconfig.Query, abs string, langs ...string) c36Props {
	s, err := q.Find(abs, langs)
	if err != nil {
		return nil
	}
	return c36Props(s.Properties)
}

// plan fills guess/res/diff for an entry holding source bytes.
func (e *c36Entry) plan(f c36Flags, lang string) (fmtPanic bool) {
	props := e.pS
	switch lang {
	case "bash", "bats":
		props = e.pB
	case "zsh":
		props = e.pZ
	}
	o, ok := c36PlanOpts(f, lang, props)
	if !ok {
		e.guess, e.resKind = "none", "none"
		return false
	}
	e.opts, e.planned, e.guess = o, true, o.String()
	e.resKind, e.resTx = c36Format(o, e.path, e.src)
	if e.resKind == "panic" {
		return true
	}
	if e.resKind == "ok" {
		e.diff = string(diffpkg.Diff(e.path+".orig", []byte(e.src), e.path, []byte(e.resTx)))
	}
	return false
}

// c36Entries lists, for each argument, the complete tree below it in filepath.WalkDir order.
func c36Entries(root string, f c36Flags, args []string) (ents []c36Entry, fmtPanic bool) {
	q := &editorconfig.Query{FileCache: map[string]*editorconfig.File{}, RegexpCache: map[string]*regexp.Regexp{}}
	var walk func(rel string, explicit bool)
	walk = func(rel string, explicit bool) {
		abs := filepath.Join(root, rel)
		e := c36Entry{path: rel, explicit: explicit, guess: "none", resKind: "none"}
		info, err := os.Lstat(abs)
		if err != nil {
			e.kind, e.skind = "mis", "mis"
			ents = append(ents, e)
			return
		}
		e.kind = c36KindOf(info.Mode())
		e.skind = e.kind
		mode := info.Mode()
		if e.kind == "lnk" {
			if si, err := os.Stat(abs); err != nil {
				e.skind = "mis"
			} else {
				e.skind = c36KindOf(si.Mode())
				if explicit {
					mode = si.Mode()
				}
			}
		}
		e.exec = mode&0o111 != 0
		e.pS = c36Find(q, abs, "shell")
		e.pB = c36Find(q, abs, "shell", "bash")
		e.pZ = c36Find(q, abs, "shell", "zsh")
		if e.kind == "reg" || (e.kind == "lnk" && e.skind == "reg" && explicit) {
			b, _ := os.ReadFile(abs)
			e.src = string(b)
			if e.plan(f, c36PlanLang(f, rel, c36Head(e.src))) {
				fmtPanic = true
			}
		}
		ents = append(ents, e)
		if e.kind == "dir" {
			des, _ := os.ReadDir(abs)
			for _, de := range des {
				walk(filepath.Join(rel, de.Name()), false)
			}
		}
	}
	for _, a := range args {
		walk(a, true)
	}
	return
}

// ---------------------------------------------------------------------------------------------
// observation of one run, rendered like the driver's result line

func c36Observe(r c36RunRes, before, after map[string]string, order []c36Entry) string {
	panicked := "0"
	stderr := r.stderr
	if i := strings.Index(stderr, "panic: "); i >= 0 && (i == 0 || stderr[i-1] == '\n') {
		panicked = "1"
		stderr = stderr[:i]
	}
	var errs []string
	for _, l := range strings.Split(stderr, "\n") {
		if l != "" {
			errs = append(errs, hx(l))
		}
	}
	es := "."
	if len(errs) > 0 {
		es = strings.Join(errs, ";")
	}
	var ws []string
	seen := map[string]bool{}
	for _, e := range order {
		if seen[e.path] {
			continue
		}
		seen[e.path] = true
		rel := filepath.Clean(e.path)
		if b, ok := before[rel]; ok && after[rel] != b {
			ws = append(ws, hx(e.path)+":"+hx(after[rel]))
		}
	}
	// anything else that changed (new or vanished names) is reported too, so it cannot hide
	var extra []string
	for k, v := range after {
		if b, ok := before[k]; !ok {
			extra = append(extra, "NEW:"+hx(k))
		} else if b != v && !seenClean(order, k) {
			extra = append(extra, "CHANGED:"+hx(k))
		}
	}
	for k := range before {
		if _, ok := after[k]; !ok {
			extra = append(extra, "GONE:"+hx(k))
		}
	}
	sort.Strings(extra)
	ws = append(ws, extra...)
	w := "."
	if len(ws) > 0 {
		w = strings.Join(ws, ";")
	}
	if r.timedOut {
		return "timeout"
	}
	return fmt.Sprintf("st=%d panic=%s out=%s err=%s w=%s", r.status, panicked, hx(r.stdout), es, w)
}

func seenClean(order []c36Entry, k string) bool {
	for _, e := range order {
		if filepath.Clean(e.path) == k {
			return true
		}
	}
	return false
}

// ---------------------------------------------------------------------------------------------
// reference unified-diff patcher (Go; independent of the Lean one)

type c36FileDiff struct {
	oldName, newName string
	hunks            []c36Hunk
	raw              string // the text of this file's diff as printed
}
type c36Hunk struct {
	oldStart, oldCount, newStart, newCount int
	body                                   []string // tag + text (text keeps its newline unless a marker followed)
}

var c36HunkRe = regexp.MustCompile(`^@@ -(\d+),(\d+) \+(\d+),(\d+) @@\n$`)

const c36Marker = "\\ No newline at end of file\n"

func c36SplitAfter(s string) []string {
	l := strings.SplitAfter(s, "\n")
	if l[len(l)-1] == "" {
		l = l[:len(l)-1]
	}
	return l
}

func c36ParseDiffs(out string) ([]c36FileDiff, error) {
	lines := c36SplitAfter(out)
	var res []c36FileDiff
	i := 0
	for i < len(lines) {
		if !strings.HasPrefix(lines[i], "diff ") || i+2 >= len(lines) ||
			!strings.HasPrefix(lines[i+1], "--- ") || !strings.HasPrefix(lines[i+2], "+++ ") {
			return nil, fmt.Errorf("line %d: expected a diff header, got %q", i+1, lines[i])
		}
		fd := c36FileDiff{oldName: strings.TrimSuffix(lines[i+1][4:], "\n"), newName: strings.TrimSuffix(lines[i+2][4:], "\n")}
		first := i
		i += 3
		for i < len(lines) && strings.HasPrefix(lines[i], "@@") {
			m := c36HunkRe.FindStringSubmatch(lines[i])
			if m == nil {
				return nil, fmt.Errorf("line %d: bad hunk header %q", i+1, lines[i])
			}
			var h c36Hunk
			h.oldStart, _ = strconv.Atoi(m[1])
			h.oldCount, _ = strconv.Atoi(m[2])
			h.newStart, _ = strconv.Atoi(m[3])
			h.newCount, _ = strconv.Atoi(m[4])
			i++
			no, nn := 0, 0
			for no < h.oldCount || nn < h.newCount {
				if i >= len(lines) || lines[i] == "" {
					return nil, fmt.Errorf("hunk truncated at line %d", i+1)
				}
				l := lines[i]
				i++
				if i < len(lines) && lines[i] == c36Marker {
					l = strings.TrimSuffix(l, "\n")
					i++
				}
				switch l[0] {
				case ' ':
					no++
					nn++
				case '-':
					no++
				case '+':
					nn++
				default:
					return nil, fmt.Errorf("line %d: bad hunk line %q", i, l)
				}
				h.body = append(h.body, l)
			}
			if no != h.oldCount || nn != h.newCount {
				return nil, fmt.Errorf("hunk counts do not add up before line %d", i+1)
			}
			fd.hunks = append(fd.hunks, h)
		}
		if len(fd.hunks) == 0 {
			return nil, fmt.Errorf("diff for %s has no hunks", fd.newName)
		}
		fd.raw = strings.Join(lines[first:i], "")
		res = append(res, fd)
	}
	return res, nil
}

func c36Apply(src string, fd c36FileDiff) (string, error) {
	a := c36SplitAfter(src)
	if src == "" {
		a = nil
	}
	var out []string
	cur := 0
	for _, h := range fd.hunks {
		pos := h.oldStart - 1
		if h.oldCount == 0 {
			pos = h.oldStart
		}
		if pos < cur || pos > len(a) {
			return "", fmt.Errorf("hunk @@ -%d,%d out of order or range", h.oldStart, h.oldCount)
		}
		out = append(out, a[cur:pos]...)
		cur = pos
		npos := h.newStart - 1
		if h.newCount == 0 {
			npos = h.newStart
		}
		if npos != len(out) {
			return "", fmt.Errorf("hunk @@ +%d,%d does not start at output line %d", h.newStart, h.newCount, len(out)+1)
		}
		for _, l := range h.body {
			switch l[0] {
			case ' ', '-':
				if cur >= len(a) || a[cur] != l[1:] {
					return "", fmt.Errorf("context/deleted line %q does not match the file at line %d", l[1:], cur+1)
				}
				if l[0] == ' ' {
					out = append(out, a[cur])
				}
				cur++
			case '+':
				out = append(out, l[1:])
			}
		}
	}
	out = append(out, a[cur:]...)
	return strings.Join(out, ""), nil
}

// ---------------------------------------------------------------------------------------------
// generators

var c36Shebangs = []string{"#!/bin/sh\n", "#!/bin/bash\n", "#!/usr/bin/env bash\n", "#!/usr/bin/env  zsh\n", "#! /bin/mksh\n",
	"#!/bin/dash\n", "#!/usr/bin/env bats\n", "#!/usr/bin/python\n", "#!/bin/shx\n", "#!/bin/sh -e\n", "#!\t/usr/bin/env\tsh\n",
	"#!/usr/bin/env                  sh\n", "#!/usr/bin/env                 zsh\n", "#!/bin/zsh", "#!/bin/sh"}

var c36Clean = []string{"echo hi\n", "if true; then\n\techo x\nfi\n", "foo() {\n\tbar\n}\n", "case $x in\na) echo a ;;\nesac\n",
	"a && b ||\n\tc\n", "echo foo >bar\n", "x=1\n", "for i in 1 2; do\n\techo $i\ndone\n", "# just a comment\n", "cat <<EOF\n  body\nEOF\n",
	"{\n\ta\n\tb\n}\n", "a | b\n"}
var c36CleanBash = []string{"[[ -n $x ]]\n", "arr=(1 2)\n", "((x++))\n", "echo ${x//a/b}\n", "function f() {\n\ty\n}\n"}
var c36Dirty = []string{"echo   hi\n", "if true;then\n echo x\nfi\n", "foo(){ bar; }\n", "case $x in a) echo a;; esac\n", "a &&\n b\n",
	"echo foo > bar\n", "\n\necho hi\n", "echo 'a'  \n", "  echo indented\n", "f() {\n    four\n}\n", "a \\\n\t&& b\n",
	"case x in\n\ta) b ;;\nesac\n", "echo a > b\n", "f()\n{\n\tx\n}\n", "echo $((  $x + 1 ))\n", "echo \"$(echo hi)\"   # c\n",
	"foo   bar    # pad\nfoooo b      # pad\n", "while :;do :;done\n", "x=1;y=2\n", "echo `date`\n", "! foo\n", "( a;b )\n", "a\r\nb\r\n"}
var c36DirtyBash = []string{"[[ \"$x\" == y ]]\n", "[[ -n  $x ]]\n", "arr=( 1 2 )\n", "(( x ++ ))\n", "function f { y; }\n", "echo $[1+2]\n"}
var c36Broken = []string{"if true; then\n", "echo 'unclosed\n", "echo $(\n", ")\n", "foo( {\n", "echo \"abc\n", "case x in\n", "a &&\n"}

// Layout-canonical but simplifiable: `shfmt` leaves these alone, `shfmt -s` rewrites them (checked by
// hand on the binary).  Only simplification makes their formatted output differ.
var c36Simplifiable = []string{"echo $(($x + 1))\n", "echo $( (cmd) )\n", "echo \"\\$foo\"\n", "echo $((${x} + 1))\n"}
var c36SimplifiableBash = []string{"(($bar))\n", "[[ \"$a\" == b ]]\n", "[[ -n \"$a\" ]]\n"}

// The same idea for minified layout (what Minify prints when Simplify has not run).
var c36SimplifiableMin = []string{"echo $(($x+1))\n", "echo \"\\$foo\"\n"}
var c36SimplifiableMinBash = []string{"(($bar))\n", "[[ \"$a\" == b ]]\n"}
var c36OneLiners = []string{"echo hi\n", "x=1\n", "a | b\n", "foo bar\n"}

// c36GenSimplifiable: a file in canonical layout (default or minified) with a construct Simplify rewrites.
func c36GenSimplifiable(r *Rand, bashOK, minified bool) string {
	var sb strings.Builder
	plain, bash := c36Simplifiable, c36SimplifiableBash
	if minified {
		plain, bash = c36SimplifiableMin, c36SimplifiableMinBash
	} else if r.Chance(30) {
		sb.WriteString(r.Pick([]string{"#!/bin/sh\n", "#!/bin/bash\n", "#!/usr/bin/env bash\n"}))
	}
	n := 1 + r.Intn(3)
	k := r.Intn(n)
	for i := 0; i < n; i++ {
		switch {
		case i != k && r.Chance(60):
			sb.WriteString(r.Pick(c36OneLiners))
		case bashOK && !strings.HasPrefix(sb.String(), "#!/bin/sh") && r.Chance(50):
			sb.WriteString(r.Pick(bash))
		default:
			sb.WriteString(r.Pick(plain))
		}
	}
	return sb.String()
}

// option classes: every consistency leg runs under each of them in every quick run
const (
	c36ClsRandom = iota
	c36ClsFlagS
	c36ClsFlagMn
	c36ClsECSimplify
	c36ClsECMinify
	c36ClsTiny // zero-byte files and files shorter than formatPath's 9..32-byte shebang sniff
)

func c36ClsSimplifies(cls int) bool { return cls != c36ClsRandom && cls != c36ClsTiny }
func c36ClsMinifies(cls int) bool   { return cls == c36ClsFlagMn || cls == c36ClsECMinify }

// Files around the shebang sniff of formatPath (io.ReadAtLeast(f, buf[:32], 9)): nothing to read (EOF),
// a short read (1..8 bytes), exactly 9 bytes.  An empty file formats to "\n", so it is not a fixed point.
var c36Tiny = []string{"", "", "", "", "", "", "\n", "#", "#!", "#!/b", "a", " ", "a\n", "#!/bin/s", "#!/bin/sh", "\n\n", "x=1\n", "#!/bin/sh\n", "\t"}

// c36GenSourceCls biases towards simplifiable files when the option class simplifies.
func c36GenSourceCls(r *Rand, bashOK bool, cls int) (string, string) {
	if (cls == c36ClsTiny && r.Chance(80)) || r.Chance(7) {
		src := r.Pick(c36Tiny)
		switch {
		case src == "":
			return src, "src:tiny-empty"
		case len(src) < 9:
			return src, "src:tiny-short"
		}
		return src, "src:tiny-9+"
	}
	if c36ClsSimplifies(cls) && r.Chance(50) {
		if c36ClsMinifies(cls) && r.Chance(50) {
			return c36GenSimplifiable(r, bashOK, true), "src:simplifiable-minified"
		}
		return c36GenSimplifiable(r, bashOK, false), "src:simplifiable"
	}
	if r.Chance(6) {
		return c36GenSimplifiable(r, bashOK, false), "src:simplifiable"
	}
	return c36GenSource(r, bashOK)
}

func c36GenSource(r *Rand, bashOK bool) (src string, tag string) {
	var sb strings.Builder
	if r.Chance(45) {
		sb.WriteString(r.Pick(c36Shebangs))
	}
	k := r.Intn(100)
	n := 1 + r.Intn(3)
	switch {
	case k < 30: // already formatted (under default options)
		tag = "src:clean"
		for i := 0; i < n; i++ {
			if bashOK && r.Chance(25) {
				sb.WriteString(r.Pick(c36CleanBash))
			} else {
				sb.WriteString(r.Pick(c36Clean))
			}
		}
	case k < 80:
		tag = "src:dirty"
		for i := 0; i < n; i++ {
			switch {
			case r.Chance(55):
				sb.WriteString(r.Pick(c36Dirty))
			case bashOK && r.Chance(40):
				sb.WriteString(r.Pick(c36DirtyBash))
			default:
				sb.WriteString(r.Pick(c36Clean))
			}
		}
		if r.Chance(10) {
			s := sb.String()
			return strings.TrimSuffix(s, "\n"), "src:dirty-nonl"
		}
	case k < 90:
		tag = "src:broken"
		for i := 0; i < n-1; i++ {
			sb.WriteString(r.Pick(c36Clean))
		}
		sb.WriteString(r.Pick(c36Broken))
	case k < 95:
		tag = "src:bashism" // a LangError when the file resolves to POSIX
		sb.WriteString(r.Pick(c36CleanBash))
		sb.WriteString(r.Pick(c36Dirty))
	case k < 97:
		tag = "src:empty"
		return "", tag
	default:
		tag = "src:progs"
		g := newProgGen(r, bashOK)
		g.Depth = 2
		sb.WriteString(g.Program(1 + r.Intn(4)))
	}
	return sb.String(), tag
}

var c36ShellNames = []string{"a.sh", "b.bash", "c.mksh", "d.bats", "e.zsh", "f.sh", "g.sh", "lib.sh", "x.y.sh"}
var c36OtherNames = []string{"noext", "script", "run", "README.md", "data.txt", ".hidden.sh", ".bashrc", "zshrc", "x.posix", "x.dash",
	"x.auto", "tool.py", "Makefile", "a.sh.bak", "sh", ".profile"}
var c36Dirs = []string{"sub", "sub/deep", ".git", ".svn", ".hidden", "skipme", "d.sh", "lib"}

func c36GenEditorConfig(r *Rand, root bool) string {
	var sb strings.Builder
	if root {
		sb.WriteString("root = true\n")
	}
	if r.Chance(15) {
		sb.WriteString("; a comment\n")
	}
	nsec := 1 + r.Intn(3)
	for i := 0; i < nsec; i++ {
		sb.WriteString("[" + r.Pick([]string{"*", "*", "*.sh", "*.bash", "[shell]", "[bash]", "[zsh]", "sub/**", "{a,f}.sh", "*.{sh,bash}", "skipme/**", "*.bats", "noext", "/a.sh"}) + "]\n")
		np := 1 + r.Intn(4)
		for j := 0; j < np; j++ {
			switch r.Intn(12) {
			case 0, 1:
				sb.WriteString("indent_style = " + r.Pick([]string{"space", "space", "tab", "Space", "bogus"}) + "\n")
			case 2, 3:
				sb.WriteString("indent_size = " + r.Pick([]string{"2", "4", "3", "8", "tab", "0", "-1", "+3", "x", "1"}) + "\n")
			case 4:
				sb.WriteString("binary_next_line = " + r.Pick([]string{"true", "false", "True"}) + "\n")
			case 5:
				sb.WriteString("switch_case_indent = " + r.Pick([]string{"true", "false"}) + "\n")
			case 6:
				sb.WriteString("space_redirects = " + r.Pick([]string{"true", "false"}) + "\n")
			case 7:
				sb.WriteString("function_next_line = " + r.Pick([]string{"true", "false"}) + "\n")
			case 8:
				sb.WriteString(r.Pick([]string{"simplify", "minify", "keep_padding"}) + " = " + r.Pick([]string{"true", "false"}) + "\n")
			case 9:
				sb.WriteString("shell_variant = " + r.Pick([]string{"bash", "posix", "sh", "mksh", "bats", "zsh", "bogus", "dash", "auto"}) + "\n")
			case 10:
				sb.WriteString("ignore = " + r.Pick([]string{"true", "true", "false"}) + "\n")
			case 11:
				sb.WriteString("tab_width = 4\n")
			}
		}
	}
	return sb.String()
}

func c36GenFmtFlags(r *Rand, f *c36Flags) {
	ob := func(p int) string {
		if r.Chance(p) {
			if r.Chance(12) {
				return "0"
			}
			return "1"
		}
		return "-"
	}
	if r.Chance(35) {
		f.indent = r.Pick([]string{"0", "2", "4", "4", "8", "1"})
	}
	f.bn, f.ci, f.sr, f.fn = ob(20), ob(20), ob(20), ob(20)
	f.kp = ob(8)
	f.s = ob(15)
	f.mn = ob(8)
	if r.Chance(30) {
		f.ln = r.Pick([]string{"bash", "posix", "mksh", "bats", "zsh", "auto"})
	}
	if r.Chance(6) {
		f.p = "1"
		if f.ln != "-" && f.ln != "auto" && r.Chance(70) {
			f.ln = "-"
		}
	}
}

func c36GenCase(r *Rand, cls int) (cs c36Case, tags []string) {
	cs.flags = c36NoFlags()
	ecMode := r.Chance(45)
	switch cls {
	case c36ClsFlagS, c36ClsFlagMn:
		ecMode = false
	case c36ClsECSimplify, c36ClsECMinify:
		ecMode = true
	}
	if !ecMode {
		c36GenFmtFlags(r, &cs.flags)
		switch cls {
		case c36ClsFlagS:
			cs.flags.s, cs.flags.mn = "1", "-"
			tags = append(tags, "cls:-s")
		case c36ClsFlagMn:
			cs.flags.mn = "1"
			tags = append(tags, "cls:-mn")
		}
		if cs.flags.p == "1" && cls != c36ClsRandom {
			cs.flags.p = "-" // keep these cases away from the -p/-ln start-up error
		}
	}
	if cls == c36ClsTiny {
		// language flag classes: automatic (EditorConfig mode or an unrelated flag), -ln=<lang>, -ln=auto, -p
		cs.flags = c36NoFlags()
		switch r.Intn(7) {
		case 0, 1:
			tags = append(tags, "tiny:lang-auto(ec)")
		case 2:
			cs.flags.indent = "2"
			tags = append(tags, "tiny:lang-auto(flags)")
		case 3:
			cs.flags.ln = "auto"
			tags = append(tags, "tiny:-ln=auto")
		case 4:
			cs.flags.ln = r.Pick([]string{"bash", "posix", "mksh", "zsh"})
			tags = append(tags, "tiny:-ln=lang")
		case 5:
			cs.flags.p = "1"
			tags = append(tags, "tiny:-p")
		case 6:
			cs.flags.s = "1"
			tags = append(tags, "tiny:lang-auto(flags)")
		}
		tags = append(tags, "cls:tiny")
	}
	if cs.flags.useEC() {
		tags = append(tags, "opts:editorconfig")
	} else {
		tags = append(tags, "opts:flags")
	}
	if r.Chance(12) {
		cs.flags.ai = true
	}
	if r.Chance(20) {
		cs.flags.detect = r.Pick([]string{"e", "a"})
	}
	// tree
	dirs := []string{""}
	nd := r.Intn(4)
	for i := 0; i < nd; i++ {
		d := r.Pick(c36Dirs)
		cs.files = append(cs.files, c36File{rel: d, kind: "dir", mode: 0o755})
		dirs = append(dirs, d)
	}
	used := map[string]bool{}
	nf := 1 + r.Intn(7)
	if cls == c36ClsTiny {
		nf = 4 + r.Intn(5)
	}
	for i := 0; i < nf; i++ {
		name := r.Pick(c36ShellNames)
		if r.Chance(35) {
			name = r.Pick(c36OtherNames)
		}
		if cls == c36ClsTiny {
			// every naming class: .sh, other shell extensions, no extension, hidden, non-shell
			name = r.Pick([]string{"a.sh", "f.sh", "b.bash", "c.mksh", "d.bats", "e.zsh", "noext", "script", "x.posix", ".hidden.sh", "tool.py"})
		}
		rel := filepath.Join(r.Pick(dirs), name)
		if used[rel] {
			continue
		}
		used[rel] = true
		src, tag := c36GenSourceCls(r, !strings.HasSuffix(name, ".mksh") && !strings.HasSuffix(name, ".posix") && !strings.HasSuffix(name, ".dash"), cls)
		tags = append(tags, tag)
		mode := os.FileMode(0o644)
		if r.Chance(25) {
			mode = 0o755
		}
		cs.files = append(cs.files, c36File{rel: rel, kind: "reg", mode: mode, content: src})
	}
	var regs []string
	for _, f := range cs.files {
		if f.kind == "reg" {
			regs = append(regs, f.rel)
		}
	}
	if r.Chance(25) && len(regs) > 0 {
		t := r.Pick(regs)
		rel := r.Pick([]string{"link.sh", "lnk", "sub/link.sh"})
		if !used[rel] {
			used[rel] = true
			tgt, _ := filepath.Rel(filepath.Dir(rel), t)
			cs.files = append(cs.files, c36File{rel: rel, kind: "lnk", content: tgt})
			tags = append(tags, "tree:symlink")
		}
	}
	if r.Chance(8) {
		cs.files = append(cs.files, c36File{rel: "dangling.sh", kind: "lnk", content: "nowhere"})
		used["dangling.sh"] = true
	}
	if r.Chance(8) && len(dirs) > 1 {
		cs.files = append(cs.files, c36File{rel: "dirlink", kind: "lnk", content: dirs[1]})
		used["dirlink"] = true
	}
	// EditorConfig files: always a root one at the top (keeps the lookup inside the tree)
	if cls == c36ClsECSimplify || cls == c36ClsECMinify || r.Chance(70) {
		ec := c36GenEditorConfig(r, true)
		switch cls { // the last matching section wins
		case c36ClsECSimplify:
			ec += "[*]\nsimplify = true\n"
			tags = append(tags, "cls:ec-simplify")
		case c36ClsECMinify:
			ec += "[*]\nminify = true\n"
			tags = append(tags, "cls:ec-minify")
		}
		cs.files = append(cs.files, c36File{rel: ".editorconfig", kind: "reg", mode: 0o644, content: ec})
		tags = append(tags, "tree:editorconfig")
		if len(dirs) > 1 && r.Chance(40) {
			cs.files = append(cs.files, c36File{rel: filepath.Join(dirs[1], ".editorconfig"), kind: "reg", mode: 0o644, content: c36GenEditorConfig(r, r.Chance(20))})
			tags = append(tags, "tree:editorconfig-nested")
		}
	} else {
		cs.files = append(cs.files, c36File{rel: ".editorconfig", kind: "reg", mode: 0o644, content: "root = true\n"})
	}
	// arguments
	switch k := r.Intn(10); {
	case k < 4:
		cs.args = []string{"."}
		tags = append(tags, "args:dot")
	case k < 6 && len(dirs) > 1:
		cs.args = []string{dirs[1]}
		for _, f := range regs {
			if !strings.HasPrefix(f, dirs[1]+"/") && r.Chance(40) {
				cs.args = append(cs.args, f)
			}
		}
		tags = append(tags, "args:dir+files")
	default:
		var all []string
		for rel := range used {
			all = append(all, rel)
		}
		sort.Strings(all)
		for _, f := range all {
			if r.Chance(60) {
				cs.args = append(cs.args, f)
			}
		}
		if len(cs.args) == 0 {
			cs.args = []string{all[r.Intn(len(all))]}
		}
		if r.Chance(8) {
			cs.args = append(cs.args, "nope.sh")
		}
		tags = append(tags, "args:files")
	}
	return
}

// ---------------------------------------------------------------------------------------------
// one case: tie runs + the property's statements

type c36OpLine struct{ op, impl string }
type c36Result struct {
	ops     []c36OpLine
	fails   []Failure
	tags    []string
	runs    int
	nontriv bool
	skipped string
	key     string
}

var c36DirN struct {
	sync.Mutex
	n int
}

func c36Scratch(c *Ctx) string {
	c36DirN.Lock()
	c36DirN.n++
	n := c36DirN.n
	c36DirN.Unlock()
	d := filepath.Join(c36WorkDir(c), "scratch", fmt.Sprintf("t%d", n))
	os.RemoveAll(d)
	return d
}

func c36ModeFlags(f c36Flags, mode string) c36Flags {
	g := f.modeless()
	for _, m := range strings.Split(mode, " ") {
		switch m {
		case "-l":
			g.list = "t"
		case "-l=0":
			g.list = "0"
		case "-w":
			g.write = true
		case "-d":
			g.diff = true
		case "-f":
			g.find = "t"
		case "-f=0":
			g.find = "0"
		}
	}
	return g
}

func c36RunCase(c *Ctx, cs c36Case, r *Rand, replay bool) (res c36Result) {
	res.key = cs.witness()
	wit := res.key
	fail := func(stmt, what string) {
		res.fails = append(res.fails, Failure{Witness: stmt + " " + wit, What: what})
	}
	fresh := func() string {
		d := c36Scratch(c)
		if err := c36Materialise(d, cs.files); err != nil {
			res.skipped = "materialise: " + err.Error()
		}
		return d
	}
	cleanup := []string{}
	defer func() {
		if len(res.fails) == 0 {
			for _, d := range cleanup {
				os.RemoveAll(d)
			}
		}
	}()
	root := fresh()
	cleanup = append(cleanup, root)
	if res.skipped != "" {
		return
	}
	base := cs.flags.modeless()
	long := r.Chance(30)

	// ---- tie: a few mode combinations, each one binary run = one `run` line
	modes := []string{"-l", "-d", "-w"}
	extra := []string{"", "-l -w", "-l -d", "-w -d", "-f", "-l=0", "-f=0", "-l -w -d", "-f -l"}
	modes = append(modes, extra[r.Intn(len(extra))], extra[r.Intn(len(extra))])
	for _, mode := range modes {
		mf := c36ModeFlags(base, mode)
		dir := root
		if mf.write {
			dir = fresh()
			cleanup = append(cleanup, dir)
		}
		args := cs.args
		if mf.write {
			args = c36WriteArgs(dir, cs.args)
		}
		ents, fp := c36Entries(dir, mf, args)
		if fp {
			res.skipped = "formatter-panic"
			return
		}
		before := c36Snapshot(dir)
		rr := c36Run(c, dir, nil, append(mf.args(long), args...)...)
		res.runs++
		after := before
		if mf.write {
			after = c36Snapshot(dir)
		}
		if rr.timedOut && mf.write {
			res.skipped = "timeout(-w)"
			return
		}
		toks := make([]string, len(ents))
		for i, e := range ents {
			toks[i] = e.token()
		}
		res.ops = append(res.ops, c36OpLine{"run " + mf.token() + " " + strings.Join(toks, " "), c36Observe(rr, before, after, ents)})
		if strings.Contains(rr.stderr, "panic: ") {
			res.tags = append(res.tags, "binary-panicked")
		}
	}

	// `-p` together with `-ln <lang>` is a start-up error (covered by the tie above: every mode prints
	// the message and exits 1); the property's statements are about runs that start.
	if base.p == "1" && base.ln != "-" && base.ln != "auto" {
		res.tags = append(res.tags, "startup-error(-p with -ln)")
		return
	}

	// ---- search leg: the statements, on the binary alone
	fl := func(mode string) []string { return c36ModeFlags(base, mode).args(long) }
	// The files the run is about, by the manual: an explicit regular file (or a symlink to one) is
	// always formatted unless --apply-ignore and an ignore rule say otherwise; a directory
	// contributes the shell files `shfmt -f` finds below it.
	var files []string
	seenF := map[string]bool{}
	dupArgs := false
	argErr := false
	addFile := func(p string) {
		if seenF[p] {
			dupArgs = true
		}
		seenF[p] = true
		files = append(files, p)
	}
	qq := &editorconfig.Query{FileCache: map[string]*editorconfig.File{}, RegexpCache: map[string]*regexp.Regexp{}}
	for _, a := range cs.args {
		abs := filepath.Join(root, a)
		li, lerr := os.Lstat(abs)
		si, serr := os.Stat(abs)
		switch {
		case lerr != nil || serr != nil:
			argErr = true
		case li.IsDir():
			rf := c36Run(c, root, nil, append(fl("-f"), a)...)
			res.runs++
			if rf.status != 0 || strings.Contains(rf.stderr, "panic: ") {
				fail("S0", "shfmt -f "+a+" failed: "+firstLine(rf.stderr))
				return
			}
			for _, p := range nonEmptyLines(rf.stdout) {
				addFile(p)
			}
		case si.Mode().IsRegular():
			if base.ai && c36Find(qq, abs, "shell").get("ignore") == "true" {
				continue
			}
			addFile(a)
		}
	}
	res.tags = append(res.tags, fmt.Sprintf("found=%d", min(len(files), 6)))
	type one struct {
		content, out string
		st           int
		stderr       string
	}
	per := map[string]one{}
	crashed := false
	crashMsg := ""
	for _, p := range files {
		if _, ok := per[p]; ok {
			continue
		}
		b, err := os.ReadFile(filepath.Join(root, p))
		if err != nil {
			continue
		}
		r1 := c36Run(c, root, nil, append(fl(""), p)...)
		res.runs++
		if r1.status == 2 {
			crashed = true
			crashMsg = "shfmt " + strings.Join(append(fl(""), p), " ") + " crashed (exit status 2): " + firstLine(r1.stderr)
		}
		per[p] = one{string(b), r1.stdout, r1.status, r1.stderr}
	}
	if crashed {
		fail("S0", crashMsg)
		return
	}
	var wantL []string
	anyErr := false
	nDiffer := 0
	for _, p := range files {
		o := per[p]
		if o.st != 0 {
			anyErr = true
		} else if o.out != o.content {
			wantL = append(wantL, p)
			nDiffer++
		}
	}
	res.nontriv = nDiffer > 0
	if nDiffer > 0 {
		res.tags = append(res.tags, "some-differ")
	}
	if anyErr {
		res.tags = append(res.tags, "some-error")
	}

	// S1: -l lists exactly the differing files; exit status
	rl := c36Run(c, root, nil, append(fl("-l"), cs.args...)...)
	res.runs++
	gotL := nonEmptyLines(rl.stdout)
	if strings.Join(gotL, "\n") != strings.Join(wantL, "\n") {
		fail("S1", fmt.Sprintf("shfmt -l listed %q; files whose formatted output differs: %q", gotL, wantL))
	}
	if wantNZ := len(wantL) > 0 || anyErr || argErr; (rl.status != 0) != wantNZ {
		fail("S1", fmt.Sprintf("shfmt -l exit status %d; listed %d files, errors=%v", rl.status, len(gotL), anyErr || argErr))
	}

	// S2: -d prints a diff exactly for those files; applying it gives the formatted output
	rd := c36Run(c, root, nil, append(fl("-d"), cs.args...)...)
	res.runs++
	fds, perr := c36ParseDiffs(rd.stdout)
	if perr != nil {
		fail("S2", "shfmt -d output is not a sequence of unified diffs: "+perr.Error())
	} else {
		var gotD []string
		for _, fd := range fds {
			gotD = append(gotD, fd.newName)
			o, ok := per[fd.newName]
			if !ok {
				continue
			}
			if fd.oldName != fd.newName+".orig" {
				fail("S2", "diff header names "+fd.oldName+" / "+fd.newName)
			}
			if len(fd.raw)+len(o.content) < 6000 {
				// spec op: the Lean patcher applied to the text the binary printed = the binary's formatted output
				res.ops = append(res.ops, c36OpLine{"specpatch " + hx(fd.raw) + " " + hx(o.content), "some " + hx(o.out)})
			}
			patched, err := c36Apply(o.content, fd)
			if err != nil {
				fail("S2", "diff for "+fd.newName+" does not apply: "+err.Error())
			} else if patched != o.out {
				fail("S2", fmt.Sprintf("applying the diff for %s gives %q, formatted output is %q", fd.newName, patched, o.out))
			}
		}
		if strings.Join(gotD, "\n") != strings.Join(wantL, "\n") {
			fail("S2", fmt.Sprintf("shfmt -d printed diffs for %q; differing files: %q", gotD, wantL))
		}
		if wantNZ := len(wantL) > 0 || anyErr || argErr; (rd.status != 0) != wantNZ {
			fail("S2", fmt.Sprintf("shfmt -d exit status %d with %d diffs", rd.status, len(gotD)))
		}
	}

	// S3: after -w the files hold the formatted output and -l lists nothing
	if dupArgs || len(c36WriteArgs(root, cs.args)) != len(cs.args) {
		res.tags = append(res.tags, "S3-skipped:aliased-args")
	} else {
		wdir := fresh()
		cleanup = append(cleanup, wdir)
		before := c36Snapshot(wdir)
		rw := c36Run(c, wdir, nil, append(fl("-w"), cs.args...)...) // dupArgs is false: no file is reached twice
		res.runs++
		if rw.timedOut {
			res.skipped = "timeout(-w)"
			return
		}
		after := c36Snapshot(wdir)
		if wantNZ := anyErr || argErr; (rw.status != 0) != wantNZ && !c36WriteRefused(rw.stderr) {
			fail("S3", fmt.Sprintf("shfmt -w exit status %d; stderr %q", rw.status, firstLine(rw.stderr)))
		}
		expect := map[string]string{}
		for k, v := range before {
			expect[k] = v
		}
		refused := c36WriteRefused(rw.stderr)
		for _, p := range wantL {
			k := filepath.Clean(p)
			if strings.HasPrefix(before[k], "\x00symlink:") {
				continue // an explicit symlink: must be refused, target untouched
			}
			expect[k] = per[p].out
		}
		if !refused || true {
			for k, v := range expect {
				if after[k] != v {
					fail("S3", fmt.Sprintf("after shfmt -w, %s holds %q; expected %q", k, after[k], v))
					break
				}
			}
			for k := range after {
				if _, ok := expect[k]; !ok {
					fail("S3", "shfmt -w left a new name behind: "+k)
				}
			}
		}
		// Exclusions (hypotheses of w_then_l): the formatter is idempotent under fixed options (C02),
		// and the options resolved for the formatted bytes are those resolved for the source
		// (known finding C36-w-then-l-language-flip).
		excluded := ""
		for _, p := range wantL {
			o := per[p]
			lang0 := c36PlanLang(base, p, c36Head(o.content))
			lang1 := c36PlanLang(base, p, c36Head(o.out))
			if lang0 != lang1 {
				excluded = "langflip"
				break
			}
		}
		if excluded == "" {
			ents, _ := c36Entries(root, base, cs.args)
			for _, e := range ents {
				if e.planned && e.resKind == "ok" {
					if k2, t2 := c36Format(e.opts, e.path, e.resTx); k2 != "ok" || t2 != e.resTx {
						excluded = "not-idempotent"
						break
					}
				}
			}
		}
		rl2 := c36Run(c, wdir, nil, append(fl("-l"), cs.args...)...)
		res.runs++
		// explicit symlinks are refused by -w (never replaced), so they stay listed
		var stillWant []string
		for _, p := range wantL {
			if strings.HasPrefix(before[filepath.Clean(p)], "\x00symlink:") {
				stillWant = append(stillWant, p)
			}
		}
		if got := nonEmptyLines(rl2.stdout); strings.Join(got, "\n") != strings.Join(stillWant, "\n") {
			switch {
			case excluded == "langflip" && !replay:
				res.tags = append(res.tags, "excluded:langflip")
			case excluded == "not-idempotent":
				res.tags = append(res.tags, "excluded:formatter-not-idempotent(C02)")
			default:
				fail("S3", fmt.Sprintf("after shfmt -w, shfmt -l still lists %q", got))
			}
		} else if excluded == "langflip" && !replay {
			res.tags = append(res.tags, "excluded:langflip")
		}
	}

	// S4: formatting through stdin gives the same bytes as formatting the file
	n4 := 0
	for _, p := range files {
		o := per[p]
		if o.st != 0 || (n4 >= 6 && len(o.content) >= 9) { // files shorter than the shebang sniff are always compared
			continue
		}
		n4++
		// (a) same name, automatic language: only comparable when both resolve to the same language
		langFile := c36PlanLang(base, p, c36Head(o.content))
		langStdin := c36PlanLang(base, p, o.content)
		in := o.content
		if langFile == langStdin {
			ra := c36Run(c, root, &in, append(fl(""), "--filename", p)...)
			res.runs++
			if ra.stdout != o.out || ra.status != 0 {
				fail("S4", fmt.Sprintf("shfmt --filename %s < %s gives %q (status %d); shfmt %s gives %q", p, p, ra.stdout, ra.status, p, o.out))
			}
			// list-only through stdin: lists the name exactly when the formatted bytes differ
			rl := c36Run(c, root, &in, append(fl("-l"), "--filename", p)...)
			res.runs++
			if listed, differs := strings.TrimSuffix(rl.stdout, "\n") == p, o.out != o.content; listed != differs || (rl.status != 0) != differs {
				fail("S4", fmt.Sprintf("shfmt -l --filename %s < %s prints %q (status %d); formatted output differs: %v", p, p, rl.stdout, rl.status, differs))
			}
		} else {
			res.tags = append(res.tags, "stdin-language-differs")
		}
		// (b) the language named explicitly on both sides
		if base.p == "-" {
			g := base
			g.ln = langFile
			g.ai = false // ignore rules are looked up by name, and the names differ
			rb1 := c36Run(c, root, nil, append(g.args(long), p)...)
			rb2 := c36Run(c, root, &in, g.args(long)...)
			res.runs += 2
			if rb1.stdout != rb2.stdout || (rb1.status != 0) != (rb2.status != 0) {
				fail("S4", fmt.Sprintf("shfmt -ln %s %s gives %q (status %d) but through stdin %q (status %d)", langFile, p, rb1.stdout, rb1.status, rb2.stdout, rb2.status))
			}
		}
	}
	return
}

// c36WriteArgs drops arguments that reach a file already reached by an earlier argument (the same
// path twice, a file below a directory argument, a symlink to such a file): with -w the second
// visit would see the bytes written by the first.
func c36WriteArgs(root string, args []string) []string {
	var out []string
	var covered []string // resolved absolute paths (files) and directory prefixes
	for _, a := range args {
		abs := filepath.Join(root, a)
		real, err := filepath.EvalSymlinks(abs)
		if err != nil {
			out = append(out, a)
			continue
		}
		clash := false
		for _, c := range covered {
			if real == c || strings.HasPrefix(real, c+"/") || strings.HasPrefix(c, real+"/") {
				clash = true
			}
		}
		if clash {
			continue
		}
		// a directory argument may contain symlinks, but those are never followed when walking
		covered = append(covered, real)
		out = append(out, a)
	}
	return out
}

func c36WriteRefused(stderr string) bool {
	return strings.Contains(stderr, "refusing to atomically replace")
}

func firstLine(s string) string {
	if i := strings.IndexByte(s, '\n'); i >= 0 {
		return s[:i]
	}
	return s
}

func nonEmptyLines(s string) []string {
	var out []string
	for _, l := range strings.Split(s, "\n") {
		if l != "" {
			out = append(out, l)
		}
	}
	return out
}

// S5: flags and the equivalent EditorConfig file give the same output.
func c36EquivCase(c *Ctx, r *Rand) (res c36Result) {
	f := c36NoFlags()
	for f.useEC() {
		c36GenFmtFlags(r, &f)
	}
	if f.p == "0" || f.ln == "auto" {
		f.p, f.ln = "-", "-"
	}
	if f.p == "1" {
		f.ln = "-"
	}
	if f.useEC() {
		f.indent = "4"
	}
	var ec strings.Builder
	ec.WriteString("root = true\n[*]\n")
	if f.indent != "-" && f.indent != "0" {
		ec.WriteString("indent_style = space\nindent_size = " + f.indent + "\n")
	} else if r.Bool() {
		ec.WriteString("indent_style = tab\n")
	}
	kv := func(v, key string) {
		if v == "1" {
			ec.WriteString(key + " = true\n")
		} else if v == "0" && r.Bool() {
			ec.WriteString(key + " = false\n")
		}
	}
	kv(f.bn, "binary_next_line")
	kv(f.ci, "switch_case_indent")
	kv(f.sr, "space_redirects")
	kv(f.kp, "keep_padding")
	kv(f.fn, "function_next_line")
	kv(f.s, "simplify")
	kv(f.mn, "minify")
	if l := f.lnVal(); l != "auto" {
		ec.WriteString("shell_variant = " + l + "\n")
	}
	var files []c36File
	names := []string{"a.sh", "b.bash", "sub/c.sh", "noext", "e.zsh", "d.mksh"}
	for _, n := range names {
		if r.Chance(60) {
			cls := c36ClsRandom
			if f.s == "1" || f.mn == "1" {
				cls = c36ClsFlagS
			}
			src, _ := c36GenSourceCls(r, true, cls)
			files = append(files, c36File{rel: n, kind: "reg", mode: 0o644, content: src})
		}
	}
	if len(files) == 0 {
		files = append(files, c36File{rel: "a.sh", kind: "reg", mode: 0o644, content: "if true;then\n echo   x > y\nfi\n"})
	}
	d1, d2 := c36Scratch(c), c36Scratch(c)
	c36Materialise(d1, append([]c36File{{rel: ".editorconfig", kind: "reg", mode: 0o644, content: "root = true\n"}}, files...))
	c36Materialise(d2, append([]c36File{{rel: ".editorconfig", kind: "reg", mode: 0o644, content: ec.String()}}, files...))
	defer func() {
		if len(res.fails) == 0 {
			os.RemoveAll(d1)
			os.RemoveAll(d2)
		}
	}()
	wit := "equiv " + f.token() + " ec=" + hx(ec.String())
	for _, fl := range files {
		wit += " " + hx(fl.rel) + ":" + hx(fl.content)
	}
	res.key = wit
	res.tags = []string{"equiv"}
	for _, fl := range files {
		r1 := c36Run(c, d1, nil, append(f.args(false), fl.rel)...)
		r2 := c36Run(c, d2, nil, fl.rel)
		res.runs += 2
		if r1.stdout != r2.stdout || r1.status != r2.status {
			res.fails = append(res.fails, Failure{Witness: "S5 " + wit, What: fmt.Sprintf("%s: flags %v give %q (status %d); the equivalent .editorconfig gives %q (status %d; %s)",
				fl.rel, f.args(false), r1.stdout, r1.status, r2.stdout, r2.status, firstLine(r2.stderr))})
		}
		if r1.stdout != fl.content {
			res.nontriv = true
		}
	}
	return
}

// stdin tie case: one `stdin` line.
func c36StdinCase(c *Ctx, r *Rand, cls int) (res c36Result) {
	f := c36NoFlags()
	if (cls == c36ClsRandom && r.Chance(55)) || cls == c36ClsFlagS || cls == c36ClsFlagMn {
		c36GenFmtFlags(r, &f)
		f.p = "-"
		switch cls {
		case c36ClsFlagS:
			f.s, f.mn = "1", "-"
		case c36ClsFlagMn:
			f.mn = "1"
		}
	}
	mode := r.Intn(6)
	if cls != c36ClsRandom && r.Chance(60) {
		mode = 0 // list-only × simplification
	}
	switch mode {
	case 0:
		f.list = "t"
	case 1:
		f.diff = true
	case 2:
		f.write = true
	case 3:
		f.list, f.diff = "t", true
	}
	if r.Chance(50) {
		f.filename = r.Pick([]string{"a.sh", "x.bash", "sub/c.mksh", "noext", ".zshrc", "z.zsh", "t.bats", "skipme/x.sh"})
	}
	if r.Chance(15) {
		f.ai = true
	}
	src, tag := c36GenSourceCls(r, true, cls)
	dir := c36Scratch(c)
	ec := c36GenEditorConfig(r, true)
	switch cls {
	case c36ClsECSimplify:
		ec += "[*]\nsimplify = true\n"
	case c36ClsECMinify:
		ec += "[*]\nminify = true\n"
	}
	files := []c36File{{rel: ".editorconfig", kind: "reg", mode: 0o644, content: ec}, {rel: "sub", kind: "dir"}}
	c36Materialise(dir, files)
	defer os.RemoveAll(dir)
	name := "<standard input>"
	if f.filename != "" {
		name = f.filename
	}
	q := &editorconfig.Query{FileCache: map[string]*editorconfig.File{}, RegexpCache: map[string]*regexp.Regexp{}}
	abs := filepath.Join(dir, name)
	e := c36Entry{path: name, explicit: true, kind: "reg", skind: "reg", src: src, guess: "none", resKind: "none"}
	e.pS, e.pB, e.pZ = c36Find(q, abs, "shell"), c36Find(q, abs, "shell", "bash"), c36Find(q, abs, "shell", "zsh")
	if e.plan(f, c36PlanLang(f, name, src)) {
		res.skipped = "formatter-panic"
		return
	}
	var args []string
	args = append(args, f.args(r.Chance(30))...)
	if r.Chance(30) {
		args = append(args, "-")
	}
	rr := c36Run(c, dir, &src, args...)
	res.runs++
	snap := map[string]string{}
	res.ops = append(res.ops, c36OpLine{"stdin " + f.token() + " " + e.token(), c36Observe(rr, snap, snap, nil)})
	res.key = "stdin " + f.token() + " " + hx(src)
	res.tags = []string{"stdin", tag, fmt.Sprintf("stdin-cls:%d", cls)}
	if f.list != "f" && !f.write && !f.diff {
		res.tags = append(res.tags, "stdin:list-only")
	}
	res.nontriv = e.resKind == "ok" && e.resTx != src
	return
}

func c36(c *Ctx) {
	c.Rule = "a case is non-trivial when at least one file of the tree has formatted output different from its contents " +
		"(so -l/-d/-w have something to do); trees of ≤ 8 files with shell/non-shell extensions, shebangs, symlinks, vcs and " +
		"hidden directories, EditorConfig files × parser/printer flags × path arguments (., directories, explicit files, missing)"
	if _, err := c36Build(c); err != "" {
		// the binary is the subject: without it nothing can be checked
		fmt.Println(err)
		os.Exit(3)
	}
	// in-process ties: Shebang, CouldBeScript2
	c36Units(c)

	type job struct {
		kind string
		cs   c36Case
		r    *Rand
		rep  bool
		tags []string
		cls  int
	}
	var jobs []job
	if c.Shard == 0 {
		for i, line := range c.CorpusLines() {
			toks := strings.SplitN(line, " ", 2)
			if len(toks) == 2 && strings.HasPrefix(toks[0], "S") {
				line = toks[1]
			}
			if cs, ok := c36ParseCase(line); ok {
				jobs = append(jobs, job{kind: "case", cs: cs, r: c.R.Fork(fmt.Sprintf("corpus%d", i)), rep: true, tags: []string{"corpus"}})
			}
		}
	}
	for i := 0; i < c.N; i++ {
		r := c.R.Fork(fmt.Sprintf("case%d", i))
		switch k := i % 10; {
		case k == 7:
			jobs = append(jobs, job{kind: "equiv", r: r})
		case k == 8:
			cls := c36ClsRandom
			if (i/10)%2 == 1 {
				cls = c36ClsTiny
			}
			jobs = append(jobs, job{kind: "stdin", r: r, cls: cls})
		case k == 9:
			jobs = append(jobs, job{kind: "stdin", r: r, cls: 1 + (i/10)%4})
		default:
			// classes per block of ten: random, -s, tiny files, EditorConfig simplify, -mn, random, EditorConfig minify
			cls := []int{c36ClsRandom, c36ClsFlagS, c36ClsTiny, c36ClsECSimplify, c36ClsFlagMn, c36ClsRandom, c36ClsECMinify}[k]
			if k == 5 && (i/10)%2 == 0 {
				cls = c36ClsTiny
			}
			cs, tags := c36GenCase(r, cls)
			jobs = append(jobs, job{kind: "case", cs: cs, r: r, tags: tags})
		}
	}
	results := parallelMap(len(jobs), 4, func(i int) c36Result {
		j := jobs[i]
		var res c36Result
		p := safely(func() {
			switch j.kind {
			case "equiv":
				res = c36EquivCase(c, j.r)
			case "stdin":
				res = c36StdinCase(c, j.r, j.cls)
			default:
				res = c36RunCase(c, j.cs, j.r, j.rep)
				res.tags = append(res.tags, j.tags...)
			}
		})
		if p != "" {
			res.skipped = "harness-panic: " + p
		}
		return res
	})
	runs := 0
	for _, res := range results {
		runs += res.runs
		if strings.HasPrefix(res.skipped, "harness-panic") {
			panic(res.skipped)
		}
		if res.skipped != "" {
			c.Case(res.key, false, "skipped:"+res.skipped)
			continue
		}
		for _, o := range res.ops {
			c.Op(o.op, o.impl)
		}
		for _, f := range res.fails {
			c.Fail(f.Witness, f.What)
		}
		c.Case(res.key, res.nontriv, res.tags...)
	}
	c.Extra["binary_runs"] = runs
}

type c36DirEntry struct {
	name string
	mode fs.FileMode
}

func (d c36DirEntry) Name() string               { return d.name }
func (d c36DirEntry) IsDir() bool                { return d.mode.IsDir() }
func (d c36DirEntry) Type() fs.FileMode          { return d.mode.Type() }
func (d c36DirEntry) Info() (fs.FileInfo, error) { return nil, fs.ErrInvalid }

func c36Units(c *Ctx) {
	r := c.R.Fork("units")
	pieces := []string{"#!", "#", "!", " ", "\t", "/", "usr/", "bin/", "env", "env ", "sh", "dash", "bash", "mksh", "bats", "zsh", "ksh", "x", "\n", "\r", "\f", "\v", " -e", "/usr/bin/env ", "#!/bin/", "#!/usr/bin/env "}
	n := 300
	if c.Thorough() {
		n = 20000
	}
	for i := 0; i < n; i++ {
		s := genFrom(r, pieces, 7)
		if r.Chance(30) {
			s = r.Pick(c36Shebangs) + s
		}
		if r.Chance(20) && len(s) > 32 {
			s = s[:32]
		}
		got := ""
		if p := safely(func() { got = fileutil.Shebang([]byte(s)) }); p != "" {
			got = "panic"
		}
		c.Op("shebang "+hx(s), hx(got))
		c.Case("shebang "+s, got != "", "unit:shebang")
	}
	names := append(append([]string{}, c36ShellNames...), c36OtherNames...)
	names = append(names, ".", "..", ".sh", "a.", "a.SH", "a.sh.", "sh", "a.zsh", "x.bats", "a b.sh", "é.sh", ".git")
	kinds := map[string]fs.FileMode{"reg": 0, "dir": fs.ModeDir, "lnk": fs.ModeSymlink, "oth": fs.ModeNamedPipe}
	for _, nm := range names {
		for _, k := range []string{"reg", "dir", "lnk", "oth"} {
			got := "panic"
			safely(func() {
				switch fileutil.CouldBeScript2(c36DirEntry{nm, kinds[k]}) {
				case fileutil.ConfNotScript:
					got = "not"
				case fileutil.ConfIfShebang:
					got = "ifshebang"
				case fileutil.ConfIsScript:
					got = "is"
				}
			})
			c.Op("cbs "+hx(nm)+" "+k, got)
		}
	}
}
