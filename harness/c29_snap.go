//go:build c29 || all

package main

import (
	"bytes"
	"fmt"
	"reflect"
	"sort"
	"strings"
	"unsafe"

	"mvdan.cc/sh/v3/expand"
	"mvdan.cc/sh/v3/syntax"
	"mvdan.cc/sh/v3/syntax/typedjson"
)

// ---- deep snapshot of everything reachable from a syntax tree ---------------------------------
//
// One line per memory cell: `<path>\t<descriptor>`.  Pointers and slice data pointers are recorded
// by address (the Go collector does not move objects), so replacing a node by an equal copy, or
// writing the spare capacity of a slice (`s[len(s):cap(s)]`, where an `append(node.Field[:i], …)`
// would land), changes the snapshot although the typed-JSON and the printed form stay the same.
// Addresses never leave the process: a difference is reported by path only.

type c29Snapshot struct {
	lines []string
	seen  map[[2]uintptr]bool // (address, type) of pointers already expanded
}

func c29Snap(root any) []string {
	s := &c29Snapshot{seen: map[[2]uintptr]bool{}}
	s.walk("", reflect.ValueOf(root))
	return s.lines
}

func (s *c29Snapshot) add(path, desc string) { s.lines = append(s.lines, path+"\t"+desc) }

func c29TypeID(t reflect.Type) uintptr {
	// the rtype pointer is a stable identity for a type
	return (*[2]uintptr)(unsafe.Pointer(&t))[1]
}

func (s *c29Snapshot) walk(path string, v reflect.Value) {
	switch v.Kind() {
	case reflect.Invalid:
		s.add(path, "invalid")
	case reflect.Pointer:
		if v.IsNil() {
			s.add(path, "nil")
			return
		}
		addr := v.Pointer()
		s.add(path, fmt.Sprintf("ptr %s @%x", v.Type().Elem().Name(), addr))
		key := [2]uintptr{addr, c29TypeID(v.Type())}
		if s.seen[key] {
			return
		}
		s.seen[key] = true
		s.walk(path+"*", v.Elem())
	case reflect.Interface:
		if v.IsNil() {
			s.add(path, "nil-iface")
			return
		}
		s.walk(path, v.Elem())
	case reflect.Struct:
		t := v.Type()
		for i := 0; i < v.NumField(); i++ {
			s.walk(path+"."+t.Field(i).Name, v.Field(i))
		}
	case reflect.Slice:
		if v.IsNil() {
			s.add(path, "nil-slice")
			return
		}
		s.add(path, fmt.Sprintf("slice @%x len=%d cap=%d", v.Pointer(), v.Len(), v.Cap()))
		full := v.Slice3(0, v.Cap(), v.Cap()) // the spare capacity is memory reachable from the tree too
		for i := 0; i < full.Len(); i++ {
			s.walk(fmt.Sprintf("%s[%d]", path, i), full.Index(i))
		}
	case reflect.Array:
		for i := 0; i < v.Len(); i++ {
			s.walk(fmt.Sprintf("%s[%d]", path, i), v.Index(i))
		}
	case reflect.Map:
		if v.IsNil() {
			s.add(path, "nil-map")
			return
		}
		s.add(path, fmt.Sprintf("map @%x len=%d", v.Pointer(), v.Len()))
		type kv struct {
			k string
			v reflect.Value
		}
		var kvs []kv
		it := v.MapRange()
		for it.Next() {
			kvs = append(kvs, kv{fmt.Sprintf("%v", it.Key()), it.Value()})
		}
		sort.Slice(kvs, func(i, j int) bool { return kvs[i].k < kvs[j].k })
		for _, e := range kvs {
			s.walk(fmt.Sprintf("%s[%q]", path, e.k), e.v)
		}
	case reflect.String:
		s.add(path, fmt.Sprintf("%q", v.String()))
	case reflect.Bool:
		s.add(path, fmt.Sprint(v.Bool()))
	case reflect.Int, reflect.Int8, reflect.Int16, reflect.Int32, reflect.Int64:
		s.add(path, fmt.Sprint(v.Int()))
	case reflect.Uint, reflect.Uint8, reflect.Uint16, reflect.Uint32, reflect.Uint64, reflect.Uintptr:
		s.add(path, fmt.Sprint(v.Uint()))
	case reflect.Float32, reflect.Float64:
		s.add(path, fmt.Sprint(v.Float()))
	case reflect.Func, reflect.Chan, reflect.UnsafePointer:
		if v.IsNil() {
			s.add(path, "nil")
		} else {
			s.add(path, fmt.Sprintf("%s @%x", v.Kind(), v.Pointer()))
		}
	default:
		s.add(path, "kind "+v.Kind().String())
	}
}

// c29SnapDiff returns "" when the snapshots agree, else the path and (address-free) kind of the
// first difference.
func c29SnapDiff(a, b []string) string {
	strip := func(l string) (string, string) {
		path, desc, _ := strings.Cut(l, "\t")
		// drop addresses from the description that is shown
		f := strings.Fields(desc)
		out := f[:0:0]
		for _, w := range f {
			if !strings.HasPrefix(w, "@") {
				out = append(out, w)
			}
		}
		return path, strings.Join(out, " ")
	}
	n := min(len(a), len(b))
	for i := 0; i < n; i++ {
		if a[i] != b[i] {
			pa, da := strip(a[i])
			pb, db := strip(b[i])
			if pa == pb && da == db {
				return fmt.Sprintf("%s: %s now points elsewhere (same shape, different storage)", pa, da)
			}
			if pa == pb {
				return fmt.Sprintf("%s: %s became %s", pa, da, db)
			}
			return fmt.Sprintf("%s (%s) became %s (%s)", pa, da, pb, db)
		}
	}
	if len(a) != len(b) {
		return fmt.Sprintf("reachable cells %d became %d", len(a), len(b))
	}
	return ""
}

// c29TreeState is the triple of observations the property names.
type c29TreeState struct {
	json    string
	printed string
	snap    []string
}

func c29Observe(f *syntax.File) c29TreeState {
	var st c29TreeState
	var jb bytes.Buffer
	if err := typedjson.Encode(&jb, f); err != nil {
		st.json = "encode error: " + err.Error()
	} else {
		st.json = jb.String()
	}
	var pb bytes.Buffer
	if err := syntax.NewPrinter().Print(&pb, f); err != nil {
		st.printed = "print error: " + err.Error()
	} else {
		st.printed = pb.String()
	}
	st.snap = c29Snap(f)
	return st
}

func c29TreeDiff(a, b c29TreeState) string {
	if a.json != b.json {
		return "typed JSON of the tree changed: " + c29FirstDiff(a.json, b.json)
	}
	if a.printed != b.printed {
		return "printed form of the tree changed: " + c29FirstDiff(a.printed, b.printed)
	}
	if d := c29SnapDiff(a.snap, b.snap); d != "" {
		return "memory reachable from the tree changed: " + d
	}
	return ""
}

func c29FirstDiff(a, b string) string {
	i := 0
	for i < len(a) && i < len(b) && a[i] == b[i] {
		i++
	}
	lo := max(0, i-30)
	cut := func(s string) string {
		hi := min(len(s), i+30)
		if lo > len(s) {
			return ""
		}
		return s[lo:hi]
	}
	return fmt.Sprintf("at byte %d: %q became %q", i, cut(a), cut(b))
}

// ---- the recording Environ --------------------------------------------------------------------

// c29Env is the Environ handed to interp.Env.  It holds string variables, indexed arrays with
// spare capacity, sparse arrays and associative arrays; every access is counted and every
// write-like access (it also implements expand.WriteEnviron when writable is set, so that a
// forwarded Set would be accepted and recorded rather than panic) is a violation.
type c29Env struct {
	names []string
	vars  map[string]expand.Variable
	sets  []string // names passed to Set
	gets  int
}

func (e *c29Env) Get(name string) expand.Variable {
	e.gets++
	return e.vars[name]
}

func (e *c29Env) Each(f func(name string, vr expand.Variable) bool) {
	for _, n := range e.names {
		if !f(n, e.vars[n]) {
			return
		}
	}
}

// c29WEnv is c29Env plus a Set method.
type c29WEnv struct{ *c29Env }

func (e c29WEnv) Set(name string, vr expand.Variable) error {
	e.sets = append(e.sets, name)
	return nil
}

func c29NewEnv(dir, stubs string, withArrays bool) *c29Env {
	e := &c29Env{vars: map[string]expand.Variable{}}
	put := func(n string, v expand.Variable) {
		e.names = append(e.names, n)
		e.vars[n] = v
	}
	str := func(n, s string) { put(n, expand.Variable{Set: true, Exported: true, Kind: expand.String, Str: s}) }
	str("PATH", stubs)
	str("HOME", dir)
	str("TMPDIR", dir)
	str("LC_ALL", "C.utf8")
	str("EV", "env")
	str("EW", "two words")
	put("ER", expand.Variable{Set: true, Exported: true, ReadOnly: true, Kind: expand.String, Str: "ro"})
	if withArrays {
		// dense array with spare capacity: an in-place append or element write would land in
		// storage owned by the caller
		l := make([]string, 3, 8)
		copy(l, []string{"x", "y", "z"})
		put("ea", expand.Variable{Set: true, Kind: expand.Indexed, List: l})
		// sparse array
		sl := make([]string, 3, 6)
		copy(sl, []string{"p", "q", "r"})
		si := make([]int, 3, 6)
		copy(si, []int{3, 5, 7})
		put("es", expand.Variable{Set: true, Kind: expand.Indexed, List: sl, Indexes: si})
		put("em", expand.Variable{Set: true, Kind: expand.Associative, Map: map[string]string{"k": "v", "k2": "v2"}})
		rl := make([]string, 2, 4)
		copy(rl, []string{"r0", "r1"})
		put("era", expand.Variable{Set: true, ReadOnly: true, Kind: expand.Indexed, List: rl})
	}
	return e
}

// c29EnvState is the deep content of the Environ: the Each sequence with every variable's fields,
// slices up to their capacity and maps, by the same snapshot walker (addresses included).
func c29EnvState(e *c29Env) []string {
	var lines []string
	e.Each(func(name string, vr expand.Variable) bool {
		for _, l := range c29Snap(&vr) {
			// the copy `vr` lives at a new address on every call; drop the root pointer line
			if strings.HasPrefix(l, "\t") {
				continue
			}
			lines = append(lines, name+l)
		}
		return true
	})
	lines = append(lines, fmt.Sprintf("names\t%q", e.names))
	return lines
}
