//go:build c12 || all

package main

import (
	"bytes"
	"context"
	"fmt"
	"os"
	"os/exec"
	"path/filepath"
	"sort"
	"strings"
	"time"

	"mvdan.cc/sh/v3/syntax"
)

// C12 — parser acceptance agrees with the real shells, at token level.
func init() { register("C12", c12) }

// c12Toks is the token alphabet: name on the op line -> rendering.
var c12Render = map[string]string{
	"W": "a", "N": "a-b", "Q": "'q'", "A": "x=1",
	">": ">", "<": "<", "2>": "2>",
	"if": "if", "then": "then", "elif": "elif", "else": "else", "fi": "fi",
	"while": "while", "until": "until", "do": "do", "done": "done",
	"for": "for", "in": "in", "case": "case", "esac": "esac",
	"{": "{", "}": "}", "!": "!",
	"(": "(", ")": ")", ";": ";", "&": "&", "&&": "&&", "||": "||", "|": "|", ";;": ";;",
	"NL": "\n",
}

var c12Full = []string{"W", "N", "Q", "A", ">", "<", "2>",
	"if", "then", "elif", "else", "fi", "while", "until", "do", "done", "for", "in", "case", "esac",
	"{", "}", "!", "(", ")", ";", "&", "&&", "||", "|", ";;", "NL"}

func c12Src(toks []string) string {
	var sb strings.Builder
	for i, t := range toks {
		r, ok := c12Render[t]
		if !ok {
			panic("bad token " + t)
		}
		if i > 0 {
			sb.WriteByte(' ')
		}
		sb.WriteString(r)
	}
	sb.WriteByte('\n')
	return sb.String()
}

func c12Go(lang syntax.LangVariant, src string) string {
	out := "acc"
	p := safely(func() {
		_, err := syntax.NewParser(syntax.Variant(lang)).Parse(strings.NewReader(src), "")
		if err != nil {
			out = "rej"
		}
	})
	if p != "" {
		return "panic"
	}
	return out
}

// c12Shell runs `bash --norc --noprofile -n file` / `dash -n file`; like the repository's
// confirmParse, a non-warning line on stderr counts as an error too.
func c12Shell(c *Ctx, shell, dir string, id int, src string) string {
	f := filepath.Join(dir, fmt.Sprintf("s%d.sh", id))
	if err := os.WriteFile(f, []byte(src), 0o644); err != nil {
		return "io-error"
	}
	defer os.Remove(f)
	ctx, cancel := context.WithTimeout(context.Background(), 5*time.Second)
	defer cancel()
	var argv []string
	if shell == "bash" {
		argv = []string{"bash", "--norc", "--noprofile", "-n", f}
	} else {
		argv = []string{"dash", "-n", f}
	}
	cmd := exec.CommandContext(ctx, argv[0], argv[1:]...)
	cmd.Dir = dir
	cmd.Env = shellEnv(c, dir)
	var errb bytes.Buffer
	cmd.Stderr = &errb
	cmd.Stdin = nil
	err := cmd.Run()
	if ctx.Err() != nil {
		return "timeout"
	}
	if err != nil {
		if _, ok := err.(*exec.ExitError); ok {
			return "rej"
		}
		return "io-error"
	}
	for _, l := range strings.Split(errb.String(), "\n") {
		l = strings.TrimSpace(l)
		if l != "" && !strings.Contains(l, "warning:") {
			return "rej"
		}
	}
	return "acc"
}

func c12Explore(c *Ctx) {
	alpha := strings.Fields(os.Getenv("C12_ALPHA"))
	if len(alpha) == 0 {
		alpha = c12Full
	}
	maxLen := 3
	fmt.Sscan(os.Getenv("C12_EXPLORE"), &maxLen)
	var lists [][]string
	var rec func(cur []string)
	rec = func(cur []string) {
		if len(cur) > 0 {
			lists = append(lists, append([]string(nil), cur...))
		}
		if len(cur) == maxLen {
			return
		}
		for _, t := range alpha {
			rec(append(cur, t))
		}
	}
	rec(nil)
	dir := scratchDir(c)
	type res struct{ gb, gp, b, d string }
	out := parallelMap(len(lists), 32, func(i int) res {
		src := c12Src(lists[i])
		return res{c12Go(syntax.LangBash, src), c12Go(syntax.LangPOSIX, src),
			c12Shell(c, "bash", dir, i, src), c12Shell(c, "dash", dir, i, src)}
	})
	var lines []string
	for i, r := range out {
		if r.gb != r.b {
			lines = append(lines, fmt.Sprintf("BASH go=%s sh=%s : %s", r.gb, r.b, strings.Join(lists[i], " ")))
		}
		if r.gp != r.d {
			lines = append(lines, fmt.Sprintf("DASH go=%s sh=%s : %s", r.gp, r.d, strings.Join(lists[i], " ")))
		}
	}
	sort.Strings(lines)
	os.WriteFile(filepath.Join(c.Out, "explore.txt"), []byte(strings.Join(lines, "\n")+"\n"), 0o644)
	fmt.Printf("explored %d lists, %d disagreements\n", len(lists), len(lines))
}

func c12(c *Ctx) {
	if os.Getenv("C12_EXPLORE") != "" {
		c12Explore(c)
		return
	}
}
