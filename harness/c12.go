//go:build c12 || all

package main

import (
	"bytes"
	"context"
	"fmt"
	"os"
	"os/exec"
	"path/filepath"
	"sort"
	"strings"
	"time"

	"mvdan.cc/sh/v3/syntax"
)

// C12 — parser acceptance agrees with the real shells, at token level.
func init() { register("C12", c12) }

// c12Variants is the token alphabet: class name on the op line -> concrete renderings.  The model
// works on classes; every rendering of a class must behave alike (that is part of the tie).
var c12Variants = map[string][]string{
	"W": {"a", "b", "foo", "x1"}, "Q": {"'q'", "\"q r\"", "$x", "a'b'"}, "A": {"x=1", "y="},
	">":  {">", "<", ">>", ">|"},
	"if": {"if"}, "then": {"then"}, "elif": {"elif"}, "else": {"else"}, "fi": {"fi"},
	"while": {"while"}, "until": {"until"}, "do": {"do"}, "done": {"done"},
	"for": {"for"}, "in": {"in"}, "case": {"case"}, "esac": {"esac"},
	"{": {"{"}, "}": {"}"}, "!": {"!"},
	"(": {"("}, ")": {")"}, ";": {";"}, "&": {"&"}, "&&": {"&&"}, "||": {"||"}, "|": {"|"}, ";;": {";;"},
	"NL": {"\n"},
}

var c12Full = []string{"W", "Q", "A", ">",
	"if", "then", "elif", "else", "fi", "while", "until", "do", "done", "for", "in", "case", "esac",
	"{", "}", "!", "(", ")", ";", "&", "&&", "||", "|", ";;", "NL"}

// c12Src renders a token list: tokens separated by one blank, no trailing newline.  r == nil
// selects the first rendering of every class.
func c12Src(toks []string, r *Rand) string {
	var sb strings.Builder
	for i, t := range toks {
		vs, ok := c12Variants[t]
		if !ok {
			panic("bad token " + t)
		}
		if i > 0 {
			sb.WriteByte(' ')
		}
		if r == nil {
			sb.WriteString(vs[0])
		} else {
			sb.WriteString(vs[r.Intn(len(vs))])
		}
	}
	return sb.String()
}

func c12Go(lang syntax.LangVariant, src string) string {
	out := "acc"
	p := safely(func() {
		_, err := syntax.NewParser(syntax.Variant(lang)).Parse(strings.NewReader(src), "")
		if err != nil {
			out = "rej"
		}
	})
	if p != "" {
		return "panic"
	}
	return out
}

// c12Shell runs `bash --norc --noprofile -n file` / `dash -n file`; like the repository's
// confirmParse, a non-warning line on stderr counts as an error too.
func c12Shell(c *Ctx, shell, dir string, id int, src string) string {
	f := filepath.Join(dir, fmt.Sprintf("s%d.sh", id))
	if err := os.WriteFile(f, []byte(src), 0o644); err != nil {
		return "io-error"
	}
	defer os.Remove(f)
	ctx, cancel := context.WithTimeout(context.Background(), 5*time.Second)
	defer cancel()
	var argv []string
	if shell == "bash" {
		argv = []string{"bash", "--norc", "--noprofile", "-n", f}
	} else {
		argv = []string{"dash", "-n", f}
	}
	cmd := exec.CommandContext(ctx, argv[0], argv[1:]...)
	cmd.Dir = dir
	cmd.Env = shellEnv(c, dir)
	var errb bytes.Buffer
	cmd.Stderr = &errb
	cmd.Stdin = nil
	err := cmd.Run()
	if ctx.Err() != nil {
		return "timeout"
	}
	if err != nil {
		if _, ok := err.(*exec.ExitError); ok {
			return "rej"
		}
		return "io-error"
	}
	for _, l := range strings.Split(errb.String(), "\n") {
		l = strings.TrimSpace(l)
		if l != "" && !strings.Contains(l, "warning:") {
			return "rej"
		}
	}
	return "acc"
}

// ---------------------------------------------------------------------------------------------
// Go transliteration of the Lean model (ShVerif.C12.parse): a statement-level recursive descent on
// token classes, parametrised by the rule variants in which Go's parser and the real shells differ.
// It is used by the search leg only, to decide whether a Go-vs-shell disagreement lies inside a
// region already explained by a *known* rule variant.  (The Lean model itself is tied to the real
// parser through the op stream; this copy is tied to both on every case as well.)

type c12Cfg struct {
	posix bool // LangPOSIX (function-name check, no `for … {`)
	// rule variants; the value of goCfg is the behaviour of syntax/parser.go
	elseInCmd        bool // `else` / `in` may be a command name when they are not a stop word
	rsrvAfterIO      bool // after a redirection prefix reserved words are still reserved
	bangAlone        bool // bash: `!` may be repeated, and may stand alone before `;`, newline or EOF
	forAssign        bool // an assignment-looking word is accepted as the `for` variable
	fnBody           int  // function body: 0 any and-or list (Go), 1 one command (dash), 2 compound command (bash)
	forBrace         bool // `for x; { …; }`
	closerAfterRedir bool // a closing reserved word is recognised right after a compound command's redirections
	patAny           bool // dash quirk (not a grammar variant): case patterns are not checked to be words
}

func c12GoCfg(posix bool) c12Cfg {
	return c12Cfg{posix: posix, elseInCmd: true, rsrvAfterIO: true, bangAlone: false, forAssign: true, fnBody: 0, forBrace: !posix, closerAfterRedir: true}
}

// c12ShCfg is the grammar of the real shell of the language (bash for Bash, dash for POSIX).
func c12ShCfg(posix bool) c12Cfg {
	if posix {
		return c12Cfg{posix: true, elseInCmd: false, rsrvAfterIO: false, bangAlone: false, forAssign: false, fnBody: 1, forBrace: false}
	}
	return c12Cfg{posix: false, elseInCmd: false, rsrvAfterIO: false, bangAlone: true, forAssign: true, fnBody: 2, forBrace: true}
}

type c12Quote int

const (
	qNone c12Quote = iota
	qSub
	qCase
)

type c12P struct {
	ts  []string
	i   int
	err bool
	cfg c12Cfg
}

func (p *c12P) tok() string {
	if p.err || p.i >= len(p.ts) {
		return ""
	}
	return p.ts[p.i]
}
func (p *c12P) fail() { p.err = true }
func (p *c12P) next() { p.i++ }
func (p *c12P) got(t string) bool {
	if p.tok() == t {
		p.next()
		return true
	}
	return false
}
func (p *c12P) gotNL() bool {
	g := false
	for p.tok() == "NL" {
		p.next()
		g = true
	}
	return g
}

var c12Rsrv = map[string]bool{"if": true, "then": true, "elif": true, "else": true, "fi": true, "while": true,
	"until": true, "do": true, "done": true, "for": true, "in": true, "case": true, "esac": true, "{": true, "}": true, "!": true}

func c12LitWord(t string) bool   { return t == "W" || t == "A" || c12Rsrv[t] }
func c12WordStart(t string) bool { return c12LitWord(t) || t == "Q" }
func c12Stop(t string) bool {
	switch t {
	case "", "NL", ";", "&", "|", "&&", "||", ";;", ")":
		return true
	}
	return false
}

func (p *c12P) getWord() bool {
	if c12WordStart(p.tok()) {
		p.next()
		return true
	}
	return false
}

func (p *c12P) redirect() {
	p.next()
	if !p.getWord() {
		p.fail()
	}
}

func (p *c12P) expect(t string) {
	if !p.got(t) {
		p.fail()
	}
}

// stmts returns the number of statements read.
func (p *c12P) stmts(q c12Quote, stops ...string) int {
	gotEnd := true
	n := 0
loop:
	for p.tok() != "" {
		newLine := p.gotNL()
		t := p.tok()
		switch {
		case c12LitWord(t):
			for _, s := range stops {
				if t == s {
					break loop
				}
			}
			if t == "}" {
				p.fail()
			}
		case t == ")":
			if q == qSub {
				break loop
			}
		case t == ";;":
			if q == qCase {
				break loop
			}
			p.fail()
		}
		if !newLine && !gotEnd {
			p.fail()
		}
		if p.tok() == "" {
			break
		}
		ok, semi := p.getStmt(q, true, false)
		if !ok {
			p.fail()
			break
		}
		n++
		gotEnd = semi
	}
	return n
}

func (p *c12P) followStmts(q c12Quote, stops ...string) {
	if p.stmts(q, stops...) < 1 {
		p.fail()
	}
}

func (p *c12P) getStmt(q c12Quote, readEnd, binCmd bool) (ok, semi bool) {
	neg := false
	if p.got("!") {
		neg = true
		if p.cfg.bangAlone {
			for p.tok() == "!" {
				p.next()
			}
			if t := p.tok(); !p.err && (t == "" || t == "NL" || t == ";") {
				if readEnd && t == ";" {
					p.next()
					return true, true
				}
				return true, false
			}
		}
		if c12Stop(p.tok()) {
			p.fail()
		}
		if p.tok() == "!" {
			p.fail()
		}
	}
	if !p.pipe(q, neg, false) || p.err {
		return false, false
	}
	for p.tok() == "&&" || p.tok() == "||" {
		if binCmd {
			return true, false
		}
		p.next()
		p.gotNL()
		if ok, _ := p.getStmt(q, false, true); !ok || p.err {
			p.fail()
			return false, false
		}
	}
	if readEnd && (p.tok() == ";" || p.tok() == "&") {
		p.next()
		semi = true
	}
	return true, semi
}

func (p *c12P) pipe(q c12Quote, neg, binCmd bool) bool {
	pre := false
	for p.tok() == ">" {
		p.redirect()
		pre = true
	}
	cmd, call := false, false
	t := p.tok()
	switch {
	case pre && !p.cfg.rsrvAfterIO && c12LitWord(t) && t != "A":
		// the real shells: after a redirection no reserved word is recognised
		p.next()
		if p.tok() == "(" {
			p.fail()
		}
		p.callExpr(q, 1)
		cmd, call = true, true
	case c12LitWord(t):
		compound := true
		switch t {
		case "{":
			p.next()
			p.followStmts(q, "}")
			p.expect("}")
		case "if":
			p.next()
			p.followStmts(q, "then")
			p.expect("then")
			p.followStmts(q, "fi", "elif", "else")
			for p.tok() == "elif" {
				p.next()
				p.followStmts(q, "then")
				p.expect("then")
				p.followStmts(q, "fi", "elif", "else")
			}
			if p.got("else") {
				p.followStmts(q, "fi")
			}
			p.expect("fi")
		case "while", "until":
			p.next()
			p.followStmts(q, "do")
			p.expect("do")
			p.followStmts(q, "done")
			p.expect("done")
		case "for":
			p.next()
			if !c12LitWord(p.tok()) || (p.tok() == "A" && !p.cfg.forAssign) {
				p.fail()
			}
			p.next()
			if p.got(";") {
				p.gotNL()
			} else {
				p.gotNL()
				if p.got("in") {
					for !c12Stop(p.tok()) {
						if !p.getWord() {
							p.fail()
						}
					}
					p.got(";")
					p.gotNL()
				} else if p.tok() != "do" {
					p.fail()
				}
			}
			end := "done"
			if p.tok() == "{" {
				if !p.cfg.forBrace {
					p.fail()
				}
				p.next()
				end = "}"
			} else {
				p.expect("do")
			}
			p.followStmts(q, end)
			p.expect(end)
		case "case":
			p.next()
			if !p.getWord() {
				p.fail()
			}
			p.gotNL()
			if p.tok() == "{" {
				p.fail()
			}
			p.expect("in")
			p.gotNL()
			for p.tok() != "" && p.tok() != "esac" {
				p.got("(")
				for p.tok() != "" {
					if p.cfg.patAny {
						p.next()
					} else if !p.getWord() {
						p.fail()
					}
					if p.tok() == ")" {
						break
					}
					if !p.got("|") {
						p.fail()
					}
				}
				p.next() // the `)`
				p.stmts(qCase, "esac")
				if p.tok() != ";;" {
					break
				}
				p.next()
				p.gotNL()
			}
			p.expect("esac")
		case "}", "then", "elif", "fi", "do", "done", "esac":
			p.fail()
			compound = false
		case "!":
			if !neg {
				p.fail()
			}
			compound = false
		case "else", "in":
			if !p.cfg.elseInCmd {
				p.fail()
			}
			compound = false
		default:
			compound = false
		}
		if compound {
			cmd = true
			break
		}
		if p.err {
			break
		}
		if t == "A" {
			p.next()
			p.callExpr(q, 0)
			cmd, call = true, true
			break
		}
		p.next()
		if p.tok() == "(" {
			p.next()
			p.expect(")")
			if p.cfg.posix && t == "!" {
				p.fail()
			}
			p.funcBody(q)
			cmd = true
		} else {
			p.callExpr(q, 1)
			cmd, call = true, true
		}
	case t == "Q":
		p.next()
		if p.got("(") {
			p.fail()
		}
		p.callExpr(q, 1)
		cmd, call = true, true
	case t == "(":
		p.next()
		p.followStmts(qSub)
		p.expect(")")
		cmd = true
	}
	if !cmd && !pre {
		return false
	}
	if pre && cmd && !call {
		p.fail()
	}
	post := false
	for p.tok() == ">" {
		p.redirect()
		post = true
	}
	if post && !p.cfg.closerAfterRedir && !p.err {
		// the real shells are not at command position after the redirections of a compound command
		if t := p.tok(); !(t == "" || c12Stop(t)) {
			p.fail()
		}
	}
	for p.tok() == "|" {
		if binCmd {
			return true
		}
		p.next()
		p.gotNL()
		if !p.pipe(q, false, true) || p.err {
			p.fail()
			break
		}
	}
	return true
}

func (p *c12P) funcBody(q c12Quote) {
	p.gotNL()
	switch p.cfg.fnBody {
	case 0:
		if ok, _ := p.getStmt(q, false, false); !ok {
			p.fail()
		}
	case 1:
		if !p.pipe(q, false, true) {
			p.fail()
		}
	default:
		switch p.tok() {
		case "{", "(", "if", "while", "until", "for", "case":
			if !p.pipe(q, false, true) {
				p.fail()
			}
		default:
			p.fail()
		}
	}
}

func (p *c12P) callExpr(q c12Quote, nargs int) {
	for {
		t := p.tok()
		switch {
		case t == "" || t == "NL" || t == ";" || t == "&" || t == "|" || t == "&&" || t == "||" || t == ";;":
			return
		case c12LitWord(t):
			if nargs == 0 && t == "A" {
				p.next()
			} else {
				p.next()
				nargs++
			}
		case t == "Q":
			p.next()
			nargs++
		case t == "(":
			p.fail()
		case t == ")":
			if q == qSub {
				return
			}
			p.fail()
		case t == ">":
			p.redirect()
		default:
			p.fail()
		}
	}
}

func c12Model(cfg c12Cfg, toks []string) string {
	p := &c12P{ts: toks, cfg: cfg}
	p.stmts(qNone)
	if p.err {
		return "rej"
	}
	return "acc"
}

func c12Explore(c *Ctx) {
	alpha := strings.Fields(os.Getenv("C12_ALPHA"))
	if len(alpha) == 0 {
		alpha = c12Full
	}
	maxLen := 3
	fmt.Sscan(os.Getenv("C12_EXPLORE"), &maxLen)
	var lists [][]string
	var rec func(cur []string)
	rec = func(cur []string) {
		if len(cur) > 0 {
			lists = append(lists, append([]string(nil), cur...))
		}
		if len(cur) == maxLen {
			return
		}
		for _, t := range alpha {
			rec(append(cur, t))
		}
	}
	rec(nil)
	dir := scratchDir(c)
	type res struct{ gb, gp, b, d string }
	out := parallelMap(len(lists), 4, func(i int) res {
		src := c12Src(lists[i], nil)
		return res{c12Go(syntax.LangBash, src), c12Go(syntax.LangPOSIX, src),
			c12Shell(c, "bash", dir, i, src), c12Shell(c, "dash", dir, i, src)}
	})
	var lines []string
	for i, r := range out {
		if r.gb != r.b {
			lines = append(lines, fmt.Sprintf("BASH go=%s sh=%s : %s", r.gb, r.b, strings.Join(lists[i], " ")))
		}
		if r.gp != r.d {
			lines = append(lines, fmt.Sprintf("DASH go=%s sh=%s : %s", r.gp, r.d, strings.Join(lists[i], " ")))
		}
	}
	sort.Strings(lines)
	os.WriteFile(filepath.Join(c.Out, "explore.txt"), []byte(strings.Join(lines, "\n")+"\n"), 0o644)
	fmt.Printf("explored %d lists, %d disagreements\n", len(lists), len(lines))
}

// ---------------------------------------------------------------------------------------------
// Structured generator: token lists derived from the shared core grammar.

type c12Gen struct{ r *Rand }

func (g c12Gen) word() string {
	switch g.r.Intn(10) {
	case 0, 1:
		return "Q"
	default:
		return "W"
	}
}

var c12RsrvList = []string{"if", "then", "elif", "else", "fi", "while", "until", "do", "done", "for", "in", "case", "esac", "{", "}", "!"}

func (g c12Gen) arg() []string {
	switch g.r.Intn(14) {
	case 0:
		return []string{"A"}
	case 1:
		return []string{g.r.Pick(c12RsrvList)}
	case 2:
		return []string{">", g.word()}
	case 3:
		return []string{"Q"}
	default:
		return []string{"W"}
	}
}

func (g c12Gen) nls(p int) []string {
	var out []string
	for g.r.Chance(p) {
		out = append(out, "NL")
	}
	return out
}

func (g c12Gen) sep() []string {
	switch g.r.Intn(6) {
	case 0:
		return append([]string{"&"}, g.nls(30)...)
	case 1, 2:
		return append([]string{"NL"}, g.nls(20)...)
	default:
		return append([]string{";"}, g.nls(30)...)
	}
}

func (g c12Gen) simple() []string {
	var out []string
	for g.r.Chance(15) {
		if g.r.Bool() {
			out = append(out, "A")
		} else {
			out = append(out, ">", g.word())
		}
	}
	if len(out) == 0 || g.r.Chance(70) {
		out = append(out, g.word())
		for g.r.Chance(45) {
			out = append(out, g.arg()...)
		}
	}
	return out
}

func (g c12Gen) redirs() []string {
	var out []string
	for g.r.Chance(15) {
		out = append(out, ">", g.word())
	}
	return out
}

func (g c12Gen) compoundList(d int) []string {
	out := g.nls(15)
	out = append(out, g.andOr(d)...)
	for g.r.Chance(30) {
		out = append(out, g.sep()...)
		out = append(out, g.andOr(d)...)
	}
	if g.r.Chance(15) {
		// no separator before the closing word: fine after a compound command without
		// redirections, an error (or an argument) otherwise
		return out
	}
	return append(out, g.sep()...)
}

func (g c12Gen) compound(d int) []string {
	var out []string
	switch g.r.Intn(8) {
	case 0:
		out = append(append([]string{"{"}, g.compoundList(d)...), "}")
	case 1:
		out = []string{"("}
		out = append(out, g.nls(10)...)
		out = append(out, g.andOr(d)...)
		if g.r.Chance(40) {
			out = append(out, g.sep()...)
		}
		out = append(out, ")")
	case 2, 3:
		out = append(append([]string{"if"}, g.compoundList(d)...), "then")
		out = append(out, g.compoundList(d)...)
		for g.r.Chance(25) {
			out = append(append(append(out, "elif"), g.compoundList(d)...), "then")
			out = append(out, g.compoundList(d)...)
		}
		if g.r.Chance(40) {
			out = append(append(out, "else"), g.compoundList(d)...)
		}
		out = append(out, "fi")
	case 4:
		kw := "while"
		if g.r.Bool() {
			kw = "until"
		}
		out = append(append([]string{kw}, g.compoundList(d)...), "do")
		out = append(append(out, g.compoundList(d)...), "done")
	case 5:
		out = []string{"for", "W"}
		switch g.r.Intn(5) {
		case 0:
		case 1:
			out = append(append(out, ";"), g.nls(30)...)
		case 2:
			out = append(out, "NL")
		default:
			out = append(append(out, g.nls(20)...), "in")
			for g.r.Chance(60) {
				out = append(out, g.word())
			}
			out = append(out, g.sep()...)
			if out[len(out)-1] == "&" {
				out[len(out)-1] = ";"
			}
		}
		out = append(append(append(out, "do"), g.compoundList(d)...), "done")
	default:
		out = append(append(append([]string{"case", g.word()}, g.nls(15)...), "in"), g.nls(30)...)
		n := g.r.Intn(3)
		for i := 0; i < n; i++ {
			if g.r.Chance(30) {
				out = append(out, "(")
			}
			out = append(out, g.word())
			for g.r.Chance(25) {
				out = append(out, "|", g.word())
			}
			out = append(out, ")")
			if g.r.Chance(80) {
				out = append(out, g.compoundList(d)...)
				if g.r.Chance(30) && out[len(out)-1] != "NL" {
					out = out[:len(out)-1]
				}
			} else {
				out = append(out, g.nls(30)...)
			}
			if i < n-1 || g.r.Chance(70) {
				out = append(append(out, ";;"), g.nls(40)...)
			}
		}
		out = append(out, "esac")
	}
	return out
}

func (g c12Gen) command(d int) []string {
	if d <= 0 {
		return g.simple()
	}
	switch g.r.Intn(10) {
	case 0, 1, 2:
		return append(g.compound(d-1), g.redirs()...)
	case 3:
		out := append([]string{"W", "(", ")"}, g.nls(20)...)
		if g.r.Chance(85) {
			return append(append(out, g.compound(d-1)...), g.redirs()...)
		}
		return append(out, g.simple()...)
	default:
		return g.simple()
	}
}

func (g c12Gen) pipeline(d int) []string {
	var out []string
	if g.r.Chance(10) {
		out = append(out, "!")
	}
	out = append(out, g.command(d)...)
	for g.r.Chance(15) {
		out = append(append(out, "|"), g.nls(15)...)
		out = append(out, g.command(d)...)
	}
	return out
}

func (g c12Gen) andOr(d int) []string {
	out := g.pipeline(d)
	for g.r.Chance(15) {
		out = append(append(out, g.r.Pick([]string{"&&", "||"})), g.nls(15)...)
		out = append(out, g.pipeline(d)...)
	}
	return out
}

func (g c12Gen) program(d int) []string {
	out := g.nls(10)
	out = append(out, g.andOr(d)...)
	for g.r.Chance(25) {
		out = append(out, g.sep()...)
		out = append(out, g.andOr(d)...)
	}
	if g.r.Chance(40) {
		out = append(out, g.sep()...)
	}
	return out
}

// c12OracleQuirk reports token lists on which `bash -n` / `dash -n` is not a usable oracle:
//   - bash checks that a function name or `for` variable is an identifier only when the command
//     is executed, so `bash -n` accepts `'q' ( ) …` and `for 'q' in …`; the repository's own
//     confirmParse therefore runs expected-error inputs without -n.
//   - bash 5.2 mis-tracks the `in` it expects after `for x <newline>` once a `case` has been seen
//     (`case a in esac; for a <newline> in x; do c; done` is a syntax error, without the case or
//     without the newline it is not).
//   - dash does not check that the tokens in a case pattern list are words (parser.c, `case`):
//     `case a in b | ; ) …` and `case a in ; ) …` are accepted.  The region is computed exactly:
//     the lists on which the grammar with unchecked patterns answers differently.
func c12OracleQuirk(posix bool, ts []string) bool {
	if posix {
		cfg := c12ShCfg(true)
		cfg.patAny = true
		return c12Model(cfg, ts) != c12Model(c12ShCfg(true), ts)
	}
	hasCase, forNLin := false, false
	for i, t := range ts {
		nxt := ""
		if i+1 < len(ts) {
			nxt = ts[i+1]
		}
		if t == "case" {
			hasCase = true
		}
		if (t == "Q" && nxt == "(") || (t == "for" && nxt == "Q") {
			return true
		}
		if t == "for" && i+2 < len(ts) && ts[i+2] == "NL" {
			j := i + 2
			for j < len(ts) && ts[j] == "NL" {
				j++
			}
			if j < len(ts) && ts[j] == "in" {
				forNLin = true
			}
		}
	}
	return hasCase && forNLin
}

// caseClause derives a case clause; lastOpen: the last item has no `;;`.
func (g c12Gen) caseClause(d int, lastOpen bool) []string {
	out := append(append(append([]string{"case", g.word()}, g.nls(10)...), "in"), g.nls(20)...)
	n := 1 + g.r.Intn(2)
	for i := 0; i < n; i++ {
		if g.r.Chance(25) {
			out = append(out, "(")
		}
		out = append(out, g.word())
		for g.r.Chance(20) {
			out = append(out, "|", g.word())
		}
		out = append(out, ")")
		last := i == n-1
		switch g.r.Intn(5) {
		case 0: // empty body
			out = append(out, g.nls(30)...)
		case 1: // body ends with a compound command: no separator needed before esac
			out = append(out, g.compound(d)...)
		default:
			out = append(out, g.andOr(d)...)
			if g.r.Bool() {
				out = append(out, ";")
			} else {
				out = append(out, "NL")
			}
		}
		if !last || !lastOpen {
			out = append(append(out, ";;"), g.nls(30)...)
		}
	}
	return append(out, "esac")
}

// nestedCase: a case clause (usually with an unterminated last item) inside the constructs that
// change the parser's nesting state or end with a closing token: ( ), a function body in ( ),
// { }, if, while, for, another case item — optionally followed by more of the enclosing list.
func (g c12Gen) nestedCase(d int) []string {
	cc := g.caseClause(d, g.r.Chance(70))
	tail := func() []string {
		var t []string
		if g.r.Chance(35) {
			t = append(t, g.sep()...)
			t = append(t, g.andOr(0)...)
		}
		return t
	}
	closeSep := func() []string {
		if g.r.Bool() {
			return []string{";"}
		}
		return []string{"NL"}
	}
	var out []string
	switch g.r.Intn(8) {
	case 0, 1:
		out = append(append(append([]string{"("}, cc...), tail()...), ")")
	case 2:
		out = append(append(append([]string{"W", "(", ")", "("}, cc...), tail()...), ")")
	case 3:
		out = append(append(append(append([]string{"{"}, cc...), tail()...), closeSep()...), "}")
	case 4:
		out = append(append(append(append([]string{"if"}, cc...), closeSep()...), "then"), cc...)
		out = append(append(out, closeSep()...), "fi")
	case 5:
		out = append(append(append(append([]string{"while", "W", ";", "do"}, cc...), tail()...), closeSep()...), "done")
	case 6:
		out = append(append(append([]string{"case", "W", "in", "W", ")"}, cc...), tail()...), ";;", "esac")
	default:
		out = append(append([]string{"(", "("}, cc...), ")", ")")
	}
	if g.r.Chance(30) {
		out = append(append(out, g.sep()...), g.andOr(0)...)
	}
	return out
}

var c12Closers = []string{";;", ")", "}", "fi", "done", "esac", "then", "do", "else", "elif"}

// c12Stray puts a closing token after a complete statement: at the end of the list, or after one
// of its separators, optionally followed by a word.
func c12Stray(r *Rand, ts []string) []string {
	var at []int
	for i, t := range ts {
		if t == ";" || t == "NL" || t == "&" {
			at = append(at, i+1)
		}
	}
	at = append(at, len(ts))
	i := at[r.Intn(len(at))]
	ins := []string{r.Pick(c12Closers)}
	if i == len(ts) && i > 0 && ts[i-1] != ";" && ts[i-1] != "NL" && ts[i-1] != "&" && r.Chance(70) {
		ins = append([]string{r.Pick([]string{";", "NL"})}, ins...)
	}
	if r.Chance(40) {
		ins = append(ins, "W")
	}
	out := append([]string(nil), ts[:i]...)
	out = append(out, ins...)
	return append(out, ts[i:]...)
}

// c12InsertRedir inserts a whole redirection `> word` in front of a command start (the beginning,
// or after a separator, an operator, `!`, an opening reserved word, `(`, or the `)` of `f ( )`),
// or, one time in five, anywhere.
func c12InsertRedir(r *Rand, ts []string) []string {
	at := []int{0}
	for i, t := range ts {
		switch t {
		case ";", "NL", "&", "|", "&&", "||", "!", "then", "do", "else", "elif", "if", "while", "until", "{", "(", ")", ";;":
			at = append(at, i+1)
		}
	}
	i := at[r.Intn(len(at))]
	if r.Chance(20) {
		i = r.Intn(len(ts) + 1)
	}
	w := "W"
	if r.Chance(15) {
		w = r.Pick([]string{"Q", "A", "if", "}", "done"})
	}
	out := append([]string(nil), ts[:i]...)
	out = append(out, ">", w)
	return append(out, ts[i:]...)
}

// c12Mutate applies one token-level insertion, deletion, replacement or swap.
func c12Mutate(r *Rand, ts []string) []string {
	out := append([]string(nil), ts...)
	switch k := r.Intn(4); {
	case k == 0 || len(out) == 0:
		i := r.Intn(len(out) + 1)
		out = append(out[:i], append([]string{r.Pick(c12Full)}, out[i:]...)...)
	case k == 1:
		i := r.Intn(len(out))
		out = append(out[:i], out[i+1:]...)
	case k == 2:
		out[r.Intn(len(out))] = r.Pick(c12Full)
	default:
		if len(out) >= 2 {
			i := r.Intn(len(out) - 1)
			out[i], out[i+1] = out[i+1], out[i]
		}
	}
	return out
}

// c12Sample: sampled grammar-vs-shell and Go-vs-shell exploration (development aid).
func c12Sample(c *Ctx) {
	n := 300
	fmt.Sscan(os.Getenv("C12_SAMPLE"), &n)
	g := c12Gen{c.R}
	seen := map[string]bool{}
	var lists [][]string
	add := func(ts []string) {
		k := strings.Join(ts, " ")
		if len(ts) == 0 || len(ts) > 40 || seen[k] {
			return
		}
		seen[k] = true
		lists = append(lists, ts)
	}
	for i := 0; i < n; i++ {
		ts := g.program(c.R.Intn(3))
		add(ts)
		for j := 0; j < 3; j++ {
			m := c12Mutate(c.R, ts)
			add(m)
			if c.R.Chance(30) {
				add(c12Mutate(c.R, m))
			}
		}
	}
	dir := scratchDir(c)
	type res struct{ b, d string }
	out := parallelMap(len(lists), 4, func(i int) res {
		src := c12Src(lists[i], nil)
		return res{c12Shell(c, "bash", dir, i, src), c12Shell(c, "dash", dir, i, src)}
	})
	var lines []string
	acc := 0
	for i, r := range out {
		ts := lists[i]
		mb, md := c12Model(c12ShCfg(false), ts), c12Model(c12ShCfg(true), ts)
		if mb == "acc" {
			acc++
		}
		if c12OracleQuirk(false, ts) {
			r.b = mb
		}
		if c12OracleQuirk(true, ts) {
			r.d = md
		}
		if r.b != "timeout" && mb != r.b {
			lines = append(lines, fmt.Sprintf("BASH grammar=%s sh=%s : %s", mb, r.b, strings.Join(ts, " ")))
		}
		if r.d != "timeout" && md != r.d {
			lines = append(lines, fmt.Sprintf("DASH grammar=%s sh=%s : %s", md, r.d, strings.Join(ts, " ")))
		}
	}
	sort.Slice(lines, func(i, j int) bool { return len(lines[i]) < len(lines[j]) })
	os.WriteFile(filepath.Join(c.Out, "sample.txt"), []byte(strings.Join(lines, "\n")+"\n"), 0o644)
	fmt.Printf("sampled %d lists (%d accepted by bash grammar), %d disagreements\n", len(lists), acc, len(lines))
}

// c12TieExplore: exhaustive Go-parser vs transliterated-model comparison (no shells).
func c12TieExplore(c *Ctx) {
	alpha := strings.Fields(os.Getenv("C12_ALPHA"))
	if len(alpha) == 0 {
		alpha = c12Full
	}
	maxLen := 4
	fmt.Sscan(os.Getenv("C12_TIE"), &maxLen)
	n, bad := 0, 0
	cur := make([]string, 0, maxLen)
	var rec func()
	rec = func() {
		if len(cur) > 0 {
			n++
			src := c12Src(cur, c.R)
			for _, posix := range []bool{false, true} {
				lang := syntax.LangBash
				if posix {
					lang = syntax.LangPOSIX
				}
				g, m := c12Go(lang, src), c12Model(c12GoCfg(posix), cur)
				if g != m {
					bad++
					if bad < 200 {
						fmt.Printf("TIE posix=%v go=%s model=%s : %s   [%q]\n", posix, g, m, strings.Join(cur, " "), src)
					}
				}
			}
		}
		if len(cur) == maxLen {
			return
		}
		for _, t := range alpha {
			cur = append(cur, t)
			rec()
			cur = cur[:len(cur)-1]
		}
	}
	rec()
	fmt.Printf("tie-explored %d lists, %d mismatches\n", n, bad)
}

func c12CfgBits(cfg c12Cfg) string {
	b := func(x bool) byte {
		if x {
			return '1'
		}
		return '0'
	}
	return string([]byte{b(cfg.posix), b(cfg.elseInCmd), b(cfg.rsrvAfterIO), b(cfg.bangAlone), b(cfg.forAssign), byte('0' + cfg.fnBody), b(cfg.forBrace), b(cfg.closerAfterRedir)})
}

type c12Case struct {
	posix bool
	ts    []string
	src   string
	known bool // a line of corpus/C12-known.txt: its Go-vs-shell disagreement is reported
	shell bool // consult the real shell
	kind  string
}

func c12LangName(posix bool) string {
	if posix {
		return "p"
	}
	return "b"
}

// c12 — streams:
//
//	acc <b|p> toks      real syntax.Parser (LangBash / LangPOSIX) on a rendering  vs  Lean `accepts`
//	cfg <bits> toks     the harness's transliteration vs Lean `parse c` for random rule variants
//	specsh <b|p> toks   `bash -n` / `dash -n` on the same rendering vs Lean `shellAccepts`
//	                    (validation of the grammar: here the "implementation" side is the shell)
//
// Search leg (independent of Lean): Go parser vs the real shell on the same rendering; a
// disagreement is a failure unless it is reproduced exactly by the known rule variants
// (transliteration with goCfg = Go answer and with shCfg = shell answer); the canonical witnesses
// of those variants are replayed from corpus/C12-known.txt and reported through c.Fail.
func c12(c *Ctx) {
	if os.Getenv("C12_SAMPLE") != "" {
		c12Sample(c)
		return
	}
	if os.Getenv("C12_TIE") != "" {
		c12TieExplore(c)
		return
	}
	if os.Getenv("C12_EXPLORE") != "" {
		c12Explore(c)
		return
	}
	c.Rule = "token lists over {W Q A > if then elif else fi while until do done for in case esac { } ! ( ) ; & && || | ;; NL}: " +
		"corpus; all lists up to length 3 (quick) / 4, and all lists of length 5-6 over {W > if then else fi { } ( ) ; |} (thorough, sharded); programs derived from the core grammar (depth<=3) and 1-2 token " +
		"insertions/deletions/replacements/swaps of them; case clauses with an unterminated last item nested in ( ) / f() ( ) / { } / if / while / case; a closing token (;; ) } fi done esac …) placed after a complete statement; a whole redirection inserted in front of a command start (and all lists of up to 4 units with `> word` as one unit); each rendered with random spellings per class; both LangBash and LangPOSIX; " +
		"non-trivial = accepted by the Go parser, or a mutant of a derived program (the exhaustive short lists are counted as trivial)"
	g := c12Gen{c.R}
	var cases []c12Case
	seen := map[string]bool{}
	shellBudget := 100
	if c.Thorough() {
		shellBudget = 300 // per shard
	}
	add := func(kind string, posix bool, ts []string, known, wantShell bool) {
		if len(ts) == 0 || len(ts) > 60 {
			return
		}
		k := c12LangName(posix) + " " + strings.Join(ts, " ")
		if seen[k] && !known {
			return
		}
		seen[k] = true
		cases = append(cases, c12Case{posix: posix, ts: ts, src: c12Src(ts, c.R), known: known, shell: wantShell || known, kind: kind})
	}
	// 1. corpus: `<b|p> toks…`; lines of C12-known.txt are the canonical witnesses of known findings.
	knownSet := map[string]bool{}
	if c.Corpus != "" {
		if b, err := os.ReadFile(filepath.Join(c.Corpus, "C12-known.txt")); err == nil {
			for _, l := range strings.Split(string(b), "\n") {
				l = strings.TrimSpace(l)
				if l != "" && !strings.HasPrefix(l, "#") {
					knownSet[l] = true
				}
			}
		}
	}
	for _, l := range c.CorpusLines() {
		f := strings.Fields(l)
		if len(f) < 2 || (f[0] != "b" && f[0] != "p") {
			continue
		}
		ok := true
		for _, t := range f[1:] {
			if _, in := c12Variants[t]; !in {
				ok = false
			}
		}
		if ok {
			add("corpus", f[0] == "p", f[1:], knownSet[l], true)
		}
	}
	// 2. exhaustive short lists (tie only): every list over the full alphabet up to length 3
	// (thorough: 4), and in the thorough tier every list up to length 6 over a reduced alphabet.
	idx := 0
	var cur []string
	var exh func(alpha []string, minLen, maxLen int)
	exh = func(alpha []string, minLen, maxLen int) {
		if len(cur) >= minLen && len(cur) > 0 {
			idx++
			if idx%c.Shards == c.Shard {
				ts := append([]string(nil), cur...)
				src := c12Src(ts, c.R)
				for _, posix := range []bool{false, true} {
					lang := syntax.LangBash
					if posix {
						lang = syntax.LangPOSIX
					}
					gres := c12Go(lang, src)
					c.Op("acc "+c12LangName(posix)+" "+strings.Join(ts, " "), gres)
					c.Case("x", false, "exhaustive")
					if gres != c12Model(c12GoCfg(posix), ts) && len(cases) < 400 {
						add("exhaustive", posix, ts, false, true)
					}
					if gres == "acc" {
						c.Hist["exhaustive-accepted"]++
					}
				}
			}
		}
		if len(cur) == maxLen {
			return
		}
		for _, t := range alpha {
			cur = append(cur, t)
			exh(alpha, minLen, maxLen)
			cur = cur[:len(cur)-1]
		}
	}
	// … and every list of up to 4 units in which a whole redirection `> word` counts as one unit
	// (at least one redirection; up to 8 tokens), so that a redirection is tried in front of and
	// behind every kind of command start, separator and closing word.
	{
		units := append(append([]string(nil), c12Full...), "R")
		maxU := 4
		var cu []string
		var rec func(hasR bool)
		rec = func(hasR bool) {
			if len(cu) > 0 && hasR {
				idx++
				if idx%c.Shards == c.Shard {
					var ts []string
					for _, u := range cu {
						if u == "R" {
							ts = append(ts, ">", "W")
						} else {
							ts = append(ts, u)
						}
					}
					src := c12Src(ts, c.R)
					for _, posix := range []bool{false, true} {
						lang := syntax.LangBash
						if posix {
							lang = syntax.LangPOSIX
						}
						gres := c12Go(lang, src)
						c.Op("acc "+c12LangName(posix)+" "+strings.Join(ts, " "), gres)
						c.Case("x", false, "exhaustive-redir-unit")
						if gres != c12Model(c12GoCfg(posix), ts) && len(cases) < 400 {
							add("exhaustive", posix, ts, false, true)
						}
					}
				}
			}
			if len(cu) == maxU {
				return
			}
			for _, u := range units {
				cu = append(cu, u)
				rec(hasR || u == "R")
				cu = cu[:len(cu)-1]
			}
		}
		rec(false)
	}
	if c.Thorough() {
		exh(c12Full, 1, 4)
		exh([]string{"W", ">", "if", "then", "else", "fi", "{", "}", "(", ")", ";", "|"}, 5, 6)
	} else {
		exh(c12Full, 1, 3)
	}
	// 3. grammar-derived programs and their mutations.
	for i := 0; i < c.N; i++ {
		var ts []string
		if c.R.Chance(12) {
			ts = g.nestedCase(c.R.Intn(2))
		} else {
			ts = g.program(c.R.Intn(4))
		}
		posix := c.R.Bool()
		if c.R.Chance(20) {
			add("stray", c.R.Bool(), c12Stray(c.R, ts), false, c.R.Chance(40))
		}
		if c.R.Chance(30) {
			add("redir", c.R.Bool(), c12InsertRedir(c.R, ts), false, c.R.Chance(40))
		}
		add("program", posix, ts, false, c.R.Chance(30))
		if c.R.Chance(30) {
			add("program", !posix, ts, false, false)
		}
		for j := 0; j < 2; j++ {
			m := c12Mutate(c.R, ts)
			if c.R.Chance(25) {
				m = c12Mutate(c.R, m)
			}
			add("mutant", c.R.Bool(), m, false, c.R.Chance(30))
		}
	}
	// shells: corpus first; every case on which the real parser and the transliteration of the
	// parser as modelled disagree (the tie is about to break: the shell then decides whether the
	// code or the model is wrong, and a concrete failing input is reported); then as many sampled
	// cases as the budget allows.
	goRes := make([]string, len(cases))
	var jobs []int
	sampled := 0
	for i, cs := range cases {
		lang := syntax.LangBash
		if cs.posix {
			lang = syntax.LangPOSIX
		}
		goRes[i] = c12Go(lang, cs.src)
		switch {
		case cs.known || cs.kind == "corpus":
			jobs = append(jobs, i)
		case goRes[i] != c12Model(c12GoCfg(cs.posix), cs.ts) && len(jobs) < 4*shellBudget:
			jobs = append(jobs, i)
			c.Hist["shell-because-tie-differs"]++
		case cs.shell && sampled < shellBudget:
			jobs = append(jobs, i)
			sampled++
		}
	}
	dir := scratchDir(c)
	shellRes := map[int]string{}
	res := parallelMap(len(jobs), 4, func(j int) string {
		cs := cases[jobs[j]]
		sh := "bash"
		if cs.posix {
			sh = "dash"
		}
		return c12Shell(c, sh, dir, j, cs.src)
	})
	for j, r := range res {
		shellRes[jobs[j]] = r
	}
	os.RemoveAll(dir)
	c.Extra["shell_runs"] = len(jobs)
	for i, cs := range cases {
		lang := syntax.LangBash
		if cs.posix {
			lang = syntax.LangPOSIX
		}
		ln := c12LangName(cs.posix)
		toks := strings.Join(cs.ts, " ")
		gres := goRes[i]
		c.Op("acc "+ln+" "+toks, gres)
		// the transliteration against the Lean parser, for a random rule-variant vector
		cfg := c12Cfg{posix: c.R.Bool(), elseInCmd: c.R.Bool(), rsrvAfterIO: c.R.Bool(), bangAlone: c.R.Bool(),
			forAssign: c.R.Bool(), fnBody: c.R.Intn(3), forBrace: c.R.Bool(), closerAfterRedir: c.R.Bool()}
		c.Op("cfg "+c12CfgBits(cfg)+" "+toks, c12Model(cfg, cs.ts))
		mGo, mSh := c12Model(c12GoCfg(cs.posix), cs.ts), c12Model(c12ShCfg(cs.posix), cs.ts)
		tags := []string{"kind=" + cs.kind, "lang=" + ln, fmt.Sprintf("len=%d", (len(cs.ts)+4)/5*5), "go=" + gres}
		if mGo != mSh {
			tags = append(tags, "in-known-variant-region")
		}
		sres, ran := shellRes[i]
		for try := 0; ran && cs.kind == "corpus" && sres == "timeout" && try < 3; try++ {
			// corpus lines (known findings among them) are worth waiting for
			rdir := scratchDir(c)
			sres = c12Shell(c, map[bool]string{false: "bash", true: "dash"}[cs.posix], rdir, 0, cs.src)
			os.RemoveAll(rdir)
			c.Hist["shell-rerun"]++
		}
		if ran && (sres == "acc" || sres == "rej") && sres != mSh && !c12OracleQuirk(cs.posix, cs.ts) {
			// a disagreement with the grammar is re-run alone before it is believed (loaded machines
			// kill or starve child processes now and then)
			rdir := scratchDir(c)
			sres = c12Shell(c, map[bool]string{false: "bash", true: "dash"}[cs.posix], rdir, 0, cs.src)
			os.RemoveAll(rdir)
			c.Hist["shell-rerun"]++
		}
		if ran {
			switch {
			case sres == "timeout" || sres == "io-error":
				tags = append(tags, "shell-"+sres)
			case c12OracleQuirk(cs.posix, cs.ts):
				tags = append(tags, "shell-oracle-quirk")
			default:
				tags = append(tags, "shell="+sres)
				c.Op("specsh "+ln+" "+toks, sres)
				if gres != sres {
					witness := ln + " " + toks
					what := fmt.Sprintf("syntax.Parser(%v) %s, %s -n %s: %q", lang, c12Word(gres), map[bool]string{false: "bash", true: "dash"}[cs.posix], c12Word(sres), cs.src)
					switch {
					case cs.known:
						c.Fail(witness, what)
					case mGo == gres && mSh == sres:
						tags = append(tags, "explained-by-known-variant")
					default:
						c.Fail(witness, what)
					}
				} else if cs.known {
					// a known finding no longer reproduces: say so (it must be closed in known-findings.jsonl)
					c.Hist["known-finding-not-reproduced"]++
				}
			}
		}
		c.Case(ln+" "+toks, gres == "acc" || cs.kind == "mutant" || cs.kind == "stray" || cs.kind == "redir", tags...)
	}
}

func c12Word(r string) string {
	switch r {
	case "acc":
		return "accepts"
	case "rej":
		return "rejects"
	}
	return r
}
