//go:build c28 || all

package main

// C28 — The interpreter never panics.
//
// Tie streams (model ops, in-process, real code under recover): atoi, shift, loop (break/continue),
// exit/return, fp (flagParser via hook), params (interp.Params), wait, gnext (getopts.next via hook),
// gseq (getopts builtin sequences through Runner.Run), dirs (pushd/popd/dirs through Runner.Run),
// slicestr / sliceelems (expand.Literal / expand.Fields on a custom Environ), lvalue (parser +
// expand.Arithm + Runner), assoc.
//
// Search leg (the property's own statement, recover() around Runner.Run), in worker subprocesses so
// that a panic in a goroutine of the interpreter (pipelines, `&`, process substitution) is observed
// instead of killing the harness: builtins × argument vectors, grammar-generated and mutated
// programs in all language variants, New/Params options.  See c28_search.go.

import (
	"bytes"
	"context"
	"fmt"
	"io"
	"os"
	"path/filepath"
	"runtime"
	"sort"
	"strconv"
	"strings"
	"time"
	"unicode/utf8"

	"mvdan.cc/sh/v3/expand"
	"mvdan.cc/sh/v3/interp"
	"mvdan.cc/sh/v3/syntax"
)

func init() {
	register("C28", c28)
	if os.Getenv("VERIF_C28_WORKER") == "1" {
		c28WorkerMain()
		os.Exit(0)
	}
}

// ---------------------------------------------------------------------------------------------
// helpers

func runesTok(s string) string {
	if s == "" {
		return "-"
	}
	var parts []string
	for _, r := range s {
		parts = append(parts, strconv.FormatInt(int64(r), 16))
	}
	return strings.Join(parts, ".")
}

func runesToks(ss []string) string {
	parts := make([]string, len(ss))
	for i, s := range ss {
		parts[i] = runesTok(s)
	}
	return strings.Join(parts, " ")
}

func optIntTok(p *int) string {
	if p == nil {
		return "_"
	}
	return strconv.Itoa(*p)
}

type c28Out struct {
	stdout, stderr string
	status         int
	panicked       string
	errText        string
	skip           bool // the run did not take place or ran out of time (machine load): no verdict
}

type limitedBuf struct {
	bytes.Buffer
}

func (l *limitedBuf) Write(p []byte) (int, error) {
	if l.Len() < 1<<16 {
		l.Buffer.Write(p)
	}
	return len(p), nil
}

func sq(s string) string { return "'" + strings.ReplaceAll(s, "'", `'\''`) + "'" }

// c28RunIn runs a (harness-written, trusted) script in-process in dir.
func c28RunIn(dir string, script string, params []string) c28Out {
	var res c28Out
	var out, errb limitedBuf
	res.panicked = safely(func() {
		f, err := syntax.NewParser().Parse(strings.NewReader(script), "")
		if err != nil {
			res.errText = "parse: " + err.Error()
			return
		}
		r, err := interp.New(
			interp.StdIO(nil, &out, &errb),
			interp.Dir(dir),
			interp.Env(expand.ListEnviron("PATH="+filepath.Join(dir, ".nopath"), "HOME="+dir, "TMPDIR="+dir, "LC_ALL=C.utf8")),
			interp.Params(append([]string{"--"}, params...)...),
		)
		if err != nil {
			res.errText = "new: " + err.Error()
			res.skip = true
			return
		}
		ctx, cancel := context.WithTimeout(context.Background(), 60*time.Second)
		defer cancel()
		err = r.Run(ctx, f)
		res.stdout, res.stderr = out.String(), errb.String()
		if ctx.Err() != nil {
			res.skip = true
		}
		if err != nil {
			var es interp.ExitStatus
			if asExit(err, &es) {
				res.status = int(es)
			} else {
				res.errText = err.Error()
				res.status = 1
			}
		}
	})
	if res.panicked != "" {
		res.stdout, res.stderr = out.String(), errb.String()
	}
	return res
}

// ---------------------------------------------------------------------------------------------
// value pools

var c28Numbers = []string{
	"0", "1", "2", "3", "7", "-0", "+1", "-1", "-2", "-7", "255", "256", "-256", "2147483647", "2147483648",
	"-2147483648", "9223372036854775807", "9223372036854775808", "-9223372036854775808", "-9223372036854775809",
	"99999999999999999999", "-99999999999999999999", "00", "08", "0x10", "1_0", " 1", "1 ", "+", "-", "", "1a", "a",
	"--1", "+-1", "１",
}

func c28Number(r *Rand, allowNeg bool) string {
	_ = allowNeg // no exclusion any more: negative counts are an error since fix 2d6a9e4
	return r.Pick(c28Numbers)
}

// ---------------------------------------------------------------------------------------------
// tie: atoi, shift, loop, exit

func c28TieAtoi(c *Ctx, s string) {
	got := "none"
	if n, err := strconv.Atoi(s); err == nil {
		got = strconv.Itoa(n)
	}
	c.Op("atoi "+hx(s), got)
}

func c28TieShift(c *Ctx, dir string, nparams int, args []string) {
	params := make([]string, nparams)
	for i := range params {
		params[i] = "p"
	}
	var qa []string
	for _, a := range args {
		qa = append(qa, sq(a))
	}
	res := c28RunIn(dir, "shift "+strings.Join(qa, " ")+"; echo $?:$#", params)
	if res.skip {
		c.Hist["tie-skipped"]++
		return
	}
	got := ""
	switch {
	case res.panicked != "":
		got = "panic"
	case strings.HasPrefix(res.stdout, "2:"):
		got = "usage"
	case strings.HasPrefix(res.stdout, "1:") && strings.Contains(res.stderr, "shift count out of range"):
		got = "range"
	case strings.HasPrefix(res.stdout, "0:"):
		got = "ok " + strings.TrimSpace(res.stdout[2:])
	default:
		got = "unexpected " + hx(res.stdout+res.errText)
	}
	c.Op(strings.TrimSpace(fmt.Sprintf("shift %d %s", nparams, hxs(args))), got)
}

func c28TieLoop(c *Ctx, dir string, isBreak bool, args []string) {
	cmd, k := "continue", "c"
	if isBreak {
		cmd, k = "break", "b"
	}
	var qa []string
	for _, a := range args {
		qa = append(qa, sq(a))
	}
	script := "for i in 1 2; do for j in 1 2; do echo $i$j; " + cmd + " " + strings.Join(qa, " ") +
		"; echo 100; done; echo 200; done; echo 300"
	res := c28RunIn(dir, script, nil)
	if res.skip {
		c.Hist["tie-skipped"]++
		return
	}
	got := strings.Join(strings.Fields(res.stdout), ",")
	if res.panicked != "" {
		got = "panic"
	}
	c.Op(strings.TrimSpace("loop "+k+" "+hxs(args)), got)
}

func c28TieExit(c *Ctx, dir string, useReturn bool, args []string) {
	var qa []string
	for _, a := range args {
		qa = append(qa, sq(a))
	}
	script := "exit " + strings.Join(qa, " ")
	if useReturn {
		script = "f() { return " + strings.Join(qa, " ") + "; echo no; }; f; exit $?"
	}
	res := c28RunIn(dir, "(exit 77); "+script, nil)
	if res.skip {
		c.Hist["tie-skipped"]++
		return
	}
	got := ""
	switch {
	case res.panicked != "":
		got = "panic"
	case len(args) == 0:
		// exit: r.lastExit (77); return: code 0
		if (!useReturn && res.status == 77) || (useReturn && res.status == 0) {
			got = "last"
		} else {
			got = fmt.Sprintf("unexpected-last %d", res.status)
		}
	case strings.Contains(res.stderr, "invalid exit status code") || strings.Contains(res.stderr, "invalid return status code"):
		got = "invalid"
	case strings.Contains(res.stderr, "multiple arguments") || strings.Contains(res.stderr, "too many arguments"):
		got = "toomany"
	default:
		got = fmt.Sprintf("code %d", res.status)
	}
	c.Op(strings.TrimSpace("exit "+hxs(args)), got)
}

// ---------------------------------------------------------------------------------------------
// tie: flagParser, Params, wait

func c28TieFP(c *Ctx, script string, args []string) {
	var a []string
	if len(args) > 0 {
		a = args
	}
	trace, p := interp.VerifC28FlagParser(a, script)
	for i, t := range trace {
		// the hook prints %x of the string: empty → "", model prints "-"
		switch t[0] {
		case 'f', 'v':
			if len(t) == 1 {
				trace[i] = t + "-"
			}
		case 'a', 'n':
			parts := strings.Split(t, ":")
			for j := 1; j < len(parts); j++ {
				if parts[j] == "" {
					parts[j] = "-"
				}
			}
			trace[i] = strings.Join(parts, ":")
		}
	}
	if p != "" {
		trace = append(trace, "PANIC")
	}
	c.Op(strings.TrimSpace("fp "+script+" "+hxs(args)), strings.Join(trace, " "))
}

var c28PosixNames = []string{"allexport", "errexit", "noexec", "noglob", "nounset", "xtrace", "pipefail"}

// c28TieParams applies interp.Params(args...) to a Runner whose seven POSIX options are preset to
// bits0.  stdoutSet=true: on a Runner made by New(StdIO(...)); stdoutSet=false: as an option of New
// itself with no StdIO option before it (r.stdout is still nil while the option runs).
func c28TieParams(c *Ctx, stdoutSet bool, bits0 string, args []string) {
	got := ""
	p := safely(func() {
		var out bytes.Buffer
		var pre []interp.RunnerOption
		for i, b := range bits0 {
			flag := "+o"
			if b == '1' {
				flag = "-o"
			}
			pre = append(pre, interp.Params(flag, c28PosixNames[i]))
		}
		pre = append(pre, interp.Params("--", "KEEP"))
		var r *interp.Runner
		var err error
		if stdoutSet {
			r, err = interp.New(append([]interp.RunnerOption{interp.StdIO(nil, &out, io.Discard)}, pre...)...)
			if err != nil {
				got = "new-error"
				return
			}
			err = interp.Params(args...)(r)
		} else {
			r, err = interp.New(append(pre, interp.Params(args...))...)
		}
		if err != nil {
			msg := err.Error()
			const pfx = "invalid option: "
			if !strings.HasPrefix(msg, pfx) {
				got = "unexpected-error " + hx(msg)
				return
			}
			uq, uerr := strconv.Unquote(msg[len(pfx):])
			if uerr != nil {
				got = "unexpected-error " + hx(msg)
				return
			}
			got = "err " + hx(uq)
			return
		}
		listings := 0
		for _, l := range strings.Split(out.String(), "\n") {
			if strings.HasPrefix(l, "allexport\t") || strings.HasPrefix(l, "set -o allexport") || strings.HasPrefix(l, "set +o allexport") {
				listings++
			}
		}
		ps := "set"
		if len(r.Params) == 1 && r.Params[0] == "KEEP" {
			ps = "keep"
		} else {
			for _, p := range r.Params {
				ps += ":" + hx(p)
			}
		}
		// read the options back
		var dump bytes.Buffer
		interp.StdIO(nil, &dump, io.Discard)(r)
		interp.Params("+o")(r)
		text := dump.String()
		bits := ""
		for _, n := range c28PosixNames {
			switch {
			case strings.Contains(text, "set -o "+n+"\n"):
				bits += "1"
			case strings.Contains(text, "set +o "+n+"\n"):
				bits += "0"
			default:
				bits += "?"
			}
		}
		if stdoutSet {
			got = fmt.Sprintf("ok %s %s %d", bits, ps, listings)
		} else {
			got = fmt.Sprintf("ok %s %s -", bits, ps) // the listings went to New's io.Discard
		}
	})
	if p != "" {
		got = "panic"
	}
	so := "0"
	if stdoutSet {
		so = "1"
	}
	c.Op(strings.TrimSpace("params "+so+" "+bits0+" "+hxs(args)), got)
}

func c28TieWait(c *Ctx, dir string, nprocs int, args []string) {
	var qa []string
	for _, a := range args {
		qa = append(qa, sq(a))
	}
	script := strings.Repeat("true & ", nprocs) + "wait " + strings.Join(qa, " ")
	res := c28RunIn(dir, script, nil)
	if res.skip {
		c.Hist["tie-skipped"]++
		return
	}
	got := ""
	switch {
	case res.panicked != "":
		got = "panic"
	case res.status == 2 && strings.Contains(res.stderr, "option"):
		got = "badflag"
	case res.status == 1 && strings.Contains(res.stderr, "is not a child of this shell"):
		// which argument?  the message carries the text after the "g" prefix
		i := strings.Index(res.stderr, "wait: pid ")
		j := strings.LastIndex(res.stderr, " is not a child of this shell")
		got = "notchild " + hx(res.stderr[i+len("wait: pid "):j])
	case res.status == 0 && len(args) == 0:
		got = "all"
	case res.status == 0:
		got = "waited"
	default:
		got = fmt.Sprintf("unexpected %d %s", res.status, hx(res.stderr))
	}
	c.Op(strings.TrimSpace(fmt.Sprintf("wait %d %s", nprocs, hxs(args))), got)
}

// ---------------------------------------------------------------------------------------------
// tie: getopts

func c28TieGnext(c *Ctx, ai, ri int, optstr string, args []string) (panicked bool) {
	g := interp.VerifC28Getopts{ArgIdx: ai, RuneIdx: ri}
	opt, optarg, done, p := g.Next(optstr, args)
	got := ""
	if p != "" {
		got = "panic"
	} else {
		d := "0"
		if done {
			d = "1"
		}
		got = fmt.Sprintf("%x %s %s %d %d", opt, runesTok(optarg), d, g.ArgIdx, g.RuneIdx)
	}
	c.Op(strings.TrimSpace(fmt.Sprintf("gnext %d %d %s %s", ai, ri, runesTok(optstr), runesToks(args))), got)
	return p != ""
}

type c28GCall struct {
	optind *int
	optstr string
	args   []string
}

func c28TieGseq(c *Ctx, dir string, calls []c28GCall) (panicked bool) {
	var sb strings.Builder
	var toks []string
	for i, cl := range calls {
		if i > 0 {
			toks = append(toks, "/")
		}
		if cl.optind != nil {
			fmt.Fprintf(&sb, "OPTIND=%d; ", *cl.optind)
		}
		sb.WriteString("getopts " + sq(cl.optstr) + " x")
		for _, a := range cl.args {
			sb.WriteString(" " + sq(a))
		}
		sb.WriteString("; echo \"$?|$x|${OPTARG+S}${OPTARG}|$OPTIND\"\n")
		toks = append(toks, optIntTok(cl.optind), runesTok(cl.optstr))
		for _, a := range cl.args {
			toks = append(toks, runesTok(a))
		}
	}
	res := c28RunIn(dir, sb.String(), nil)
	if res.skip {
		c.Hist["tie-skipped"]++
		return false
	}
	var recs []string
	for _, l := range strings.Split(strings.TrimSuffix(res.stdout, "\n"), "\n") {
		if l == "" {
			continue
		}
		f := strings.Split(l, "|")
		if len(f) != 4 {
			recs = append(recs, "unexpected:"+hx(l))
			continue
		}
		x := "0"
		if r, _ := utf8.DecodeRuneInString(f[1]); f[1] != "" {
			x = strconv.FormatInt(int64(r), 16)
		}
		oa := "U"
		if strings.HasPrefix(f[2], "S") {
			oa = "S" + runesTok(f[2][1:])
		}
		recs = append(recs, f[0]+"|"+x+"|"+oa+"|"+f[3])
	}
	if res.panicked != "" {
		recs = append(recs, "panic")
	}
	c.Op("gseq "+strings.Join(toks, " "), strings.Join(recs, " "))
	return res.panicked != ""
}

// ---------------------------------------------------------------------------------------------
// tie: pushd / popd / dirs

type c28DOp struct {
	kind string // pu pun po pon cd ds
	args []string
}

func c28TieDirs(c *Ctx, root string, ops []c28DOp) {
	os.MkdirAll(filepath.Join(root, "A"), 0o755)
	os.MkdirAll(filepath.Join(root, "B"), 0o755)
	abs := func(s string) string { // "/R/A" -> real path
		if strings.HasPrefix(s, "/R") {
			return root + s[2:]
		}
		return s
	}
	var sb strings.Builder
	var toks []string
	for _, op := range ops {
		tok := op.kind
		var qa []string
		for _, a := range op.args {
			qa = append(qa, sq(abs(a)))
			tok += ":" + hx(a)
		}
		toks = append(toks, tok)
		switch op.kind {
		case "pu":
			sb.WriteString("pushd " + strings.Join(qa, " "))
		case "pun":
			sb.WriteString("pushd -n " + strings.Join(qa, " "))
		case "po":
			sb.WriteString("popd " + strings.Join(qa, " "))
		case "pon":
			sb.WriteString("popd -n " + strings.Join(qa, " "))
		case "cd":
			sb.WriteString("cd " + strings.Join(qa, " "))
		case "ds":
			sb.WriteString("dirs")
		}
		sb.WriteString("; echo \"\x1e$?\"\n")
	}
	res := c28RunIn(root, sb.String(), nil)
	if res.skip {
		c.Hist["tie-skipped"]++
		return
	}
	// records: output up to the \x1e marker, then the status line
	var recs []string
	rest := strings.ReplaceAll(res.stdout, root, "/R")
	for rest != "" {
		i := strings.Index(rest, "\x1e")
		if i < 0 {
			break
		}
		j := strings.Index(rest[i:], "\n")
		if j < 0 {
			break
		}
		recs = append(recs, rest[i+1:i+j]+":"+hx(rest[:i]))
		rest = rest[i+j+1:]
	}
	if res.panicked != "" {
		recs = append(recs, "panic")
	}
	c.Op("dirs "+hx("/R")+" "+hxs([]string{"/R", "/R/A", "/R/B"})+" / "+strings.Join(toks, " "), strings.Join(recs, " "))
}

// ---------------------------------------------------------------------------------------------
// tie: slicing

type c28Env struct {
	vars map[string]expand.Variable
}

func (e c28Env) Get(name string) expand.Variable { return e.vars[name] }
func (e c28Env) Each(f func(string, expand.Variable) bool) {
	names := make([]string, 0, len(e.vars))
	for n := range e.vars {
		names = append(names, n)
	}
	sort.Strings(names)
	for _, n := range names {
		if !f(n, e.vars[n]) {
			return
		}
	}
}

func c28ParseWord(src string) *syntax.Word {
	p := syntax.NewParser()
	var w *syntax.Word
	for ww, err := range p.WordsSeq(strings.NewReader(src)) {
		if err != nil {
			return nil
		}
		if w == nil {
			w = ww
		}
	}
	return w
}

func c28SliceSuffix(off, ln *int) string {
	s := ""
	if off != nil {
		s += ":" + fmt.Sprintf("(%d)", *off)
		if ln != nil {
			s += ":" + fmt.Sprintf("(%d)", *ln)
		}
	} else if ln != nil {
		s += "::" + fmt.Sprintf("(%d)", *ln)
	}
	return s
}

func c28TieSliceStr(c *Ctx, val string, off, ln *int) {
	w := c28ParseWord("\"${s" + c28SliceSuffix(off, ln) + "}\"")
	got := ""
	if w == nil {
		got = "parse-error"
	} else {
		p := safely(func() {
			cfg := &expand.Config{Env: c28Env{map[string]expand.Variable{"s": {Set: true, Kind: expand.String, Str: val}}}}
			s, err := expand.Literal(cfg, w)
			if err != nil {
				if strings.HasSuffix(err.Error(), ": substring expression < 0") {
					got = "error"
				} else {
					got = "unexpected-error " + hx(err.Error())
				}
				return
			}
			got = runesTok(s)
		})
		if p != "" {
			got = "panic"
		}
	}
	offT, lnT := optIntTok(off), optIntTok(ln)
	if off == nil && ln != nil {
		// `${s::l}` has an (empty) offset expression that evaluates to 0
		offT = "0"
	}
	c.Op(fmt.Sprintf("slicestr %s %s %s", runesTok(val), offT, lnT), got)
}

// c28TieSliceElems: n elements e0..e(n-1); indexes nil (dense) or ascending sparse indexes;
// positional uses "$@" (with $0 prepended by sliceElems), so element 0 is $0.
func c28TieSliceElems(c *Ctx, n int, indexes []int, off, ln *int, positional bool) {
	list := make([]string, n)
	for i := range list {
		list[i] = "e" + strconv.Itoa(i)
	}
	src := "\"${a[@]" + c28SliceSuffix(off, ln) + "}\""
	vars := map[string]expand.Variable{"a": {Set: true, Kind: expand.Indexed, List: list, Indexes: indexes}}
	if positional && (n == 0 || (off == nil && ln == nil)) {
		return // without a slice, sliceElems does not prepend $0
	}
	if positional {
		src = "\"${@" + c28SliceSuffix(off, ln) + "}\""
		vars = map[string]expand.Variable{
			"@": {Set: true, Kind: expand.Indexed, List: list[1:]},
			"0": {Set: true, Kind: expand.String, Str: "e0"},
		}
		if n == 0 {
			return
		}
	}
	w := c28ParseWord(src)
	got := ""
	if w == nil {
		got = "parse-error"
	} else {
		p := safely(func() {
			cfg := &expand.Config{Env: c28Env{vars}}
			fs, err := expand.Fields(cfg, w)
			if err != nil {
				got = "error " + hx(err.Error())
				return
			}
			var ords []string
			for _, f := range fs {
				ords = append(ords, strings.TrimPrefix(f, "e"))
			}
			got = strings.Join(ords, ",")
			if got == "" {
				got = "-"
			}
		})
		if p != "" {
			got = "panic"
		}
	}
	idxT := "_"
	if len(indexes) > 0 {
		var ss []string
		for _, i := range indexes {
			ss = append(ss, strconv.Itoa(i))
		}
		idxT = strings.Join(ss, ",")
	}
	offT, lnT := optIntTok(off), optIntTok(ln)
	if off == nil && ln != nil {
		offT = "0"
	}
	c.Op(fmt.Sprintf("sliceelems %d %s %s %s", n, idxT, offT, lnT), got)
}

// ---------------------------------------------------------------------------------------------
// tie: arithmetic l-values and associative subscripts

type c28RecEnv struct {
	names *[]string // names read (also IFS and the like)
	sets  *[]string // names written: the l-value
}

func (e c28RecEnv) Get(name string) expand.Variable {
	*e.names = append(*e.names, name)
	return expand.Variable{}
}
func (e c28RecEnv) Each(func(string, expand.Variable) bool) {}
func (e c28RecEnv) Set(name string, vr expand.Variable) error {
	if e.sets != nil {
		*e.sets = append(*e.sets, name)
	}
	return nil
}

// c28TieLvalue parses `(( <lhs>++ ))`, converts the operand word to the model's part list, and
// compares (a) isArithName, (b) the name the real expand.Arithm asks the environment for, and
// the Runner's panic on an empty name.
func c28TieLvalue(c *Ctx, dir string, lhs string) {
	src := "(( " + lhs + "++ ))"
	f, err := syntax.NewParser().Parse(strings.NewReader(src), "")
	var x syntax.ArithmExpr
	if err == nil && len(f.Stmts) == 1 {
		if ac, ok := f.Stmts[0].Cmd.(*syntax.ArithmCmd); ok {
			if u, ok := ac.X.(*syntax.UnaryArithm); ok && u.Post {
				x = u.X
			}
		}
	}
	// the model's view of the operand
	var toks []string
	w, isWord := x.(*syntax.Word)
	if x != nil && !isWord {
		return // not a shape the model covers
	}
	if isWord {
		for _, p := range w.Parts {
			switch p := p.(type) {
			case *syntax.Lit:
				toks = append(toks, "l"+hx(p.Value))
			case *syntax.ParamExp:
				if p.Short && p.Index != nil && p.Param != nil {
					toks = append(toks, "n"+hx(p.Param.Value))
				} else {
					toks = append(toks, "o")
				}
			default:
				toks = append(toks, "o")
			}
		}
	} else {
		// the parser rejected it: compare only isArithName = false on a best-effort part list
		return
	}
	got := "1 "
	var names, sets []string
	var aerr error
	p := safely(func() {
		cfg := &expand.Config{Env: c28RecEnv{&names, &sets}}
		_, aerr = expand.Arithm(cfg, f.Stmts[0].Cmd.(*syntax.ArithmCmd).X)
	})
	res := c28RunIn(dir, src, nil)
	if res.skip {
		c.Hist["tie-skipped"]++
		return
	}
	switch {
	case res.panicked != "" || p != "":
		got += "panic"
	case aerr != nil && strings.Contains(aerr.Error(), "unsupported assignment target") && len(sets) == 0:
		got += "error"
	case aerr != nil:
		got += "unexpected-error " + hx(aerr.Error())
	case len(sets) == 0:
		got += "no-assignment"
	default:
		// the variable written is the l-value; it must also have been read under the same name
		got += hx(sets[0])
		read := false
		for _, n := range names {
			read = read || n == sets[0]
		}
		if !read {
			got += " not-read"
		}
	}
	c.Op("lvalue "+strings.Join(toks, " "), got)
}

func c28TieAssoc(c *Ctx, dir string, idxSrc string) {
	src := "declare -A m; echo \"${m[" + idxSrc + "]}\""
	f, err := syntax.NewParser().Parse(strings.NewReader(src), "")
	if err != nil {
		return
	}
	kind := ""
	syntax.Walk(f, func(n syntax.Node) bool {
		if pe, ok := n.(*syntax.ParamExp); ok && pe.Index != nil && kind == "" {
			switch pe.Index.(type) {
			case *syntax.Word:
				kind = "w"
			case *syntax.BinaryArithm:
				kind = "b"
			case *syntax.UnaryArithm:
				kind = "u"
			case *syntax.ParenArithm:
				kind = "p"
			case *syntax.FlagsArithm:
				kind = "f"
			}
		}
		return true
	})
	if kind == "" {
		return
	}
	res := c28RunIn(dir, src, nil)
	if res.skip {
		c.Hist["tie-skipped"]++
		return
	}
	got := "ok"
	switch {
	case res.panicked != "":
		got = "panic"
	case strings.Contains(res.stderr, "unsupported associative array subscript"):
		got = "error"
	}
	c.Op("assoc "+kind, got)
}

// ---------------------------------------------------------------------------------------------
// tie: namerefs.  ents: name -> (kind u s n i a, target); the real expand.Variable.Resolve on a map
// environment gives name and kind; the same state is built in the interpreter (declare -n …) and
// `<start>+=(x y)` is run: a panic there is the `default:` branch of assignVal's Kind switch.

type c28NEnt struct {
	name, kind, target string
}

func c28TieResolve(c *Ctx, dir string, start string, ents []c28NEnt) {
	vars := map[string]expand.Variable{}
	var toks []string
	var sb strings.Builder
	for _, e := range ents {
		switch e.kind {
		case "n":
			vars[e.name] = expand.Variable{Set: true, Kind: expand.NameRef, Str: e.target}
		case "s":
			vars[e.name] = expand.Variable{Set: true, Kind: expand.String, Str: e.target}
			sb.WriteString(e.name + "=" + sq(e.target) + "\n")
		case "i":
			vars[e.name] = expand.Variable{Set: true, Kind: expand.Indexed, List: []string{"1"}}
			sb.WriteString(e.name + "=(1)\n")
		case "a":
			vars[e.name] = expand.Variable{Set: true, Kind: expand.Associative, Map: map[string]string{"k": "v"}}
			sb.WriteString("declare -A " + e.name + "=([k]=v)\n")
		}
		toks = append(toks, hx(e.name)+":"+e.kind+":"+hx(e.target))
	}
	// namerefs last and in one declare, so that no declaration is itself redirected through a
	// nameref that already exists
	var refs []string
	for _, e := range ents {
		if e.kind == "n" {
			refs = append(refs, e.name+"="+e.target)
		}
	}
	for i := 0; i < len(refs); i += 40 {
		j := i + 40
		if j > len(refs) {
			j = len(refs)
		}
		sb.WriteString("declare -n " + strings.Join(refs[i:j], " ") + "\n")
	}
	sb.WriteString(start + "+=(x y)\n")
	got := ""
	var kind expand.ValueKind
	p := safely(func() {
		name, v := vars[start].Resolve(c28Env{vars})
		kind = v.Kind
		ks := map[expand.ValueKind]string{expand.Unknown: "u", expand.String: "s", expand.NameRef: "n", expand.Indexed: "i", expand.Associative: "a", expand.KeepValue: "k"}[v.Kind]
		got = hx(name) + " " + ks
	})
	if p != "" {
		got = "resolve-panicked"
	}
	if kind == expand.NameRef {
		c.Fail("resolve "+hx(start)+" "+strings.Join(toks, " "),
			"expand.Variable.Resolve returned a variable whose Kind is still NameRef (the invariant that keeps the `default:` panics of the Kind switches in interp/vars.go unreachable)")
	}
	res := c28RunIn(dir, sb.String(), nil)
	if res.skip {
		c.Hist["tie-skipped"]++
		return
	}
	if res.panicked != "" {
		got += " panic"
	} else {
		got += " ok"
	}
	c.Op(strings.TrimSpace("resolve "+hx(start)+" "+strings.Join(toks, " ")), got)
}

func c28GenResolve(r *Rand) (string, []c28NEnt) {
	names := []string{"a", "b", "c", "d", "e"}
	var ents []c28NEnt
	if r.Chance(20) { // a long chain n0 -> n1 -> … -> nK (-> itself | a value | nothing)
		k := []int{98, 99, 100, 101, 150}[r.Intn(5)]
		for i := 0; i < k; i++ {
			ents = append(ents, c28NEnt{fmt.Sprintf("n%d", i), "n", fmt.Sprintf("n%d", i+1)})
		}
		switch r.Intn(3) {
		case 0:
			ents = append(ents, c28NEnt{fmt.Sprintf("n%d", k), "i", ""})
		case 1:
			ents = append(ents, c28NEnt{fmt.Sprintf("n%d", k), "n", "n0"})
		}
		return "n0", ents
	}
	for _, n := range names {
		switch r.Intn(8) {
		case 0, 1, 2, 3:
			ents = append(ents, c28NEnt{n, "n", r.Pick(append(names, "zz", ""))}) // cycles, self references, dangling, empty target
		case 4:
			ents = append(ents, c28NEnt{n, "s", "v"})
		case 5:
			ents = append(ents, c28NEnt{n, "i", ""})
		case 6:
			ents = append(ents, c28NEnt{n, "a", ""})
		}
	}
	return r.Pick(names), ents
}

// ---------------------------------------------------------------------------------------------
// generators for the tie streams

var c28ArgPool = []string{
	"", "-", "--", "-x", "+x", "-n", "-p", "-ab", "+ab", "-o", "+o", "-e", "-abc", "-é", "--help", "-a", "-t", "-d",
	"x", "a[1]", "\n", "g1", "g2", "g0", "g-1", "g", "gg1", "g 1", "errexit", "pipefail", "nosuch", "- ", "-u", "-f",
	"-eu", "-ox", "-xo", "+e", "+", "-oerrexit", "a b", "=", "1", "-1", "0",
}

func c28ArgVector(r *Rand, max int, pool []string) []string {
	n := r.Intn(max + 1)
	v := make([]string, n)
	for i := range v {
		if r.Chance(25) {
			v[i] = c28Number(r, true)
		} else {
			v[i] = r.Pick(pool)
		}
	}
	return v
}

var c28OptRunes = []string{"a", "b", "c", ":", "?", "-", "é", "x", "1", "世"}

func c28Optstr(r *Rand) string {
	if r.Chance(10) {
		return r.Pick([]string{"", ":", "::", "a", "a:", ":a:", "abc", "a:b:c:", "?:", "-:"})
	}
	return genFrom(r, []string{"a", "b", "c", ":", "a:", "b:", "é", "é:", "?", "x", "-"}, 5)
}

func c28GetoptsArg(r *Rand) string {
	switch k := r.Intn(12); {
	case k < 6:
		return "-" + genFrom(r, c28OptRunes, 4)
	case k == 6:
		return "--"
	case k == 7:
		return "-"
	case k == 8:
		return ""
	case k == 9:
		return "--" + genFrom(r, c28OptRunes, 2)
	default:
		return genFrom(r, []string{"v", "al", "-", "é", "1"}, 3)
	}
}

func c28GetoptsArgs(r *Rand) []string {
	n := r.Intn(5)
	v := make([]string, n)
	for i := range v {
		v[i] = c28GetoptsArg(r)
	}
	return v
}

func c28OptInt(r *Rand, pool []int) *int {
	if r.Chance(25) {
		return nil
	}
	v := pool[r.Intn(len(pool))]
	return &v
}

func c28TieCase(c *Ctx, dir string, i int) {
	r := c.R
	switch i % 15 {
	case 0:
		s := c28Number(r, true)
		if r.Chance(30) {
			s = genFrom(r, []string{"0", "1", "9", "-", "+", "_", "a", " ", "922337203685477580"}, 4)
		}
		c28TieAtoi(c, s)
		c.Case("atoi/"+s, s != "", "tie:atoi")
	case 1:
		np := r.Intn(5)
		args := c28ArgVector(r, 2, c28ArgPool)
		if r.Chance(60) {
			args = []string{c28Number(r, true)}
		}
		c28TieShift(c, dir, np, args)
		c.Case(fmt.Sprintf("shift/%d/%q", np, args), len(args) == 1, "tie:shift")
	case 2:
		args := c28ArgVector(r, 2, c28ArgPool)
		if r.Chance(70) {
			args = []string{c28Number(r, true)}
		}
		b := r.Bool()
		c28TieLoop(c, dir, b, args)
		c.Case(fmt.Sprintf("loop/%v/%q", b, args), len(args) == 1, "tie:loop")
	case 3:
		args := c28ArgVector(r, 2, c28ArgPool)
		if r.Chance(70) {
			args = []string{c28Number(r, true)}
		}
		b := r.Bool()
		c28TieExit(c, dir, b, args)
		c.Case(fmt.Sprintf("exit/%v/%q", b, args), len(args) == 1, "tie:exit")
	case 4:
		args := c28ArgVector(r, 4, c28ArgPool)
		// protocol-abiding scripts most of the time, arbitrary ones otherwise
		script := ""
		if r.Chance(75) {
			for k := 0; k < 8; k++ {
				script += "m"
				if r.Chance(80) {
					script += "f"
				}
				if r.Chance(20) {
					script += "v"
				}
				if r.Chance(20) {
					script += "a"
				}
			}
		} else {
			script = "m" + genFrom(r, []string{"m", "f", "v", "a"}, 10)
			if r.Bool() {
				script = "f" + script[1:]
			}
		}
		c28TieFP(c, script, args)
		c.Case(fmt.Sprintf("fp/%s/%q", script, args), len(args) > 0, "tie:fp")
	case 5:
		args := c28ArgVector(r, 5, c28ArgPool)
		bits := ""
		for k := 0; k < 7; k++ {
			if k == 2 {
				bits += "0" // noexec would stop the read-back
			} else if r.Bool() {
				bits += "1"
			} else {
				bits += "0"
			}
		}
		// `-n` (noexec) has no effect on Params itself; allowed.  stdoutSet=false: Params as an option of
		// New with no StdIO option before it.
		c28TieParams(c, !r.Chance(30), bits, args)
		c.Case(fmt.Sprintf("params/%s/%q", bits, args), len(args) > 0, "tie:params")
	case 6:
		np := r.Intn(4)
		args := c28ArgVector(r, 3, c28ArgPool)
		c28TieWait(c, dir, np, args)
		c.Case(fmt.Sprintf("wait/%d/%q", np, args), len(args) > 0, "tie:wait")
	case 7:
		optstr, args := c28Optstr(r), c28GetoptsArgs(r)
		ai, ri := r.Intn(len(args)+2), r.Intn(4)
		if r.Chance(50) {
			ri = 0
		}
		pk := c28TieGnext(c, ai, ri, optstr, args)
		tags := []string{"tie:gnext"}
		if pk {
			tags = append(tags, "gnext:panic-agreed")
		}
		c.Case(fmt.Sprintf("gnext/%d/%d/%s/%q", ai, ri, optstr, args), len(args) > 0, tags...)
	case 8:
		n := 1 + r.Intn(5)
		var calls []c28GCall
		base := c28GetoptsArgs(r)
		optstr := c28Optstr(r)
		for k := 0; k < n; k++ {
			cl := c28GCall{optstr: optstr, args: base}
			if r.Chance(30) {
				cl.args = c28GetoptsArgs(r) // changing argument vector
			}
			if r.Chance(15) {
				cl.optstr = c28Optstr(r)
			}
			if r.Chance(25) {
				v := []int{0, 1, 2, 3, 5, -1, 9223372036854775807}[r.Intn(7)]
				cl.optind = &v
			}
			calls = append(calls, cl)
		}
		pk := c28TieGseq(c, dir, calls)
		tags := []string{"tie:gseq", fmt.Sprintf("gseq-calls=%d", n)}
		if pk {
			tags = append(tags, "gseq:panic-agreed")
		}
		c.Case(fmt.Sprintf("gseq/%v", calls), n > 1, tags...)
	case 9:
		n := 1 + r.Intn(8)
		var ops []c28DOp
		dirsPool := []string{"/R/A", "/R/B", "/R", "nx", "", "/R/nx"}
		for k := 0; k < n; k++ {
			kind := r.Pick([]string{"pu", "pu", "pun", "pun", "po", "po", "pon", "cd", "ds"})
			var args []string
			switch kind {
			case "pu", "pun":
				switch r.Intn(6) {
				case 0:
				case 1:
					args = []string{r.Pick(dirsPool), r.Pick(dirsPool)}
				default:
					args = []string{r.Pick(dirsPool)}
				}
			case "po", "pon":
				if r.Chance(10) {
					args = []string{r.Pick(dirsPool)}
				}
			case "cd":
				args = []string{r.Pick(dirsPool)}
			}
			ops = append(ops, c28DOp{kind, args})
		}
		sub := filepath.Join(dir, fmt.Sprintf("ds%d", i))
		os.MkdirAll(sub, 0o755)
		c28TieDirs(c, sub, ops)
		os.RemoveAll(sub)
		c.Case(fmt.Sprintf("dirs/%v", ops), n > 2, "tie:dirs", fmt.Sprintf("dirs-ops=%d", n))
	case 10:
		val := genFrom(r, []string{"a", "b", "é", "世", " ", "x"}, 6)
		pool := []int{0, 1, 2, 3, 5, 7, -1, -2, -5, -7, 100, -100, 9223372036854775807, -9223372036854775808}
		off, ln := c28OptInt(r, pool), c28OptInt(r, pool)
		c28TieSliceStr(c, val, off, ln)
		c.Case(fmt.Sprintf("slicestr/%s/%s/%s", val, optIntTok(off), optIntTok(ln)), off != nil || ln != nil, "tie:slicestr")
	case 11:
		n := r.Intn(6)
		pool := []int{0, 1, 2, 3, 5, 7, 12, -1, -2, -5, -7, -13, 100, -100, 9223372036854775807, -9223372036854775808}
		off, ln := c28OptInt(r, pool), c28OptInt(r, pool)
		var indexes []int
		positional := false
		switch r.Intn(3) {
		case 0:
			if n > 0 {
				cur := r.Intn(3)
				for k := 0; k < n; k++ {
					indexes = append(indexes, cur)
					cur += 1 + r.Intn(4)
				}
			}
		case 1:
			positional = true
		}
		c28TieSliceElems(c, n, indexes, off, ln, positional)
		c.Case(fmt.Sprintf("sliceelems/%d/%v/%s/%s/%v", n, indexes, optIntTok(off), optIntTok(ln), positional), off != nil || ln != nil, "tie:sliceelems")
	case 12:
		lhs := r.Pick([]string{"a", "_x1", "ab", "a[1]", "a[i+1]", "b[0]", "x9", "Z", "arr[j]"})
		c28TieLvalue(c, dir, lhs)
		c.Case("lvalue/"+lhs, strings.Contains(lhs, "["), "tie:lvalue")
	case 14:
		start, ents := c28GenResolve(r)
		c28TieResolve(c, dir, start, ents)
		c.Case(fmt.Sprintf("resolve/%s/%v", start, ents), true, "tie:resolve")
	case 13:
		idx := r.Pick([]string{"k", "1", "$k", "1+2", "-1", "(1)", "k y", "a b", "i++", "@", "\"x y\""})
		c28TieAssoc(c, dir, idx)
		c.Case("assoc/"+idx, true, "tie:assoc")
	}
}

// ---------------------------------------------------------------------------------------------
// corpus replay (tie form); lines starting with "prog"/"opts" belong to the search leg

func c28ReplayTie(c *Ctx, dir string, line string) bool {
	f := strings.Fields(line)
	if len(f) == 0 {
		return false
	}
	un := func(ss []string) []string {
		out := make([]string, len(ss))
		for i, s := range ss {
			out[i] = unhx(s)
		}
		return out
	}
	switch f[0] {
	case "shift":
		if len(f) < 2 {
			return false
		}
		n, _ := strconv.Atoi(f[1])
		c28TieShift(c, dir, n, un(f[2:]))
	case "fp":
		if len(f) < 2 {
			return false
		}
		c28TieFP(c, f[1], un(f[2:]))
	case "params":
		if len(f) < 3 {
			return false
		}
		c28TieParams(c, f[1] == "1", f[2], un(f[3:]))
	case "atoi":
		if len(f) != 2 {
			return false
		}
		c28TieAtoi(c, unhx(f[1]))
	case "lvalue-src":
		if len(f) != 2 {
			return false
		}
		c28TieLvalue(c, dir, unhx(f[1]))
	case "assoc-src":
		if len(f) != 2 {
			return false
		}
		c28TieAssoc(c, dir, unhx(f[1]))
	case "gseq-src":
		// gseq-src <optind|_>,<optstr hex>,<arg hex>... / ...
		var calls []c28GCall
		for _, grp := range strings.Split(strings.Join(f[1:], " "), "/") {
			g := strings.Fields(grp)
			if len(g) < 2 {
				return false
			}
			cl := c28GCall{optstr: unhx(g[1]), args: un(g[2:])}
			if g[0] != "_" {
				v, _ := strconv.Atoi(g[0])
				cl.optind = &v
			}
			calls = append(calls, cl)
		}
		c28TieGseq(c, dir, calls)
	default:
		return false
	}
	c.Case("corpus/"+line, true, "corpus-tie")
	return true
}

// ---------------------------------------------------------------------------------------------

func c28(c *Ctx) {
	c.Rule = "tie streams: atoi/shift/loop/exit/flagParser/Params/wait/getopts.next/getopts sequences/pushd-popd sequences/" +
		"string and array slicing/arith l-values/assoc subscripts on boundary numbers {0,±1,±2^31,±2^63,huge,'',+,-,1a…} and odd flags; " +
		"search: builtins × ≤5 odd arguments (also in functions, loops, subshells, pipelines, repeated calls), array-writer/keyed-reader sequences on one variable + List/Indexes invariant probe after every program, grammar-generated and " +
		"mutated programs (seeds: runTests of interp/interp_test.go) in bash/posix/mksh/zsh/bats, New/Params option lists; " +
		"non-trivial = the program parsed and ran at least one statement (search) or had ≥1 argument (tie); distinct by exact input"
	if c.Shards > 1 {
		runtime.GOMAXPROCS(2) // 16 shards × (harness + 2 workers): do not oversubscribe the machine
	} else {
		runtime.GOMAXPROCS(4)
	}
	base := os.Getenv("VERIF_WORK")
	if base == "" {
		base = c.Out
	}
	base, _ = filepath.Abs(base)
	dir := filepath.Join(base, "c28tie")
	os.RemoveAll(dir)
	os.MkdirAll(dir, 0o755)
	defer os.RemoveAll(dir)

	var searchCorpus []string
	for _, l := range c.CorpusLines() {
		if !c28ReplayTie(c, dir, l) {
			searchCorpus = append(searchCorpus, l)
		}
	}
	// split of the budget: -n counts tie cases; the search leg scales with it
	nTie := c.N
	for i := 0; i < nTie; i++ {
		c28TieCase(c, dir, i)
	}
	c28Search(c, base, searchCorpus)
}
