//go:build c05 || all

package main

import (
	"fmt"
	"strings"

	"mvdan.cc/sh/v3/syntax"
)

// The comment skeleton shipped to the Lean model (grammar in lean/ShVerif/Driver/C05.lean).
// Statement-level structure and every comment field are dumped as they are; words, arithmetic
// and test expressions are flattened to the sequence of effects their printing has on p.line
// (mirroring wordParts/wordPart/dblQuoted/paramExp/arithmExpr/testExpr/wordJoin/assigns of
// syntax/printer.go) with the nested command/process substitutions and array literals kept.
// This flattening is part of the abstraction that the `emit` correspondence validates.

type c05Dumper struct {
	skip string // why the tree is outside the model's scope ("" = in scope)
	// features the tie cares about
	hasReplyVar bool
}

func (d *c05Dumper) setSkip(r string) {
	if d.skip == "" {
		d.skip = r
	}
}

func c05Pos(p syntax.Pos) string {
	if !p.IsValid() {
		return "-"
	}
	return fmt.Sprintf("%d:%d:%d", p.Offset(), p.Line(), p.Col())
}

func c05B(b bool) string {
	if b {
		return "1"
	}
	return "0"
}

func c05ComsS(cs []syntax.Comment) string {
	var sb strings.Builder
	sb.WriteString("( C")
	for i := range cs {
		c := &cs[i]
		fmt.Fprintf(&sb, " ( c %s %d %s )", c05Pos(c.Hash), c.End().Offset(), hx(c.Text))
	}
	sb.WriteString(" )")
	return sb.String()
}

func c05StartsWithLparen(n syntax.Node) bool {
	switch n := n.(type) {
	case *syntax.Stmt:
		if n.Cmd == nil {
			return false
		}
		return c05StartsWithLparen(n.Cmd)
	case *syntax.BinaryCmd:
		return c05StartsWithLparen(n.X)
	case *syntax.Subshell:
		return true
	case *syntax.ArithmCmd:
		return true
	}
	return false
}

// c05StmtsEnd is syntax.stmtsEnd.
func c05StmtsEnd(stmts []*syntax.Stmt, last []syntax.Comment) syntax.Pos {
	if len(last) > 0 {
		return last[len(last)-1].End()
	}
	if len(stmts) > 0 {
		s := stmts[len(stmts)-1]
		sEnd := s.End()
		if len(s.Comments) > 0 {
			if cEnd := s.Comments[len(s.Comments)-1].End(); cEnd.After(sEnd) {
				return cEnd
			}
		}
		return sEnd
	}
	return syntax.Pos{}
}

type c05Items struct {
	parts []string
	flat  bool // only line items so far
}

func (it *c05Items) line(kind string, l uint) {
	it.parts = append(it.parts, fmt.Sprintf("( %s %d )", kind, l))
}
func (it *c05Items) other(s string) {
	it.parts = append(it.parts, s)
	it.flat = false
}
func (it *c05Items) String(tag string) string {
	if len(it.parts) == 0 {
		return "( " + tag + " )"
	}
	return "( " + tag + " " + strings.Join(it.parts, " ") + " )"
}

func newItems() *c05Items { return &c05Items{flat: true} }

func (d *c05Dumper) word(w *syntax.Word, it *c05Items) {
	if w == nil {
		return
	}
	d.wordParts(w.Parts, false, it)
}

func (d *c05Dumper) wordParts(wps []syntax.WordPart, quoted bool, it *c05Items) {
	if len(wps) == 0 {
		return
	}
	if !quoted {
		it.line("b", wps[0].Pos().Line())
	}
	for _, wp := range wps {
		if quoted {
			it.line("q", wp.Pos().Line())
		}
		d.wordPart(wp, it)
		it.line("a", wp.End().Line())
	}
}

func (d *c05Dumper) wordPart(wp syntax.WordPart, it *c05Items) {
	switch wp := wp.(type) {
	case *syntax.Lit:
	case *syntax.SglQuoted:
		it.line("a", wp.End().Line())
	case *syntax.DblQuoted:
		if len(wp.Parts) > 0 {
			d.wordParts(wp.Parts, true, it)
		}
		it.line("a", wp.Right.Line())
	case *syntax.CmdSubst:
		it.line("a", wp.Pos().Line())
		kind := "d"
		switch {
		case wp.TempFile:
			kind = "t"
		case wp.ReplyVar:
			kind = "r"
			d.hasReplyVar = true
		case wp.Backquotes:
			kind = "b"
		}
		it.other(d.sub(kind, wp.Left, wp.Right, wp.Stmts, wp.Last))
	case *syntax.ParamExp:
		d.paramExp(wp, it)
	case *syntax.ArithmExp:
		d.arithm(wp.X, it)
	case *syntax.ExtGlob:
	case *syntax.ProcSubst:
		it.other(d.sub("p", wp.OpPos, wp.Rparen, wp.Stmts, wp.Last))
	case *syntax.BraceExp:
		d.setSkip("brace-exp")
	default:
		d.setSkip(fmt.Sprintf("word-part-%T", wp))
	}
}

func (d *c05Dumper) paramExp(pe *syntax.ParamExp, it *c05Items) {
	if pe.Short && pe.Index != nil && !pe.Dollar.IsValid() { // nakedIndex
		d.arithm(pe.Index, it)
		return
	}
	if pe.Param == nil && pe.NestedParam != nil {
		// printed with p.minify forced off
		sub := newItems()
		d.wordPart(pe.NestedParam, sub)
		if !sub.flat {
			d.setSkip("nested-param-subst")
		}
		it.parts = append(it.parts, sub.parts...)
	}
	d.arithm(pe.Index, it)
	switch {
	case len(pe.Modifiers) > 0:
	case pe.Slice != nil:
		d.arithm(pe.Slice.Offset, it)
		if pe.Slice.Length != nil {
			d.arithm(pe.Slice.Length, it)
		}
	case pe.Repl != nil:
		d.word(pe.Repl.Orig, it)
		d.word(pe.Repl.With, it)
	case pe.Names != 0:
	case pe.Exp != nil:
		d.word(pe.Exp.Word, it)
	}
}

func (d *c05Dumper) arithm(e syntax.ArithmExpr, it *c05Items) {
	switch e := e.(type) {
	case nil:
	case *syntax.Word:
		d.word(e, it)
	case *syntax.BinaryArithm:
		d.arithm(e.X, it)
		d.arithm(e.Y, it)
	case *syntax.UnaryArithm:
		d.arithm(e.X, it)
	case *syntax.ParenArithm:
		d.arithm(e.X, it)
	case *syntax.FlagsArithm:
		if e.X != nil {
			d.arithm(e.X, it)
		}
	}
}

func (d *c05Dumper) testExpr(e syntax.TestExpr, it *c05Items) {
	it.other(fmt.Sprintf("( t %s )", c05Pos(e.Pos())))
	d.testSame(e, it)
}

func (d *c05Dumper) testSame(e syntax.TestExpr, it *c05Items) {
	it.line("a", e.Pos().Line())
	switch e := e.(type) {
	case *syntax.Word:
		d.word(e, it)
	case *syntax.BinaryTest:
		d.testSame(e.X, it)
		if e.Op == syntax.AndTest || e.Op == syntax.OrTest {
			d.testExpr(e.Y, it)
		} else {
			d.testSame(e.Y, it)
		}
	case *syntax.UnaryTest:
		d.testSame(e.X, it)
	case *syntax.ParenTest:
		d.testExpr(e.X, it)
	}
}

func (d *c05Dumper) wordJoin(ws []*syntax.Word, it *c05Items) {
	for _, w := range ws {
		it.line("b", w.Pos().Line())
		d.word(w, it)
	}
}

func (d *c05Dumper) assigns(as []*syntax.Assign, it *c05Items) {
	for _, a := range as {
		it.other(fmt.Sprintf("( w %s )", c05Pos(a.Pos())))
		if a.Name != nil {
			d.arithm(a.Index, it)
		}
		if a.Value != nil {
			it.line("a", a.Value.Pos().Line())
			d.word(a.Value, it)
		} else if a.Array != nil {
			var sb strings.Builder
			fmt.Fprintf(&sb, "( r %s ( E", c05Pos(a.Array.Rparen))
			for _, el := range a.Array.Elems {
				ei := newItems()
				d.arithm(el.Index, ei)
				if el.Value != nil {
					d.word(el.Value, ei)
				}
				fmt.Fprintf(&sb, " ( e %s %s %s )", c05Pos(el.Pos()), c05ComsS(el.Comments), ei.String("I"))
			}
			sb.WriteString(" ) " + c05ComsS(a.Array.Last) + " )")
			it.other(sb.String())
		}
	}
}

func (d *c05Dumper) stmts(ss []*syntax.Stmt) string {
	var sb strings.Builder
	sb.WriteString("( S")
	for _, s := range ss {
		sb.WriteString(" " + d.stmt(s))
	}
	sb.WriteString(" )")
	return sb.String()
}

func (d *c05Dumper) sub(kind string, left, right syntax.Pos, stmts []*syntax.Stmt, last []syntax.Comment) string {
	swl := len(stmts) > 0 && c05StartsWithLparen(stmts[0])
	return fmt.Sprintf("( s %s %s %d %s %s %s %s )", kind, c05B(swl), c05StmtsEnd(stmts, last).Line(), c05Pos(left), c05Pos(right), d.stmts(stmts), c05ComsS(last))
}

func (d *c05Dumper) stmt(s *syntax.Stmt) string {
	cmdPos, cmdEnd := "-", "-"
	cmd := "( n )"
	start := 0
	if s.Cmd != nil {
		cmdPos, cmdEnd = c05Pos(s.Cmd.Pos()), c05Pos(s.Cmd.End())
		cmd, start = d.command(s.Cmd, s.Redirs)
	}
	var sb strings.Builder
	fmt.Fprintf(&sb, "( st %s %s %s %s %s %s ( R", c05Pos(s.Pos()), cmdPos, cmdEnd, c05Pos(s.Semicolon), c05ComsS(s.Comments), cmd)
	for _, r := range s.Redirs[start:] {
		it := newItems()
		d.word(r.Word, it)
		hd := "-"
		if r.Op == syntax.Hdoc || r.Op == syntax.DashHdoc {
			body, wu := newItems(), newItems()
			endLine := uint(0)
			if r.Hdoc != nil {
				d.wordParts(r.Hdoc.Parts, true, body)
				endLine = r.Hdoc.End().Line()
			}
			// unquotedWord(r.Word)
			for _, wp := range r.Word.Parts {
				if dq, ok := wp.(*syntax.DblQuoted); ok {
					d.wordParts(dq.Parts, true, wu)
				}
			}
			if !body.flat || !wu.flat {
				d.setSkip("heredoc-body-with-substitution")
				body, wu = newItems(), newItems()
			}
			hd = fmt.Sprintf("( h %s %s %d %s %s )", c05B(r.Op == syntax.DashHdoc), c05B(r.Hdoc != nil), endLine, body.String("L"), wu.String("L"))
		}
		fmt.Fprintf(&sb, " ( rd %s %s %s )", c05Pos(r.OpPos), hd, it.String("I"))
	}
	sb.WriteString(" ) )")
	return sb.String()
}

func (d *c05Dumper) redirsUntil(redirs []*syntax.Redirect, start int, pos syntax.Pos, it *c05Items) int {
	for _, r := range redirs[start:] {
		if r.Pos().After(pos) || r.Op == syntax.Hdoc || r.Op == syntax.DashHdoc {
			break
		}
		d.word(r.Word, it)
		start++
	}
	return start
}

func (d *c05Dumper) nested(stmts []*syntax.Stmt, last []syntax.Comment) string {
	return fmt.Sprintf("%d %s %s", c05StmtsEnd(stmts, last).Line(), d.stmts(stmts), c05ComsS(last))
}

func (d *c05Dumper) ifc(ic *syntax.IfClause) string {
	els := "-"
	if ic.Else != nil {
		els = d.ifc(ic.Else)
	}
	return fmt.Sprintf("( ic %s %s %s %s %s %s %s )", c05Pos(ic.Position), c05B(ic.ThenPos.IsValid()), c05Pos(ic.ThenPos),
		d.nested(ic.Cond, ic.CondLast), d.nested(ic.Then, ic.ThenLast), c05ComsS(ic.Last), els)
}

func (d *c05Dumper) command(cmd syntax.Command, redirs []*syntax.Redirect) (string, int) {
	start := 0
	switch c := cmd.(type) {
	case *syntax.CallExpr:
		it := newItems()
		d.assigns(c.Assigns, it)
		if len(c.Args) > 0 {
			start = d.redirsUntil(redirs, start, c.Args[0].Pos(), it)
		}
		if len(c.Args) <= 1 {
			d.wordJoin(c.Args, it)
		} else {
			d.wordJoin(c.Args[:1], it)
			start = d.redirsUntil(redirs, start, c.Args[1].Pos(), it)
			d.wordJoin(c.Args[1:], it)
		}
		return "( fl " + it.String("I") + " )", start
	case *syntax.Block:
		return fmt.Sprintf("( bl %s %s )", c05Pos(c.Rbrace), d.nested(c.Stmts, c.Last)), 0
	case *syntax.Subshell:
		swl := len(c.Stmts) > 0 && c05StartsWithLparen(c.Stmts[0])
		first := uint(0)
		if len(c.Stmts) > 0 {
			first = c.Stmts[0].Pos().Line()
		}
		return fmt.Sprintf("( sh %s %d %s %s %s )", c05B(swl), first, c05Pos(c.Lparen), c05Pos(c.Rparen), d.nested(c.Stmts, c.Last)), 0
	case *syntax.IfClause:
		return fmt.Sprintf("( if %s %s )", c05Pos(c.FiPos), d.ifc(c)), 0
	case *syntax.WhileClause:
		return fmt.Sprintf("( wh %s %s %s %s )", c05Pos(c.DoPos), c05Pos(c.DonePos), d.nested(c.Cond, c.CondLast), d.nested(c.Do, c.DoLast)), 0
	case *syntax.ForClause:
		it := newItems()
		switch l := c.Loop.(type) {
		case *syntax.WordIter:
			if l.InPos.IsValid() {
				d.wordJoin(l.Items, it)
			}
		case *syntax.CStyleLoop:
			d.arithm(l.Init, it)
			d.arithm(l.Cond, it)
			d.arithm(l.Post, it)
		}
		return fmt.Sprintf("( fo %s %s %s %s )", c05Pos(c.DoPos), c05Pos(c.DonePos), it.String("I"), d.nested(c.Do, c.DoLast)), 0
	case *syntax.BinaryCmd:
		return fmt.Sprintf("( bi %s %s %s )", c05Pos(c.OpPos), d.stmt(c.X), d.stmt(c.Y)), 0
	case *syntax.FuncDecl:
		return fmt.Sprintf("( fn %s )", d.stmt(c.Body)), 0
	case *syntax.CaseClause:
		w := newItems()
		d.word(c.Word, w)
		var sb strings.Builder
		fmt.Fprintf(&sb, "( cs %d %s %s ( K", c.In.Line(), c05Pos(c.Esac), w.String("I"))
		for _, ci := range c.Items {
			pats := newItems()
			for _, p := range ci.Patterns {
				pats.other(fmt.Sprintf("( w %s )", c05Pos(p.Pos())))
				d.word(p, pats)
			}
			fmt.Fprintf(&sb, " ( ci %s %s %s %d %s %s %s %s )", c05Pos(ci.Pos()), c05Pos(ci.OpPos), c05B(ci.Op == syntax.Break), c05StmtsEnd(ci.Stmts, ci.Last).Line(),
				c05ComsS(ci.Comments), pats.String("I"), d.stmts(ci.Stmts), c05ComsS(ci.Last))
		}
		sb.WriteString(" ) " + c05ComsS(c.Last) + " )")
		return sb.String(), 0
	case *syntax.ArithmCmd:
		it := newItems()
		d.arithm(c.X, it)
		return "( fl " + it.String("I") + " )", 0
	case *syntax.TestClause:
		it := newItems()
		d.testExpr(c.X, it)
		return "( fl " + it.String("I") + " )", 0
	case *syntax.DeclClause:
		it := newItems()
		d.assigns(c.Args, it)
		return "( fl " + it.String("I") + " )", 0
	case *syntax.LetClause:
		it := newItems()
		for _, e := range c.Exprs {
			d.arithm(e, it)
		}
		return "( fl " + it.String("I") + " )", 0
	case *syntax.TimeClause:
		inner := "-"
		if c.Stmt != nil {
			inner = d.stmt(c.Stmt)
		}
		return "( wr ( I ) " + inner + " )", 0
	case *syntax.CoprocClause:
		it := newItems()
		if c.Name != nil {
			d.word(c.Name, it)
		}
		return "( wr " + it.String("I") + " " + d.stmt(c.Stmt) + " )", 0
	case *syntax.TestDecl:
		it := newItems()
		d.word(c.Description, it)
		return "( wr " + it.String("I") + " " + d.stmt(c.Body) + " )", 0
	}
	d.setSkip(fmt.Sprintf("command-%T", cmd))
	return "( n )", 0
}

// c05Dump returns the skeleton of f and the reason (if any) it lies outside the model's scope.
func c05Dump(f *syntax.File) (sexp string, d *c05Dumper, panicked string) {
	d = &c05Dumper{}
	panicked = safely(func() {
		sexp = fmt.Sprintf("( f %s %s )", d.stmts(f.Stmts), c05ComsS(f.Last))
	})
	return
}
