//go:build c17 || all

package main

import (
	"fmt"
	"regexp"
	"strconv"
	"strings"
)

// C17 — Glob patterns match exactly what bash matches.
//
// Correspondence streams (model ops): `regexp` (pattern.Regexp text or error class, exhaustive over
// short patterns), `compiles` (regexp.Compile verdict), `matcher` (internal.ExtendedPatternMatcher),
// `supported` (the harness' port of the Lean predicate that delimits the theorem).
// Assumption validation: `rx` (Go regexp semantics of the emitted expression = the model's
// derivative matcher).  Specification stream: `spec`/`specl` (reference glob semantics globMatch vs
// the real matcher — a difference is a property violation).  Spec validation: `bashspec`
// (globMatch vs bash; a difference means the reference is wrong).  Search leg, independent of
// Lean: real matcher vs bash (`[[ s == p ]]`, `case`, and real pathname expansion for the
// filename modes), c.Fail on a difference.
func init() { register("C17", c17) }

var c17Alphabet = []string{"*", "?", "[", "]", "!", "^", "-", "\\", "/", ".", "(", ")", "|", "@", "+", ":", "a", "b", "A"}

// The mode combinations that change how a pattern is read or what is emitted for it
// (Shortest / NoGlobCase / EntireString only change the prefix and suffix).
var c17LexModes = []int{
	0,
	l3Ext,
	l3Files,
	l3Files | l3NoStar,
	l3Files | l3DotGlob,
	l3Files | l3NoStar | l3DotGlob,
	l3Files | l3Ext,
	l3Files | l3NoStar | l3Ext,
	l3Files | l3DotGlob | l3Ext,
	l3Files | l3NoStar | l3DotGlob | l3Ext,
}

// c17FilenameEdges: boundary patterns for the filename modes (every one goes through the tie, the
// specification stream and the slash invariant under each filename lexing mode).
var c17FilenameEdges = []string{
	`[\/]`, `[a\/]`, `[\/a]`, `x[a\/b]y`, `[!a\/]`, `[^\/]a`, `a[\/]b`, `[[:alpha:]\/]`, `[a\/`, `+([\/a])`, `@(a|[b\/])`,
	`[a/b]`, `[/]`, `a[/]b`, `[!/]`, `[a/`, `[[./.]]`, `[.-0]`, `[[:punct:]]`, `[!a]`,
	`[*/`, `x[*/`, `a/[*b/`, `[**/`, `[*`, `[*/a`, `[?/`, `a[/*`,
	`*/`, `/*`, `*/*`, `a/*/b`, `**/a`, `a/**`, `a/**/b`, `**`, `***`, `a**`, `**a`, `/**/`, `**/**`,
	`?/?`, `?a`, `.?`, `*.a`, `.*`, `*/.*`, `a/.b`, `[.]a`, `\.a`, `a\/b`, `a\/*`, `\/*`, `*\/`,
}

var c17FlagModes = []int{l3Entire, l3Entire | l3NoCase, l3Entire | l3Shortest, 0, l3Shortest, l3NoCase, l3Entire | l3NoCase | l3Shortest}

// c17Known lists the documented divergence regions (known findings, see props/C17.notes.md and
// known-findings.jsonl) a pattern falls into under a mode.  The generator does not send such
// patterns to the specification stream or to the bash search leg; the canonical witness of every
// region is replayed from corpus/C17-known.txt on each run.
func c17Known(in *l3Info, p string, mode int) []string {
	var k []string
	if in.dashQuirk {
		k = append(k, "bracket-dash") // C17-bracket-dash, C17-range-end-escaped
	}
	if in.unterminatedGroup {
		k = append(k, "unterminated-group") // C17-unterminated-extglob
	}
	if in.bareParen {
		k = append(k, "bare-paren") // C17-bare-paren-in-group
	}
	if in.negExt == 0 && mode&l3Ext != 0 && strings.Contains(p, "!(") {
		k = append(k, "negext") // a !( the scanner did not reach (after a malformed bracket)
	}
	if in.nocaseClass {
		k = append(k, "nocase-class") // C17-nocase-class
	}
	if in.negExt > 0 {
		// !(…) is handled by extNegatedMatcher only as a single outermost group with a plain
		// literal prefix and suffix, and only its EntireString|ExtendedOperators reading is right.
		plain := in.negExt == 1 && !in.negNested && c17PlainAround(p) &&
			mode&^l3Shortest == l3Entire|l3Ext
		if !plain {
			k = append(k, "negext") // C17-negext-wrapper
		}
	}
	if in.leadingDot {
		k = append(k, "leading-dot") // C17-leading-dot
	}
	if in.slashMember {
		k = append(k, "slash-member") // C17-bracket-matches-slash
	}
	if in.slashBracket {
		k = append(k, "slash-bracket") // C17-slash-bracket-literal
	}
	if in.starSwallow {
		k = append(k, "star-swallow") // C17-globstar-swallows-extop
	}
	if in.slashInGroup {
		// Not a finding: in filename mode bash splits a pattern at its slashes before matching, so a
		// pattern-list that contains a slash has no defined reading; the reference (and `supported`)
		// leave it out.  (pattern.go's leading-dot divergence also shows through iterated lists here.)
		k = append(k, "outside:slash-in-group")
	}
	return k
}

// c17PlainAround: the text before the first "!(" and after its closing parenthesis consists of
// ordinary characters only (no backslash, no wildcard, bracket or operator character).
func c17PlainAround(p string) bool {
	i := strings.Index(p, "!(")
	if i < 0 {
		return false
	}
	rs := []rune(p[i+2:])
	_, rest, status, _ := l3ScanGroup(false, rs)
	if status != 1 {
		return false
	}
	plain := func(s string) bool { return !strings.ContainsAny(s, "\\*?[]!@+()|") }
	return plain(p[:i]) && plain(string(rest))
}

// c17BashOdd lists the regions where bash itself is inconsistent (its matcher depends on the
// subject, or mis-scans): the bash comparisons skip these.
func c17BashOdd(in *l3Info, p string, mode int) bool {
	if in.malformed {
		return true // bash has no syntax errors: it guesses a literal reading
	}
	if in.unclosedBracket && strings.HasSuffix(p, "-") {
		return true // an unclosed bracket scan that ends in "x-" matches nothing at all
	}
	if in.unclosedBracketInGroup || in.starBeforeAtPlus {
		return true
	}
	// bash: after a `*`, a later @(…) or +(…) that has to match the empty string at the end of the
	// subject fails (`[[ ab == a*+(|y) ]]` is false, also through other possibly-empty lists:
	// `a**(x)+(|y)`); conservatively: any plain `*` before an @( or +(.
	rs := []rune(p)
	for i := 0; i < len(rs); i++ {
		if rs[i] == '*' && !(i+1 < len(rs) && rs[i+1] == '(') {
			rest := string(rs[i+1:])
			if strings.Contains(rest, "+(") || strings.Contains(rest, "@(") {
				return true
			}
			break
		}
	}
	if strings.Contains(p, "-[:") || strings.Contains(p, "-[.") || strings.Contains(p, "-[=") ||
		strings.Contains(p, "-\\[") {
		return true // a class or collating element as the end of a range
	}
	return false
}

// c17GoAnswer is what the real code says for the specification stream.
func c17GoAnswer(p string, mode int, strs []string) string {
	r := l3MatcherBits(p, mode, strs)
	if strings.HasPrefix(r, "err ") && !strings.HasPrefix(r, "err negext") && !strings.HasPrefix(r, "err other") {
		return "malformed"
	}
	return r
}

// c17StrAlpha picks a small alphabet of subject characters relevant to the pattern.
func c17StrAlpha(p string, mode int) string {
	seen := map[rune]bool{}
	var out []rune
	add := func(r rune) {
		if !seen[r] && len(out) < 5 && r != 0 {
			seen[r] = true
			out = append(out, r)
		}
	}
	for _, r := range p {
		switch r {
		case '*', '?', '\\', '!', '^', '|', '@', '+', ':':
		default:
			add(r)
		}
	}
	if mode&l3Files != 0 {
		for _, r := range "a/.b[" {
			add(r)
		}
	} else {
		for _, r := range "ab-.[" {
			add(r)
		}
	}
	return string(out)
}

func c17Classify(p string) []string {
	var tags []string
	if strings.ContainsAny(p, "*?") {
		tags = append(tags, "wild")
	}
	if strings.Contains(p, "[") {
		tags = append(tags, "bracket")
	}
	if strings.Contains(p, "\\") {
		tags = append(tags, "escape")
	}
	if strings.Contains(p, "(") {
		tags = append(tags, "paren")
	}
	if strings.Contains(p, "/") {
		tags = append(tags, "slash")
	}
	if strings.Contains(p, "[:") {
		tags = append(tags, "class")
	}
	return tags
}

// c17Tie emits the model-correspondence lines for one pattern and mode.
func c17Tie(c *Ctx, p string, mode int, deep bool) {
	line, expr, ok := l3Regexp(p, mode)
	c.Op(fmt.Sprintf("regexp %d %s", mode, hx(p)), line)
	if ok {
		comp := "yes"
		if _, err := regexp.Compile(expr); err != nil {
			comp = "no"
		}
		c.Op(fmt.Sprintf("compiles %d %s", mode, hx(p)), comp)
	}
	if !deep {
		return
	}
	alpha := c17StrAlpha(p, mode)
	n := 3
	strs := l3Enum(alpha, n)
	c.Op(fmt.Sprintf("rx %d %s %s %d", mode, hx(p), hx(alpha), n), l3RxBits(p, mode, strs))
	in := l3Analyze(p, mode)
	sup := "no"
	if in.supported {
		sup = "yes"
	}
	c.Op(fmt.Sprintf("supported %d %s", mode, hx(p)), sup)
	if mode&l3Ext != 0 && mode&l3Entire == 0 {
		return // ExtendedPatternMatcher panics by design
	}
	c.Op(fmt.Sprintf("matcher %d %s %s %d", mode, hx(p), hx(alpha), n), l3MatcherBits(p, mode, strs))
	if mode&l3Entire == 0 {
		return
	}
	c17Spec(c, p, mode, in, alpha, n, strs)
}

// c17Spec puts the property itself to the real matcher on all subjects up to length n over alpha:
// the reference semantics (spec op, unless the pattern lies in a known divergence region) and the
// oracle-free slash invariant of the filename modes.
func c17Spec(c *Ctx, p string, mode int, in *l3Info, alpha string, n int, strs []string) {
	known := c17Known(in, p, mode)
	for _, k := range known {
		c.Hist["known:"+k]++
	}
	got := c17GoAnswer(p, mode, strs)
	if len(known) == 0 {
		// the property itself: reference semantics = the real matcher
		c.Op(fmt.Sprintf("spec %d %s %s %d", mode, hx(p), hx(alpha), n), got)
		if in.supported {
			c.Hist["spec:supported"]++
		} else {
			c.Hist["spec:outside-theorem"]++
		}
	}
	c17SlashInvariant(c, p, mode, in, strs, got, "")
}

// c17SpecOnly: the specification stream alone (no rx/matcher tie), for EntireString modes.
func c17SpecOnly(c *Ctx, p string, mode int) {
	if mode&l3Entire == 0 {
		return
	}
	alpha := c17StrAlpha(p, mode)
	n := 3
	c17Spec(c, p, mode, l3Analyze(p, mode), alpha, n, l3Enum(alpha, n))
}

// c17SlashInvariant is the documented contract of the Filenames mode, checked without any
// oracle: `*`, `?` and bracket expressions never match a slash, so a name can only match when it
// has exactly as many slashes as the pattern has (every slash of the pattern text is a literal one:
// plain, escaped, or inside a bracket expression that is thereby not a bracket expression).
// Left out: `**` with globstar enabled, pattern-lists containing a slash or `!(…)`, and the known
// finding C17-bracket-matches-slash (negated brackets, ranges and classes that contain '/').
func c17SlashInvariant(c *Ctx, p string, mode int, in *l3Info, strs []string, got string, witness string) {
	if mode&l3Files == 0 || mode&l3Entire == 0 || len(got) != len(strs) {
		return
	}
	if mode&l3NoStar == 0 && strings.Contains(p, "**") {
		return
	}
	if in.slashMember || in.slashInGroup || in.negExt > 0 || in.unterminatedGroup {
		return
	}
	want := strings.Count(p, "/")
	c.Hist["slashinv:patterns"]++
	for i, s := range strs {
		if got[i] == '1' && strings.Count(s, "/") != want {
			w := witness
			if w == "" {
				w = fmt.Sprintf("slashinv %d %s %s", mode, hx(p), hx(s))
			}
			c.Fail(w, fmt.Sprintf("Filenames mode %d: pattern %q (%d slashes) matches %q (%d slashes): a wildcard or bracket expression matched a slash, or a literal slash was dropped",
				mode, p, want, s, strings.Count(s, "/")))
			return
		}
	}
}

// ---- bash leg ------------------------------------------------------------------------------

type c17Probe struct {
	p    string
	mode int
	strs []string
}

// c17BashHow chooses the bash construct for a mode without Filenames.
func c17BashHow(mode int, alt bool) (how string, extglob bool, prelude string) {
	prelude = ""
	if mode&l3NoCase != 0 {
		prelude = "shopt -s nocasematch\n"
	}
	if mode&l3Ext != 0 {
		if alt {
			return "case", true, prelude
		}
		return "cond", true, prelude
	}
	return "case", false, prelude
}

// c17BashBatchScript evaluates a sequence of (pattern, n, n subjects) groups given as positional
// parameters and prints one line of 0/1 per pattern.  Pattern and subjects are only ever used
// through parameters, never pasted into the script.
func c17BashBatchScript(how string, extglob bool, prelude string) string {
	sh := prelude
	if extglob {
		sh += "shopt -s extglob\n"
	} else {
		sh += "shopt -u extglob\n"
	}
	sh += `while [ $# -gt 0 ]; do p=$1; n=$2; shift 2; o=; i=0
while [ $i -lt $n ]; do s=$1; shift; i=$((i+1))
`
	if how == "cond" {
		sh += `if [[ $s == $p ]]; then o+=1; else o+=0; fi` + "\n"
	} else {
		sh += `case $s in $p) o+=1;; *) o+=0;; esac` + "\n"
	}
	sh += `done; printf '%s\n' "$o"; done`
	return sh
}

// c17RunBash evaluates the probes (batched, a few bash processes): bash verdicts are compared
// with the real matcher (search leg, c.Fail) and handed to the driver for the reference
// semantics (`bashspec`).
func c17RunBash(c *Ctx, probes []c17Probe) {
	type key struct {
		how     string
		ext     bool
		prelude string
	}
	groups := map[key][]int{}
	var order []key
	for i, pr := range probes {
		how, ext, prelude := c17BashHow(pr.mode, i%2 == 1)
		k := key{how, ext, prelude}
		if _, ok := groups[k]; !ok {
			order = append(order, k)
		}
		groups[k] = append(groups[k], i)
	}
	type batch struct {
		k   key
		idx []int
	}
	var batches []batch
	for _, k := range order {
		idx := groups[k]
		for len(idx) > 0 {
			n := min(len(idx), 24)
			batches = append(batches, batch{k, idx[:n]})
			idx = idx[n:]
		}
	}
	results := make([]string, len(probes))
	okv := make([]bool, len(probes))
	outs := parallelMap(len(batches), 8, func(bi int) []string {
		b := batches[bi]
		var args []string
		for _, i := range b.idx {
			args = append(args, probes[i].p, strconv.Itoa(len(probes[i].strs)))
			args = append(args, probes[i].strs...)
		}
		r := runShell(c, "bash", c17BashBatchScript(b.k.how, b.k.ext, b.k.prelude), args...)
		if r.TimedOut || r.Status != 0 {
			return nil
		}
		lines := strings.Split(strings.TrimSuffix(r.Stdout, "\n"), "\n")
		if len(lines) != len(b.idx) {
			return nil
		}
		return lines
	})
	c.Hist["bash:runs"] += len(batches)
	for bi, b := range batches {
		for j, i := range b.idx {
			if outs[bi] != nil && len(outs[bi][j]) == len(probes[i].strs) {
				results[i], okv[i] = outs[bi][j], true
			}
		}
	}
	for i, pr := range probes {
		if !okv[i] {
			c.Hist["bash:failed"]++
			continue
		}
		c.Hist["bash:patterns"]++
		c.Hist["bash:pairs"] += len(pr.strs)
		bash := results[i]
		var hs []string
		for _, s := range pr.strs {
			hs = append(hs, hx(s))
		}
		c.Op(fmt.Sprintf("bashspec %d %s %s", pr.mode, hx(pr.p), strings.Join(hs, " ")), bash)
		goBits := c17GoAnswer(pr.p, pr.mode, pr.strs)
		if goBits == "malformed" {
			c.Hist["bash:go-malformed"]++
			continue
		}
		if goBits != bash {
			w, what := c17Witness(pr, goBits, bash)
			c.Fail(w, what)
		}
	}
}

// c17Witness names the first subject on which the real matcher and the oracle differ.
func c17Witness(pr c17Probe, goBits, want string) (string, string) {
	if len(goBits) != len(want) {
		return fmt.Sprintf("match %d %s %s expect=%c", pr.mode, hx(pr.p), hx(pr.strs[0]), want[0]),
			fmt.Sprintf("pattern %q mode %d: matcher gives %s, bash decides every subject", pr.p, pr.mode, goBits)
	}
	for j := range want {
		if goBits[j] != want[j] {
			return fmt.Sprintf("match %d %s %s expect=%c", pr.mode, hx(pr.p), hx(pr.strs[j]), want[j]),
				fmt.Sprintf("pattern %q against %q (mode %d): mvdan/sh says %c, bash says %c", pr.p, pr.strs[j], pr.mode, goBits[j], want[j])
		}
	}
	return "", ""
}

// c17Replay replays a corpus line `match <mode> <pattern> <subject> expect=<0|1|malformed>`:
// the real matcher must give the expected verdict (taken from bash by hand).
func c17Replay(c *Ctx, line string) {
	f := strings.Fields(line)
	if len(f) == 4 && f[0] == "slashinv" {
		if mode, err := strconv.Atoi(f[1]); err == nil {
			p, s := unhx(f[2]), unhx(f[3])
			c.Case("replay "+line, true, "replay")
			c17Tie(c, p, mode, false)
			c17SlashInvariant(c, p, mode, l3Analyze(p, mode), []string{s}, c17GoAnswer(p, mode, []string{s}), line)
		}
		return
	}
	if len(f) != 5 || f[0] != "match" || !strings.HasPrefix(f[4], "expect=") {
		return
	}
	mode, err := strconv.Atoi(f[1])
	if err != nil {
		return
	}
	p, s, want := unhx(f[2]), unhx(f[3]), strings.TrimPrefix(f[4], "expect=")
	got := c17GoAnswer(p, mode, []string{s})
	c.Case("replay "+line, true, "replay")
	c17Tie(c, p, mode, false)
	if got != want {
		c.Fail(line, fmt.Sprintf("pattern %q against %q (mode %d): mvdan/sh gives %s, bash gives %s", p, s, mode, got, want))
	}
}

// ---- real pathname expansion (filename modes) ----------------------------------------------

// The tiny tree every globbing run creates in its scratch directory, and the names it contains
// (directories also with a trailing slash, as bash prints them for patterns that end in one).
var c17TreeDirs = []string{"a", "x", ".d", "[", "[.a"}
var c17TreeTop = []string{"b", "ab", "xay", ".b", "]", "a]"}
var c17TreeIn = []string{"y", ".y", "b", "]"}

func c17TreeNames() []string {
	var out []string
	out = append(out, c17TreeTop...)
	for _, d := range c17TreeDirs {
		out = append(out, d, d+"/")
		for _, f := range c17TreeIn {
			out = append(out, d+"/"+f)
		}
	}
	return out
}

// c17GlobScript builds the tree, then expands each positional parameter as a pattern (IFS empty,
// nullglob, globstar off) and prints "#" followed by the matches, one per line.
func c17GlobScript(dotglob, extglob bool) string {
	sh := "set -f\n"
	for _, d := range c17TreeDirs {
		sh += "mkdir -p -- " + syntaxQuote(d) + "\n"
		for _, f := range c17TreeIn {
			sh += ": > " + syntaxQuote(d+"/"+f) + "\n"
		}
	}
	for _, f := range c17TreeTop {
		sh += ": > " + syntaxQuote(f) + "\n"
	}
	sh += "set +f\nshopt -s nullglob\nshopt -u globstar failglob nocaseglob\nIFS=\n"
	if dotglob {
		sh += "shopt -s dotglob\n"
	} else {
		sh += "shopt -u dotglob\n"
	}
	if extglob {
		sh += "shopt -s extglob\n"
	} else {
		sh += "shopt -u extglob\n"
	}
	sh += `for p in "$@"; do echo "#"; for f in $p; do printf '%s\n' "$f"; done; done`
	return sh
}

func syntaxQuote(s string) string { return "'" + strings.ReplaceAll(s, "'", `'\''`) + "'" }

// c17Globbable: bash only expands a word that has an unquoted `*`, `?` or a closed bracket
// expression (other words are left as they are, backslashes included); and the comparison is only
// meaningful for relative patterns without empty components.
func c17Globbable(p string) bool {
	if strings.HasPrefix(p, "/") || strings.Contains(p, "//") || p == "" {
		return false
	}
	if strings.Contains(p, "\\/") {
		return false // bash does not find the component boundary at an escaped slash (`*\/` expands to nothing)
	}
	rs := []rune(p)
	for i := 0; i < len(rs); i++ {
		switch rs[i] {
		case '\\':
			i++
		case '*', '?':
			return true
		}
	}
	return false
}

type c17GlobProbe struct {
	p    string
	mode int
}

// c17GenTreePattern: one or two path components built from pieces that fit the tree.
func c17GenTreePattern(r *Rand, ext bool) string {
	atoms := []string{"a", "x", "b", "y", "ab", "*", "*", "?", "?", ".", ".d", "[ab]", "[!a]", "[a-x]", "\\[", "[[]", "[.]", "]", "\\.", "[", "[.a", "\\a", "[xy]", "[!.]", "\\*", "[]]"}
	if ext {
		atoms = append(atoms, "@(a|x)", "*(a|b)", "?(.)", "+([ab])", "@(*)", "?(a)")
	}
	comp := func() string {
		var sb strings.Builder
		for k := 1 + r.Intn(3); k > 0; k-- {
			sb.WriteString(r.Pick(atoms))
		}
		return sb.String()
	}
	p := comp()
	if r.Chance(55) {
		p += "/" + comp()
	}
	if r.Chance(15) {
		p += "/"
	}
	return p
}

// c17RunGlob: real pathname expansion in bash as the oracle of the filename modes
// (Filenames|EntireString|NoGlobStar, with and without dotglob / extglob): a name of the tree
// matches the pattern iff bash's expansion lists it.
func c17RunGlob(c *Ctx, probes []c17GlobProbe) {
	allNames := c17TreeNames()
	// "d/" is an entry of the expansion only for a pattern that itself ends in a slash (bash lists
	// directory entries; the empty name after the last slash is not one), so names with a trailing
	// slash are compared for such patterns only.
	namesFor := func(p string) []string {
		var out []string
		for _, n := range allNames {
			if !strings.HasSuffix(n, "/") || strings.HasSuffix(p, "/") {
				out = append(out, n)
			}
		}
		return out
	}
	type key struct{ dot, ext bool }
	groups := map[key][]int{}
	for i, pr := range probes {
		k := key{pr.mode&l3DotGlob != 0, pr.mode&l3Ext != 0}
		groups[k] = append(groups[k], i)
	}
	for _, k := range []key{{false, false}, {true, false}, {false, true}, {true, true}} {
		idx := groups[k]
		for len(idx) > 0 {
			n := min(len(idx), 60)
			part := idx[:n]
			idx = idx[n:]
			var args []string
			for _, i := range part {
				args = append(args, probes[i].p)
			}
			r := runShell(c, "bash", c17GlobScript(k.dot, k.ext), args...)
			c.Hist["glob:runs"]++
			if r.TimedOut || r.Status != 0 {
				c.Hist["glob:failed"] += len(part)
				continue
			}
			blocks := strings.Split(r.Stdout, "#\n")
			if len(blocks) != len(part)+1 {
				c.Hist["glob:failed"] += len(part)
				continue
			}
			for j, i := range part {
				pr := probes[i]
				names := namesFor(pr.p)
				var hs []string
				for _, n := range names {
					hs = append(hs, hx(n))
				}
				set := map[string]bool{}
				for _, l := range strings.Split(blocks[j+1], "\n") {
					if l != "" {
						set[l] = true
					}
				}
				bash := l3Bits(func(n string) bool { return set[n] }, names)
				c.Hist["glob:patterns"]++
				c.Hist["glob:pairs"] += len(names)
				c.Op(fmt.Sprintf("bashspec %d %s %s", pr.mode, hx(pr.p), strings.Join(hs, " ")), bash)
				goBits := c17GoAnswer(pr.p, pr.mode, names)
				if goBits == "malformed" {
					continue
				}
				if goBits != bash {
					w, what := c17Witness(c17Probe{pr.p, pr.mode, names}, goBits, bash)
					c.Fail(w, what+" (pathname expansion)")
				}
			}
		}
	}
}

// ---- generators ----------------------------------------------------------------------------

// c17GenBracket builds a (mostly valid) bracket expression and one character it should match.
func c17GenBracket(r *Rand) (string, string) {
	var sb strings.Builder
	sb.WriteByte('[')
	neg := r.Chance(25)
	if neg {
		sb.WriteString(r.Pick([]string{"!", "^"}))
	}
	hit := ""
	n := 1 + r.Intn(3)
	for i := 0; i < n; i++ {
		switch r.Intn(10) {
		case 0, 1, 2:
			lo := rune('a' + r.Intn(4))
			hi := lo + rune(r.Intn(4))
			fmt.Fprintf(&sb, "%c-%c", lo, hi)
			hit = string(lo)
		case 3:
			cl := r.Pick([]string{"alpha", "digit", "upper", "lower", "punct", "space", "alnum", "xdigit", "word", "blank"})
			sb.WriteString("[:" + cl + ":]")
			hit = map[string]string{"alpha": "q", "digit": "7", "upper": "Q", "lower": "q", "punct": ";", "space": " ", "alnum": "7", "xdigit": "f", "word": "_", "blank": " "}[cl]
		case 4:
			ch := r.Pick([]string{"]", "-", "[", "!", "^", "\\", "/"})
			sb.WriteString("\\" + ch)
			hit = ch
		case 5:
			if i == 0 {
				sb.WriteString("]")
				hit = "]"
			} else {
				sb.WriteString(".")
				hit = "."
			}
		case 6:
			if i == n-1 {
				sb.WriteString("-")
				hit = "-"
			} else {
				sb.WriteString("A-C")
				hit = "B"
			}
		default:
			ch := r.Pick([]string{"a", "b", "x", "1", ".", "A", "é", "*", "?", "(", "|"})
			sb.WriteString(ch)
			hit = ch
		}
	}
	sb.WriteByte(']')
	if neg {
		hit = "Z"
	}
	return sb.String(), hit
}

// c17GenPattern builds a structured pattern and a few subjects likely to be near its language.
func c17GenPattern(r *Rand, mode int, depth int) (string, string) {
	var pat, hit strings.Builder
	n := 1 + r.Intn(5)
	for i := 0; i < n; i++ {
		switch k := r.Intn(16); {
		case k < 4:
			ch := r.Pick([]string{"a", "b", "c", "x", "A", "é", "1", "_", "-", "]", ":"})
			pat.WriteString(ch)
			hit.WriteString(ch)
		case k == 4:
			pat.WriteString("*")
			hit.WriteString(r.Pick([]string{"", "a", "xy", ".a"}))
		case k == 5:
			pat.WriteString("?")
			hit.WriteString(r.Pick([]string{"a", "é", "."}))
		case k == 6 || k == 7:
			b, h := c17GenBracket(r)
			pat.WriteString(b)
			hit.WriteString(h)
		case k == 8:
			ch := r.Pick([]string{"*", "?", "[", "\\", "a", "(", "|", ".", "/"})
			pat.WriteString("\\" + ch)
			hit.WriteString(ch)
		case k == 9:
			pat.WriteString(".")
			hit.WriteString(".")
		case k == 10 && mode&l3Files != 0:
			pat.WriteString("/")
			hit.WriteString("/")
		case k == 11 && mode&l3Files != 0:
			pat.WriteString(r.Pick([]string{"**", "**/", "/**/"}))
			hit.WriteString(r.Pick([]string{"", "a/", "/a/b/"}))
		case (k == 12 || k == 13) && mode&l3Ext != 0 && depth < 2:
			op := r.Pick([]string{"@", "?", "*", "+", "!"})
			na := 1 + r.Intn(3)
			var alts, hits []string
			for j := 0; j < na; j++ {
				a, h := c17GenPattern(r, mode, depth+1)
				if r.Chance(15) {
					a, h = "", ""
				}
				alts = append(alts, a)
				hits = append(hits, h)
			}
			pat.WriteString(op + "(" + strings.Join(alts, "|") + ")")
			if op != "!" {
				hit.WriteString(hits[r.Intn(len(hits))])
				if op == "+" || op == "*" {
					hit.WriteString(hits[r.Intn(len(hits))])
				}
			} else {
				hit.WriteString("zz")
			}
		case k == 14:
			pat.WriteString(r.Pick([]string{"[", "(", ")", "|", "@", "+", "!", "[!", "[a", "{", "}", "$", "^"}))
		default:
			ch := r.Pick([]string{"a", "b", "."})
			pat.WriteString(ch)
			hit.WriteString(ch)
		}
	}
	return pat.String(), hit.String()
}

// c17Subjects: the near-miss neighbourhood of a candidate subject.
func c17Subjects(r *Rand, hit string) []string {
	rs := []rune(hit)
	out := []string{hit, "", hit + "a", "a" + hit}
	if len(rs) > 0 {
		i := r.Intn(len(rs))
		out = append(out, string(rs[:i])+string(rs[i+1:]))
		repl := append([]rune{}, rs...)
		repl[i] = []rune("aZ./-]")[r.Intn(6)]
		out = append(out, string(repl))
		// ASCII-only case change: non-ASCII case folding is outside the model (see notes)
		out = append(out, l3ASCIIUpper(hit), string(rs[:i])+"/"+string(rs[i:]), "."+hit)
	}
	seen := map[string]bool{}
	var uniq []string
	for _, s := range out {
		if !seen[s] && l3ShellSafe(s) {
			seen[s] = true
			uniq = append(uniq, s)
		}
	}
	return uniq
}

func c17(c *Ctx) {
	c.Rule = "patterns over {* ? [ ] ! ^ - \\ / . ( ) | @ + : a b A}: exhaustive up to length 4 (thorough: 5, sharded) " +
		"under the mode combinations that change lexing, plus random longer structured patterns (brackets with " +
		"ranges/classes/escapes, pattern-lists, **, slashes, dots) and a malformed stream; subjects: all strings ≤ 3 over " +
		"the pattern's own characters, or near misses of an instantiation; non-trivial = the pattern contains a " +
		"metacharacter, bracket, escape or group; distinct by (mode, pattern)"
	for _, l := range c.CorpusLines() {
		c17Replay(c, l)
	}
	maxLen := 4
	if c.Thorough() {
		maxLen = 5
	}
	var probes []c17Probe
	bashBudget := 400
	if c.Thorough() {
		bashBudget = 600
	}
	idx := 0
	// the extended search ./check runs after a broken obligation (no corpus, one shard) digs deeper
	specEvery := 60
	if c.Corpus == "" && c.Shards <= 1 {
		specEvery = 6
	}
	consider := func(p string, mode int, strs []string) {
		// candidate for the bash leg: EntireString modes without Filenames (real globbing covers those)
		if mode&l3Entire == 0 || mode&l3Files != 0 || !l3ShellSafe(p) {
			return
		}
		in := l3Analyze(p, mode)
		if len(c17Known(in, p, mode)) > 0 || c17BashOdd(in, p, mode) {
			return
		}
		if strings.Contains(p, "[:") {
			// POSIX classes are the ASCII tables in the model; bash in a UTF-8 locale also accepts
			// non-ASCII letters (documented restriction): ASCII subjects only
			var ascii []string
			for _, s := range strs {
				if strings.IndexFunc(s, func(r rune) bool { return r > 127 }) < 0 {
					ascii = append(ascii, s)
				}
			}
			strs = ascii
		}
		if len(probes) < bashBudget && len(strs) > 0 {
			probes = append(probes, c17Probe{p, mode &^ l3Shortest, strs})
		}
	}
	var rec func(prefix string, l int)
	emit := func(p string) {
		idx++
		if c.Shards > 1 && idx%c.Shards != c.Shard {
			return
		}
		l := len(p)
		var modes []int
		if l <= 3 {
			modes = c17LexModes
		} else {
			h := c.R.Intn(len(c17LexModes))
			modes = []int{c17LexModes[h]}
			if c.Thorough() {
				modes = append(modes, c17LexModes[(h+1+c.R.Intn(len(c17LexModes)-1))%len(c17LexModes)])
			}
		}
		for _, lm := range modes {
			mode := lm | c17FlagModes[c.R.Intn(len(c17FlagModes))]
			deep := l <= 2 || c.R.Intn(40) == 0
			c17Tie(c, p, mode, deep)
			if !deep && (l == 3 || c.R.Intn(specEvery) == 0) {
				// every pattern of length 3 (and a sample of the longer ones) goes through the
				// specification stream under the EntireString variant of its mode
				c17SpecOnly(c, p, lm|l3Entire)
			}
			c.Case(fmt.Sprintf("%d %s", mode, p), strings.ContainsAny(p, "*?[\\("), c17Classify(p)...)
			if c.R.Intn(900) == 0 {
				consider(p, mode|l3Entire, l3Enum(c17StrAlpha(p, mode), 2))
			}
		}
	}
	rec = func(prefix string, l int) {
		emit(prefix)
		if l == maxLen {
			return
		}
		for _, a := range c17Alphabet {
			rec(prefix+a, l+1)
		}
	}
	rec("", 0)

	// boundary shapes of the filename modes: slashes next to and inside bracket expressions,
	// escaped slashes, unclosed brackets before a wildcard, `**` variants, leading dots
	if c.Shard == 0 {
		for _, p := range c17FilenameEdges {
			for _, lm := range c17LexModes {
				if lm&l3Files == 0 {
					continue
				}
				mode := lm | l3Entire
				c17Tie(c, p, mode, false)
				c17SpecOnly(c, p, mode)
				c.Case(fmt.Sprintf("%d %s", mode, p), true, append(c17Classify(p), "fn-edge")...)
			}
		}
	}

	// random longer patterns
	for i := 0; i < c.N; i++ {
		lm := c17LexModes[c.R.Intn(len(c17LexModes))]
		if c.R.Chance(50) {
			lm = c17LexModes[c.R.Intn(2)] // the modes of `case` and [[ ]]
		}
		mode := lm | l3Entire
		if c.R.Chance(12) {
			mode |= l3NoCase
		}
		var p, hit string
		if c.R.Chance(12) {
			p = genFrom(c.R, c17Alphabet, 9)
			hit = strings.Map(func(r rune) rune {
				if strings.ContainsRune("*?\\", r) {
					return -1
				}
				return r
			}, p)
		} else {
			p, hit = c17GenPattern(c.R, mode, 0)
		}
		// backtracking matchers (the reference, bash) are exponential on iterated pattern-lists:
		// keep the subjects short there
		if rs := []rune(hit); strings.Contains(p, "*(") || strings.Contains(p, "+(") {
			if len(rs) > 9 {
				hit = string(rs[:9])
			}
		} else if len(rs) > 24 {
			hit = string(rs[:24])
		}
		c17Tie(c, p, mode, c.R.Chance(25))
		c.Case(fmt.Sprintf("%d %s", mode, p), strings.ContainsAny(p, "*?[\\("), append(c17Classify(p), "random")...)
		strs := c17Subjects(c.R, hit)
		in := l3Analyze(p, mode)
		if len(c17Known(in, p, mode)) == 0 {
			var hs []string
			for _, s := range strs {
				hs = append(hs, hx(s))
			}
			c.Op(fmt.Sprintf("specl %d %s %s", mode, hx(p), strings.Join(hs, " ")), c17GoAnswer(p, mode, strs))
		}
		c17SlashInvariant(c, p, mode, in, strs, c17GoAnswer(p, mode, strs), "")
		if i%3 == 0 {
			consider(p, mode, strs)
		}
	}
	c17RunBash(c, probes)

	// real pathname expansion for the filename modes
	var gprobes []c17GlobProbe
	addGlob := func(p string, mode int) {
		if !c17Globbable(p) || !l3ShellSafe(p) {
			return
		}
		in := l3Analyze(p, mode)
		if len(c17Known(in, p, mode)) > 0 || c17BashOdd(in, p, mode) || in.unclosedBracket {
			return
		}
		gprobes = append(gprobes, c17GlobProbe{p, mode})
	}
	globModes := []int{l3Files | l3Entire | l3NoStar, l3Files | l3Entire | l3NoStar | l3DotGlob,
		l3Files | l3Entire | l3NoStar | l3Ext, l3Files | l3Entire | l3NoStar | l3DotGlob | l3Ext}
	if c.Shard == 0 {
		for _, p := range c17FilenameEdges {
			for _, m := range globModes {
				addGlob(p, m)
			}
		}
	}
	ng := 160
	if c.Thorough() {
		ng = 600
	}
	for i := 0; i < ng; i++ {
		m := globModes[c.R.Intn(len(globModes))]
		addGlob(c17GenTreePattern(c.R, m&l3Ext != 0), m)
	}
	c17RunGlob(c, gprobes)
}
