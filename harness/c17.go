//go:build c17 || all

package main

import (
	"fmt"
	"regexp"
	"strings"
)

// C17 — Glob patterns match exactly what bash matches.
//
// Correspondence streams (model ops): `regexp` (pattern.Regexp text or error class, exhaustive over
// short patterns), `compiles` (regexp.Compile verdict), `matcher` (internal.ExtendedPatternMatcher).
// Assumption validation: `rx` (Go regexp semantics of the emitted expression = the model's
// derivative matcher).  Specification stream: `spec` (reference glob semantics vs the real matcher).
// Spec validation: `bashspec` (reference semantics vs bash).  Search leg: real matcher vs bash.
func init() { register("C17", c17) }

var c17Alphabet = []string{"*", "?", "[", "]", "!", "^", "-", "\\", "/", ".", "(", ")", "|", "@", "+", ":", "a", "b", "A"}

// The mode combinations that change how a pattern is read or what is emitted for it
// (Shortest / NoGlobCase / EntireString only change the prefix and suffix).
var c17LexModes = []int{
	0,
	l3Ext,
	l3Files,
	l3Files | l3NoStar,
	l3Files | l3DotGlob,
	l3Files | l3NoStar | l3DotGlob,
	l3Files | l3Ext,
	l3Files | l3NoStar | l3Ext,
	l3Files | l3DotGlob | l3Ext,
	l3Files | l3NoStar | l3DotGlob | l3Ext,
}

var c17FlagModes = []int{l3Entire, l3Entire | l3NoCase, l3Entire | l3Shortest, 0, l3Shortest, l3NoCase, l3Entire | l3NoCase | l3Shortest}

func c17Compiles(p string, mode int) string {
	_, expr, ok := l3Regexp(p, mode)
	if !ok {
		return "na"
	}
	if _, err := regexp.Compile(expr); err != nil {
		return "no"
	}
	return "yes"
}

// c17Tie emits the model-correspondence lines for one pattern and mode.
func c17Tie(c *Ctx, p string, mode int, deep bool) {
	line, _, ok := l3Regexp(p, mode)
	c.Op(fmt.Sprintf("regexp %d %s", mode, hx(p)), line)
	if ok {
		c.Op(fmt.Sprintf("compiles %d %s", mode, hx(p)), c17Compiles(p, mode))
	}
	if deep {
		alpha := c17StrAlpha(p)
		n := 3
		strs := l3Enum(alpha, n)
		c.Op(fmt.Sprintf("rx %d %s %s %d", mode, hx(p), hx(alpha), n), l3RxBits(p, mode, strs))
		if mode&l3Ext == 0 || mode&l3Entire != 0 {
			c.Op(fmt.Sprintf("matcher %d %s %s %d", mode, hx(p), hx(alpha), n), l3MatcherBits(p, mode, strs))
		}
	}
}

// c17StrAlpha picks a small alphabet of subject characters relevant to the pattern: its own
// ordinary characters, the characters it could treat specially, and one outsider.
func c17StrAlpha(p string) string {
	seen := map[rune]bool{}
	var out []rune
	add := func(r rune) {
		if !seen[r] && len(out) < 5 && r != 0 {
			seen[r] = true
			out = append(out, r)
		}
	}
	for _, r := range p {
		switch r {
		case '*', '?', '\\', '!', '^', '|', '@', '+', ':':
		default:
			add(r)
		}
	}
	for _, r := range "a/.b[" {
		add(r)
	}
	return string(out)
}

func c17Classify(p string) []string {
	var tags []string
	if strings.ContainsAny(p, "*?") {
		tags = append(tags, "wild")
	}
	if strings.Contains(p, "[") {
		tags = append(tags, "bracket")
	}
	if strings.Contains(p, "\\") {
		tags = append(tags, "escape")
	}
	if strings.Contains(p, "(") {
		tags = append(tags, "paren")
	}
	if strings.Contains(p, "/") {
		tags = append(tags, "slash")
	}
	if strings.Contains(p, "[:") {
		tags = append(tags, "class")
	}
	return tags
}

func c17(c *Ctx) {
	c.Rule = "patterns over {* ? [ ] ! ^ - \\ / . ( ) | @ + : a b A}: exhaustive up to length 4 (thorough: 5, sharded) " +
		"under the mode combinations that change lexing, plus random longer structured patterns; " +
		"non-trivial = the pattern contains a metacharacter, bracket, escape or group; distinct by (mode, pattern)"
	maxLen := 4
	if c.Thorough() {
		maxLen = 5
	}
	idx := 0
	var rec func(prefix string, l int)
	emit := func(p string) {
		idx++
		if c.Shards > 1 && idx%c.Shards != c.Shard {
			return
		}
		l := len(p)
		var modes []int
		if l <= 3 {
			modes = c17LexModes
		} else {
			h := c.R.Intn(len(c17LexModes))
			modes = []int{c17LexModes[h], c17LexModes[(h+1+c.R.Intn(len(c17LexModes)-1))%len(c17LexModes)]}
		}
		for _, lm := range modes {
			mode := lm | c17FlagModes[c.R.Intn(len(c17FlagModes))]
			deep := l <= 2 || c.R.Intn(40) == 0
			c17Tie(c, p, mode, deep)
			c.Case(fmt.Sprintf("%d %s", mode, p), strings.ContainsAny(p, "*?[\\("), c17Classify(p)...)
		}
	}
	rec = func(prefix string, l int) {
		emit(prefix)
		if l == maxLen {
			return
		}
		for _, a := range c17Alphabet {
			rec(prefix+a, l+1)
		}
	}
	rec("", 0)
}
