package main

import (
	"fmt"
	"reflect"
	"sort"
	"strings"

	"mvdan.cc/sh/v3/syntax"
)

// Reflection view of the syntax node schema, independent of the go/ast extractor: the exported
// Node-holding fields of every node struct, non-node helper structs (Slice, Replace, Expansion)
// flattened with a dotted path.

var nodeIface = reflect.TypeOf((*syntax.Node)(nil)).Elem()
var posType = reflect.TypeOf(syntax.Pos{})

type slotInfo struct {
	Path   string
	IsList bool
	index  []int // reflect field index path
	ptrs   []bool
}

var slotCache = map[reflect.Type][]slotInfo{}

func isNodeType(t reflect.Type) bool {
	if t.Kind() == reflect.Interface {
		return t.Implements(nodeIface)
	}
	if t.Kind() == reflect.Pointer && t.Elem().Kind() == reflect.Struct {
		return t.Implements(nodeIface)
	}
	if t.Kind() == reflect.Struct && t != posType {
		return reflect.PointerTo(t).Implements(nodeIface)
	}
	return false
}

func slotsOfType(st reflect.Type) []slotInfo {
	if s, ok := slotCache[st]; ok {
		return s
	}
	var out []slotInfo
	var rec func(t reflect.Type, prefix string, index []int, depth int)
	rec = func(t reflect.Type, prefix string, index []int, depth int) {
		for i := 0; i < t.NumField(); i++ {
			f := t.Field(i)
			if !f.IsExported() {
				continue
			}
			ft := f.Type
			idx := append(append([]int{}, index...), i)
			if ft.Kind() == reflect.Slice {
				if isNodeType(ft.Elem()) {
					out = append(out, slotInfo{Path: prefix + f.Name, IsList: true, index: idx})
				}
				continue
			}
			if isNodeType(ft) {
				out = append(out, slotInfo{Path: prefix + f.Name, index: idx})
				continue
			}
			if ft.Kind() == reflect.Pointer && ft.Elem().Kind() == reflect.Struct && ft.Elem() != posType && depth < 3 {
				rec(ft.Elem(), prefix+f.Name+".", idx, depth+1)
			}
		}
	}
	rec(st, "", nil, 0)
	slotCache[st] = out
	return out
}

// fieldByPath follows index through pointers; ok=false when a helper-struct pointer is nil.
func fieldByPath(v reflect.Value, index []int) (reflect.Value, bool) {
	for i, x := range index {
		if i > 0 {
			if v.Kind() == reflect.Pointer {
				if v.IsNil() {
					return reflect.Value{}, false
				}
				v = v.Elem()
			}
		}
		v = v.Field(x)
	}
	return v, true
}

// DNode is a dumped node.
type DNode struct {
	Node   syntax.Node
	Type   string
	ID     int
	Slot   int
	Flag   bool
	Kids   []*DNode
	Parent *DNode
}

type Dumper struct {
	next  int
	Nodes []*DNode
	Flag  func(parent syntax.Node, slotPath string, child syntax.Node) bool
}

func typeName(n syntax.Node) string {
	t := reflect.TypeOf(n)
	if t.Kind() == reflect.Pointer {
		t = t.Elem()
	}
	return t.Name()
}

func isNilNode(v reflect.Value) bool {
	switch v.Kind() {
	case reflect.Interface, reflect.Pointer:
		return v.IsNil()
	}
	return false
}

func asNode(v reflect.Value) syntax.Node {
	if v.Kind() == reflect.Struct {
		// value node (e.g. Comment inside []Comment): take the address of the slice element
		return v.Addr().Interface().(syntax.Node)
	}
	if v.Kind() == reflect.Interface {
		return v.Elem().Interface().(syntax.Node)
	}
	return v.Interface().(syntax.Node)
}

// Dump builds the generic tree of n by reflection (pre-order ids).
func (d *Dumper) Dump(n syntax.Node, slot int, parent *DNode) *DNode {
	dn := &DNode{Node: n, Type: typeName(n), ID: d.next, Slot: slot, Parent: parent}
	d.next++
	d.Nodes = append(d.Nodes, dn)
	v := reflect.ValueOf(n)
	if v.Kind() == reflect.Pointer {
		v = v.Elem()
	}
	for si, s := range slotsOfType(v.Type()) {
		fv, ok := fieldByPath(v, s.index)
		if !ok {
			continue
		}
		if s.IsList {
			for i := 0; i < fv.Len(); i++ {
				ev := fv.Index(i)
				if isNilNode(ev) {
					continue
				}
				k := d.Dump(asNode(ev), si, dn)
				if d.Flag != nil {
					k.Flag = d.Flag(n, s.Path, k.Node)
				}
				dn.Kids = append(dn.Kids, k)
			}
		} else {
			if isNilNode(fv) {
				continue
			}
			dn.Kids = append(dn.Kids, d.Dump(asNode(fv), si, dn))
		}
	}
	return dn
}

// SExp renders the generic tree for the Lean driver: ( tyIndex id slot flag kids… ).
func (dn *DNode) SExp(tyIndex func(string) int, sb *strings.Builder) {
	f := 0
	if dn.Flag {
		f = 1
	}
	fmt.Fprintf(sb, "( %d %d %d %d", tyIndex(dn.Type), dn.ID, dn.Slot, f)
	for _, k := range dn.Kids {
		sb.WriteByte(' ')
		k.SExp(tyIndex, sb)
	}
	sb.WriteString(" )")
}

// nodeKey identifies a node across Walk callbacks: pointer identity, except for comments, which
// Walk passes as the address of a loop copy.
func nodeKey(n syntax.Node) string {
	if c, ok := n.(*syntax.Comment); ok {
		return fmt.Sprintf("Comment@%d:%d:%q", c.Hash.Line(), c.Hash.Col(), c.Text)
	}
	return fmt.Sprintf("%T@%p", n, n)
}

// allNodeStructs lists the node struct types of package syntax known to the harness, sorted by
// name — the same order the extractor uses for type indices.
func allNodeStructs() []reflect.Type {
	vals := []syntax.Node{
		&syntax.File{}, &syntax.Comment{}, &syntax.Stmt{}, &syntax.Assign{}, &syntax.Redirect{}, &syntax.CallExpr{},
		&syntax.Subshell{}, &syntax.Block{}, &syntax.IfClause{}, &syntax.WhileClause{}, &syntax.ForClause{},
		&syntax.WordIter{}, &syntax.CStyleLoop{}, &syntax.BinaryCmd{}, &syntax.FuncDecl{}, &syntax.Word{}, &syntax.Lit{},
		&syntax.SglQuoted{}, &syntax.DblQuoted{}, &syntax.CmdSubst{}, &syntax.ParamExp{}, &syntax.ArithmExp{},
		&syntax.ArithmCmd{}, &syntax.BinaryArithm{}, &syntax.UnaryArithm{}, &syntax.ParenArithm{}, &syntax.FlagsArithm{},
		&syntax.CaseClause{}, &syntax.CaseItem{}, &syntax.TestClause{}, &syntax.BinaryTest{}, &syntax.UnaryTest{},
		&syntax.ParenTest{}, &syntax.DeclClause{}, &syntax.ArrayExpr{}, &syntax.ArrayElem{}, &syntax.ExtGlob{},
		&syntax.ProcSubst{}, &syntax.TimeClause{}, &syntax.CoprocClause{}, &syntax.LetClause{}, &syntax.BraceExp{},
		&syntax.TestDecl{},
	}
	var ts []reflect.Type
	for _, v := range vals {
		ts = append(ts, reflect.TypeOf(v).Elem())
	}
	sort.Slice(ts, func(i, j int) bool { return ts[i].Name() < ts[j].Name() })
	return ts
}
