package main

import (
	"go/ast"
	"go/parser"
	"go/token"
	"os"
	"path/filepath"
	"sort"
	"strconv"
	"strings"
	"sync"

	"mvdan.cc/sh/v3/syntax"
)

var (
	seedOnce sync.Once
	seedAll  []string
)

func repoDir() string {
	if d := os.Getenv("VERIF_REPO"); d != "" {
		return d
	}
	return "/repo"
}

// repoSeeds returns the distinct string literals of the repository's own test tables
// (syntax/*_test.go, interp/interp_test.go, expand tests): shell programs, fragments and
// erroring inputs.  They are seeds for generators, not oracles.
func repoSeeds() []string {
	seedOnce.Do(func() {
		seen := map[string]bool{}
		var files []string
		for _, pat := range []string{"syntax/*_test.go", "interp/*_test.go", "expand/*_test.go", "shell/*_test.go"} {
			m, _ := filepath.Glob(filepath.Join(repoDir(), pat))
			files = append(files, m...)
		}
		sort.Strings(files)
		fset := token.NewFileSet()
		for _, f := range files {
			af, err := parser.ParseFile(fset, f, nil, 0)
			if err != nil {
				continue
			}
			ast.Inspect(af, func(n ast.Node) bool {
				bl, ok := n.(*ast.BasicLit)
				if !ok || bl.Kind != token.STRING {
					return true
				}
				s, err := strconv.Unquote(bl.Value)
				if err != nil || len(s) == 0 || len(s) > 600 || seen[s] {
					return true
				}
				seen[s] = true
				seedAll = append(seedAll, s)
				return true
			})
		}
	})
	return seedAll
}

var allLangs = []syntax.LangVariant{syntax.LangBash, syntax.LangPOSIX, syntax.LangMirBSDKorn, syntax.LangBats, syntax.LangZsh}

func langName(l syntax.LangVariant) string { return l.String() }

// parsesIn reports the variants in which src parses without error.
func parseIn(src string, l syntax.LangVariant, opts ...syntax.ParserOption) (f *syntax.File, err error, panicked string) {
	panicked = safely(func() {
		o := append([]syntax.ParserOption{syntax.Variant(l)}, opts...)
		f, err = syntax.NewParser(o...).Parse(strings.NewReader(src), "")
	})
	return
}
