package main

import (
	"go/ast"
	"go/parser"
	"go/token"
	"os"
	"path/filepath"
	"sort"
	"strconv"
	"strings"
	"sync"

	"mvdan.cc/sh/v3/syntax"
)

var (
	seedOnce sync.Once
	seedAll  []string
)

func repoDir() string {
	if d := os.Getenv("VERIF_REPO"); d != "" {
		return d
	}
	return "/repo"
}

// repoSeeds returns the distinct string literals of the repository's own test tables
// (syntax/*_test.go, interp/interp_test.go, expand tests): shell programs, fragments and
// erroring inputs.  They are seeds for generators, not oracles.
func repoSeeds() []string {
	seedOnce.Do(func() {
		seen := map[string]bool{}
		var files []string
		for _, pat := range []string{"syntax/*_test.go", "interp/*_test.go", "expand/*_test.go", "shell/*_test.go"} {
			m, _ := filepath.Glob(filepath.Join(repoDir(), pat))
			files = append(files, m...)
		}
		sort.Strings(files)
		fset := token.NewFileSet()
		for _, f := range files {
			af, err := parser.ParseFile(fset, f, nil, 0)
			if err != nil {
				continue
			}
			ast.Inspect(af, func(n ast.Node) bool {
				bl, ok := n.(*ast.BasicLit)
				if !ok || bl.Kind != token.STRING {
					return true
				}
				s, err := strconv.Unquote(bl.Value)
				if err != nil || len(s) == 0 || len(s) > 600 || seen[s] {
					return true
				}
				seen[s] = true
				seedAll = append(seedAll, s)
				return true
			})
		}
	})
	return seedAll
}

var allLangs = []syntax.LangVariant{syntax.LangBash, syntax.LangPOSIX, syntax.LangMirBSDKorn, syntax.LangBats, syntax.LangZsh}

func langName(l syntax.LangVariant) string { return l.String() }

// parsesIn reports the variants in which src parses without error.
func parseIn(src string, l syntax.LangVariant, opts ...syntax.ParserOption) (f *syntax.File, err error, panicked string) {
	panicked = safely(func() {
		o := append([]syntax.ParserOption{syntax.Variant(l)}, opts...)
		f, err = syntax.NewParser(o...).Parse(strings.NewReader(src), "")
	})
	return
}


// variantSnippets are small programs exercising constructs that only some variants accept and
// fields that few inputs set (zsh parameter flags and modifiers, mksh forms, bats tests, nested
// arrays …).  Harnesses that walk or encode trees run all of them on every run, so that a change
// touching one of those fields meets a concrete input.
var variantSnippets = []string{
	"echo ${=a} ${==a} ${~a} ${~~a} ${^a} ${^^a} ${=~^a}", "echo ${a:h2} ${foo:t5:h2:l} ${a:u}", "echo ${(f)a} ${(s.:.)b} ${+a} ${#a}",
	"a[1]=(b c)", "a[1,2]=(x y)", "echo ${a[(r)foo]} ${a[1,2]}", "echo <-> <1-10> *(.) **/*(om[1])", "foo &! bar &|", "for i in a; { echo $i; }",
	"repeat 3 echo x", "if [[ a == b ]] { echo y } else { echo n }", "function f g { :; }", "echo $#", "echo ${|cmd;} ${ cmd;}", "case x { a) : ;; }",
	"@test \"d\" { run foo; [ \"$status\" -eq 0 ]; }", "select x in a b; do :; done", "coproc NAME { cat; }", "time -p foo | bar", "let 'x=1' y++",
	"declare -A m=([k]=v [j]=w)", "a=([2]=x y [5]=z)", "a+=([1]=Q w)", "echo ${!a[@]} ${!p*} ${a[@]:1:2} ${a/x/y} ${a//x} ${a^^} ${a@Q}",
	"echo $'a\\tb' $\"loc\" @(a|b) !(c) <(x) >(y)", "foo |& bar", "foo &> a &>> b <<< c {fd}> d", "case x in a) ;& b) ;;& c) ;| d) ;; esac",
	"for ((i = 0; i < 3; i++)); do :; done", "((x++)); [[ -n $a && ( b == c* || ! -f d ) ]]", "cat <<-EOF\n\tbody $x\n\tEOF\n", "cat <<'E' | cat <<E2\nq\nE\nw\nE2\n",
	"echo `a \\`b\\`` $(c) $((d[1] ** 2))", "x=1 y=2 cmd >out 2>&1 <in", "f() ( : ); g() if a; then b; fi", "a=b local c readonly d=e export f",
	"# lead\nfoo # trail\n# last\n", "case i in\nx)\n\ta\n\t;;\n\t#a\n#b\n\t#c\ny) ;;\nesac", "a=(\n\tx # c1\n\t# c2\n\ty\n)\n",
	// comments glued to the token that ends a statement (a comment starting exactly at Stmt.End(); seeded change C14-3)
	"foo;#c1\nbar&#c2\n(baz)#c3\n((x))#c4\nqux >f;#c5\necho $(a;#c6\n)\n{ b;};#c7\n", "a=(x)#c\ncase v in a) b;;#d\nesac;#e\nif a;then b;fi;#g\n", "foo;#c\n", "(a)#c\n",
}

func variantSnippetSources() []string {
	out := make([]string, len(variantSnippets))
	for i, s := range variantSnippets {
		out[i] = strings.ReplaceAll(strings.ReplaceAll(s, "\\n", "\n"), "\\t", "\t")
	}
	return out
}
