//go:build c11 || all

package main

import (
	"bytes"
	"fmt"
	"reflect"
	"strings"

	"mvdan.cc/sh/v3/syntax"
	"mvdan.cc/sh/v3/syntax/typedjson"
)

// C11 — Language variants gate their features consistently.
// The Lean side holds table obligations over guards regenerated from the parser source; this
// harness is the search leg (the property itself on the implementation):
//  (a) everything accepted as POSIX is scanned for non-POSIX constructs,
//  (b) everything accepted as Bash is accepted as Bats with the same tree (except @test commands),
//  (c) with RecoverErrors(n) a valid input parses exactly as without.
func init() { register("C11", c11) }

// c11ParamExpExtra names a field of a ParamExp that is non-zero although no POSIX form sets it.
func c11ParamExpExtra(x *syntax.ParamExp) string {
	posix := map[string]bool{"Dollar": true, "Rbrace": true, "Short": true, "Length": true, "Param": true, "Exp": true,
		"Excl": true, "Index": true, "Slice": true, "Repl": true, "Names": true, "Modifiers": true, "Flags": true, "NestedParam": true, "Width": true, "IsSet": true} // the second row is judged by the explicit cases above
	v := reflect.ValueOf(x).Elem()
	for i := 0; i < v.NumField(); i++ {
		if n := v.Type().Field(i).Name; !posix[n] && !v.Field(i).IsZero() {
			return n
		}
	}
	return ""
}

// nonPosix reports the first Bash/mksh/Zsh-only construct found in the tree.
func nonPosix(f *syntax.File) string {
	found := ""
	set := func(s string) {
		if found == "" {
			found = s
		}
	}
	posixParOps := map[string]bool{":-": true, "-": true, ":=": true, "=": true, ":?": true, "?": true, ":+": true, "+": true, "#": true, "##": true, "%": true, "%%": true}
	syntax.Walk(f, func(n syntax.Node) bool {
		switch x := n.(type) {
		case *syntax.TestClause:
			set("[[ ]] (TestClause)")
		case *syntax.ArithmCmd:
			set("(( )) (ArithmCmd)")
		case *syntax.ArrayExpr:
			set("array literal (ArrayExpr)")
		case *syntax.ProcSubst:
			set("process substitution (ProcSubst)")
		case *syntax.ExtGlob:
			set("extended glob (ExtGlob)")
		case *syntax.LetClause:
			set("let clause")
		case *syntax.CoprocClause:
			set("coproc clause")
		case *syntax.TestDecl:
			set("bats @test (TestDecl)")
		case *syntax.CStyleLoop:
			set("C-style for loop")
		case *syntax.DeclClause:
			set("declare clause (DeclClause " + x.Variant.Value + ")")
		case *syntax.TimeClause:
			set("time clause")
		case *syntax.SglQuoted:
			if x.Dollar {
				set("$'' string")
			}
		case *syntax.DblQuoted:
			if x.Dollar {
				set("$\"\" string")
			}
		case *syntax.Assign:
			if x.Index != nil {
				set("array element assignment (Assign.Index)")
			}
			if x.Append {
				set("+= assignment")
			}
			if x.Array != nil {
				set("array assignment")
			}
		case *syntax.ParamExp:
			switch {
			case x.Excl:
				set("${!x} (ParamExp.Excl)")
			case x.Index != nil && x.Short:
				set("array subscript in arithmetic (a[i])")
			case x.Index != nil:
				set("array subscript (ParamExp.Index)")
			case x.Slice != nil:
				set("${x:o:l} slicing")
			case x.Repl != nil:
				set("${x/p/r} replacement")
			case x.Names != 0:
				set("${!prefix*}")
			case len(x.Modifiers) > 0 || x.Flags != nil || x.NestedParam != nil || x.Width || x.IsSet:
				set("zsh/mksh parameter expansion form")
			case c11ParamExpExtra(x) != "":
				// allow-list: any ParamExp field outside the POSIX forms that is set (zsh's ${=a} ${~a} ${^a} …,
				// and whatever is added later) — seeded change C11-3
				set("parameter expansion field " + c11ParamExpExtra(x) + " set")
			case x.Exp != nil && !posixParOps[x.Exp.Op.String()]:
				set("parameter expansion operator " + x.Exp.Op.String())
			}
		case *syntax.Redirect:
			switch x.Op {
			case syntax.RdrAll, syntax.AppAll, syntax.WordHdoc, syntax.RdrAllClob, syntax.AppAllClob, syntax.AppClob:
				set("redirection operator " + x.Op.String())
			}
			if x.N != nil && strings.HasPrefix(x.N.Value, "{") {
				set("{varname} redirection")
			}
		case *syntax.BinaryCmd:
			if x.Op == syntax.PipeAll {
				set("|& pipe")
			}
		case *syntax.CaseItem:
			if x.Op != syntax.Break {
				set("case terminator " + x.Op.String())
			}
		case *syntax.FuncDecl:
			if x.RsrvWord {
				set("function keyword")
			}
		case *syntax.ForClause:
			if x.Select {
				set("select loop")
			}
			if x.Braces {
				set("for loop with braces")
			}
		case *syntax.CaseClause:
			if x.Braces {
				set("case with braces")
			}
		case *syntax.Stmt:
			if x.Coprocess {
				set("|& coprocess")
			}
			if x.Disown {
				set("&! disown")
			}
		case *syntax.CmdSubst:
			if x.TempFile || x.ReplyVar {
				set("${ cmd;} substitution")
			}
		case *syntax.ArithmExp:
			if x.Bracket {
				set("$[ ] arithmetic")
			}
			if x.Unsigned {
				set("unsigned arithmetic")
			}
		case *syntax.BinaryArithm:
			if x.Op == syntax.Pow {
				set("** operator")
			}
		}
		return found == ""
	})
	return found
}

func encTree(f *syntax.File) string {
	var b bytes.Buffer
	if err := typedjson.Encode(&b, f); err != nil {
		return "encode-error: " + err.Error()
	}
	return b.String()
}

// hasAtTest reports whether some simple command's first word is exactly @test.
func hasAtTest(f *syntax.File) bool {
	found := false
	syntax.Walk(f, func(n syntax.Node) bool {
		if ce, ok := n.(*syntax.CallExpr); ok && len(ce.Args) > 0 && ce.Args[0].Lit() == "@test" {
			found = true
		}
		return !found
	})
	return found
}

var c11Targets = []string{
	"[[ a == b ]]", "((x++))", "a=(1 2)", "a[1]=x", "echo ${a[1]}", "echo $((a[1]))", "cat <(echo)", "echo >(cat)", "echo $'a\\n'", "echo $\"a\"",
	"echo @(a|b)", "echo +(a)", "echo ${!a}", "echo ${a:1:2}", "echo ${a/b/c}", "echo ${a^^}", "echo ${a,,}", "echo ${!a*}", "echo ${a@Q}",
	"foo &> x", "foo &>> x", "cat <<< x", "foo |& bar", "foo {fd}> x", "case x in a) ;& b) ;;& c) ;; esac", "function f { :; }", "function f() { :; }",
	"select x in a b; do :; done", "for ((i=0;i<1;i++)); do :; done", "let x=1", "coproc foo", "time foo", "time -p foo", "declare -a x", "local y=1", "export E=1", "readonly R",
	"typeset -i n", "nameref n", "echo $[1+2]", "echo $((2**3))", "a+=b", "a+=(c)", "x=1 a[2]=3 foo", "echo ${#a[@]}", "echo ${a[@]:1}", "@test \"d\" { :; }", "@test foo", "echo @test",
	"for i; { :; }", "foo &!", "foo &|", "echo ${a:h}", "echo ${(f)a}", "echo ${+a}", "echo ${%a}", "echo ${|cmd;}", "echo ${ cmd;}", "[ a = b ]", "test -n x", "echo `a`", "echo $(a)", "echo ${a:-b} ${a%%x}",
	"{ }", "f() { }", "( )", "if true; then\nfi", "while false; do\ndone", "for i in a; do\ndone", "case x in a) ;; esac", "if a; then b; else\nfi", "{ ; }",
	"if [[ a ]]; then :; fi", "while ((1)); do :; done", "f() ((1))", "f() [[ a ]]", "echo $(( a[1] + b[x] ))", "echo \"${a[1]}\"", "echo $((x = a[0]))",
	// every zsh/mksh/bash parameter-expansion prefix, flag and operator form, one per target (seeded change C11-3: ${=a} accepted as POSIX)
	"echo ${=a}", "echo ${==a}", "echo ${~a}", "echo ${~~a}", "echo ${^a}", "echo ${^^a}", "echo \"${=^a}\"", "echo ${~a:-b}", "echo ${=a#x}", "echo ${a:u}", "echo ${a:t5:h2}",
	"echo ${(s.:.)a}", "echo ${${a}}", "echo ${a:#x}", "echo ${a:|b}", "echo ${a:*b}", "echo ${a^}", "echo ${a,}", "echo ${a@U}", "echo ${a//x}", "echo ${a/#x/y}", "echo ${a:0}", "echo ${@:1:2}", "echo ${!a[@]}", "echo ${!a@}",
	"echo $a[1]", "echo $#a", "echo ${#a[*]}", "x=${a:-${=b}}", "cat <<EOF\n${=a}\nEOF", "echo $((${=a}))",
}

func c11(c *Ctx) {
	c.Rule = "inputs: targeted non-POSIX constructs in many contexts (alone, in $( ), in functions, in if/case bodies, after other statements), the repository's own test inputs, grammar-generated programs and single-token mutations; each parsed in all five variants and with RecoverErrors 0/1/5; " +
		"non-trivial = parses in ≥ 1 variant and has ≥ 2 statements or a compound command; distinct by source"
	var srcs []string
	for _, l := range c.CorpusLines() {
		srcs = append(srcs, unhx(strings.Fields(l)[len(strings.Fields(l))-1]))
	}
	wrap := []func(string) string{
		func(s string) string { return s },
		func(s string) string { return "echo $(" + s + ")" },
		func(s string) string { return "f() {\n\t" + s + "\n}" },
		func(s string) string { return "if true; then\n\t" + s + "\nfi" },
		func(s string) string { return "foo; " + s + " && bar" },
		func(s string) string { return "case x in\na) " + s + " ;;\nesac" },
		func(s string) string { return "{ " + s + "; } | cat" },
		func(s string) string { return "( " + s + " ) &" },
		func(s string) string { return "x=`" + s + "`" },
		func(s string) string { return "echo \"$(" + s + ")\"" },
	}
	for _, t := range c11Targets {
		for _, w := range wrap {
			srcs = append(srcs, w(t))
		}
	}
	seeds := repoSeeds()
	for i := 0; i < c.N/2 && len(seeds) > 0; i++ {
		srcs = append(srcs, seeds[c.R.Intn(len(seeds))])
	}
	for i := 0; i < c.N/2; i++ {
		g := newProgGen(c.R, c.R.Chance(70))
		p := g.Program(1 + c.R.Intn(3))
		if c.R.Chance(30) {
			p += c.R.Pick(c11Targets) + "\n"
		}
		srcs = append(srcs, p)
	}
	for _, src := range srcs {
		trees := map[syntax.LangVariant]*syntax.File{}
		nOK := 0
		for _, lang := range allLangs {
			f, err, pn := parseIn(src, lang, syntax.KeepComments(true))
			if pn != "" {
				c.Fail("panic "+langName(lang)+" "+hx(src), "Parse panicked: "+pn)
				continue
			}
			if err == nil && f != nil {
				trees[lang] = f
				nOK++
			}
		}
		nontriv := false
		for _, f := range trees {
			if len(f.Stmts) >= 2 {
				nontriv = true
			}
			for _, s := range f.Stmts {
				if _, simple := s.Cmd.(*syntax.CallExpr); !simple {
					nontriv = true
				}
			}
			break
		}
		c.Case(src, nOK > 0 && nontriv, fmt.Sprintf("accepted-by=%d", nOK))
		// (a) POSIX-accepted trees contain no non-POSIX construct
		if f := trees[syntax.LangPOSIX]; f != nil {
			c.Hist["posix-accepted"]++
			if what := nonPosix(f); what != "" {
				w := "posix " + hx(src)
				// known regions are identified by the construct (call site), not by each input:
				// see known-findings.jsonl C11-posix-arith-subscript, C11-posix-pow
				switch what {
				case "array subscript in arithmetic (a[i])":
					w = "posix-class arith-subscript"
				case "** operator":
					w = "posix-class pow"
				}
				c.Fail(w, "accepted in POSIX mode but the tree contains a non-POSIX construct: "+what)
			}
		}
		// (b) Bash ⊆ Bats with the same tree
		if fb := trees[syntax.LangBash]; fb != nil {
			c.Hist["bash-accepted"]++
			if hasAtTest(fb) {
				c.Hist["bash-at-test-command"]++
				if ft := trees[syntax.LangBats]; ft == nil || encTree(ft) != encTree(fb) {
					// by design of Bats: known finding C11-bats-attest-command (one class witness)
					c.Fail("bats-class attest-command", "accepted as Bash with an @test command word, but Bats rejects it or parses it differently")
				}
			} else if ft := trees[syntax.LangBats]; ft == nil {
				_, err, _ := parseIn(src, syntax.LangBats, syntax.KeepComments(true))
				c.Fail("bats "+hx(src), fmt.Sprintf("accepted as Bash but rejected as Bats: %v", err))
			} else if encTree(ft) != encTree(fb) {
				c.Fail("bats "+hx(src), "accepted as Bash and Bats with different trees")
			}
		}
		// (c) recovery is transparent on valid input
		for lang, f := range trees {
			for _, n := range []int{1, 5} {
				fr, err, pn := parseIn(src, lang, syntax.KeepComments(true), syntax.RecoverErrors(n))
				if pn != "" {
					c.Fail(fmt.Sprintf("recover %d %s %s", n, langName(lang), hx(src)), "Parse with RecoverErrors panicked: "+pn)
					continue
				}
				if err != nil || fr == nil {
					c.Fail(fmt.Sprintf("recover %d %s %s", n, langName(lang), hx(src)), fmt.Sprintf("valid input fails with RecoverErrors(%d): %v", n, err))
					continue
				}
				if !reflect.DeepEqual(f, fr) && encTree(f) != encTree(fr) {
					c.Fail(fmt.Sprintf("recover %d %s %s", n, langName(lang), hx(src)), "valid input parses differently with RecoverErrors")
				}
			}
		}
	}
}
